(* C10 / C07 / C17: "every object of the heap has its keys strictly ascending in byte order"
   is a GLOBAL invariant of every run.  Final statements only; the proofs are in
   Proofs/ObjsSorted.v, the vocabulary in Spec/ObjsSorted.v.

   Props/C10_determinism.v (assoc_set_sorted, object_order_canonical) and Props/C07_control.v
   (heap_sorted_steps, forin_object_keys_ascending) show that each object-writing PRIMITIVE
   keeps an object sorted, and derive the for-in order UNDER the hypothesis that the heap is
   sorted.  Here the hypothesis is discharged: the decoder only delivers canonical documents,
   the start state is sorted, and every function of the evaluator and of the driver keeps the
   heap sorted for every outcome (value, error, signal, panic, fuel, unsupported).  Hence Go's
   randomised map iteration order is never observable in the model: for-in, print and json()
   see the members of every object in ascending byte order of the keys, each key once.

   (This is also what makes the model's [marshal_indent], which writes the members in list
   order, agree with Go's encoding/json, which sorts map keys: [to_go_value_sorted].) *)
From Coq Require Import List Sorted.
From JQ Require Import Base.Bytes Num.F64 Syntax.Token Syntax.Lexer Syntax.Ast Syntax.Parser.
From JQ Require Import Json.JValue Json.Decode Json.Encode Json.JsonProofs.
From JQ Require Import Gen.Generated Sem.Value Sem.Natives Sem.Eval Sem.Driver.
From JQ Require Import Spec.ControlLaws Spec.ObjsSorted.
From JQ Require Import Proofs.AssocCanon Proofs.Control Proofs.ObjsSorted.
Import ListNotations.
Open Scope string_scope. Open Scope list_scope. Open Scope nat_scope.

(* ---- helpers of the examples ---- *)
Definition lines (l : list string) : bytes := concat (map (fun s => bs s ++ [10%N]) l).
Definition run_with (p inp : string) (sels : list string) : run_result :=
  eval_program 3000 (bs p) [(bs "f.json", mkR [bs inp] false)] (map bs sels) false.
Definition out_of (r : run_result) : outcome * bytes := (r_outcome r, output_of (io (r_state r))).
(* the key lists of all objects of a heap *)
Definition all_keys (h : heap) : list (list bytes) := map (fun kv => map fst (snd kv)) (PM.elements (objs h)).

(* ---- 0. the three ways of saying "ascending" agree; ascending keys are duplicate-free ---- *)
Theorem ascending_forms_agree :
  (forall (A : Type) (l : list (bytes * A)), keys_ascending (map fst l) <-> keys_sorted l) /\
  (forall ks, keys_ascending ks <-> strictly_ascending ks) /\
  (forall ks, keys_ascending ks -> NoDup ks).
Proof.
  exact (conj (@keys_ascending_iff_sorted) (conj keys_ascending_strictly keys_ascending_NoDup)).
Qed.
Print Assumptions ascending_forms_agree.

Example ascending_forms_agree_ex :
  keys_ascending [bs "Z"; bs "a"; bs "ab"; bs "b"] /\ ~ keys_ascending [bs "a"; bs "a"] /\
  keys_sorted [(bs "a", 1); (bs "m", 2); (bs "z", 3)].
Proof.
  split; [vm_compute; auto|]. split; [vm_compute; intros [H _]; discriminate|].
  apply keys_ascending_iff_sorted. vm_compute. auto.
Qed.

(* ---- 1. the decoder: every object of a decoded document is canonical ---- *)
(* one Decode call on the whole input, and Decoder.Decode over a chunked reader *)
Theorem decoded_objects_sorted :
  (forall s, dec_result_sorted (decode_next s)) /\
  (forall d, step_result_sorted (fst (fst (dec_step d)))).
Proof. exact decoded_objects_sorted_proof. Qed.
Print Assumptions decoded_objects_sorted.

(* keys in any order, a duplicate, a nested object: ascending, last duplicate wins *)
Example decoded_objects_sorted_ex :
  match decode_next (bs "{""z"":1,""a"":2,""m"":{""y"":0,""b"":0},""a"":4} tail") with
  | DValue (JObj l) rest =>
    map fst l = [bs "a"; bs "m"; bs "z"] /\
    (match assoc_get (bs "m") l with Some j => jobj_keys j = [bs "b"; bs "y"] | None => False end) /\
    (match assoc_get (bs "a") l with Some (JNum _) => True | _ => False end) /\
    rest = bs " tail"
  | _ => False
  end /\
  match fst (fst (dec_step (dec_init (mkR [bs "{""b"":1,"; bs """a"":2}"] false)))) with
  | SValue j => jobj_keys j = [bs "a"; bs "b"]
  | _ => False
  end.
Proof. vm_compute. repeat split; reflexivity. Qed.

(* hence NewValue of a decoded document creates sorted objects only *)
Theorem new_value_objects_sorted : forall j, wf_jvalue j ->
  forall h, heap_objs_sorted h -> heap_objs_sorted (snd (new_value j h)).
Proof. exact new_value_sorted. Qed.
Print Assumptions new_value_objects_sorted.

Example new_value_objects_sorted_ex :
  match decode_next (bs "[{""q"":1,""c"":{""k"":1,""a"":2}}]") with
  | DValue j _ => all_keys (snd (new_value j empty_heap)) = map (map bs) [["a"; "k"]; ["c"; "q"]]
  | _ => False
  end /\
  (* the hypothesis is needed: an unsorted "document" gives an unsorted object *)
  all_keys (snd (new_value (JObj [(bs "z", JNull); (bs "a", JNull)]) empty_heap)) = [[bs "z"; bs "a"]].
Proof. vm_compute. split; reflexivity. Qed.

(* ---- 2. the invariant ---- *)
(* every function of the evaluator and of the driver keeps it, for every outcome:
   the 14 mutually recursive functions, set_member, create_speculative, eval_assignment,
   native_call (pluck included), eval_rules, eval_elements, eval_pattern_rules, new_evaluator,
   eval_selector, run_special, process_root, select_roots, process_value, decode_loop,
   run_files, run_body (Spec/ObjsSorted.v, [all_keep_sorted]) *)
Theorem objs_sorted_invariant : all_keep_sorted.
Proof. exact objs_sorted_invariant_proof. Qed.
Print Assumptions objs_sorted_invariant.

(* the property composes: any computation put together from such functions with ret / bind /
   catch keeps the invariant too, so every state BETWEEN two calls of a run is sorted *)
Theorem keeps_sorted_compositional :
  (forall A (a : A), keeps_sorted (ret a)) /\
  (forall A B (m : M A) (k : A -> M B),
     keeps_sorted m -> (forall a, keeps_sorted (k a)) -> keeps_sorted (bind m k)) /\
  (forall A (m : M A), keeps_sorted m -> keeps_sorted (catch m)).
Proof. exact (conj (@ks_ret) (conj (@ks_bind) (@ks_catch))). Qed.
Print Assumptions keeps_sorted_compositional.

(* one instance spelled out: a statement, started on a sorted heap, ends on a sorted heap *)
Example objs_sorted_invariant_ex : forall src funcs fz n s st r st',
  heap_objs_sorted (hp st) -> eval_stmt src funcs fz n s st = (r, st') -> heap_objs_sorted (hp st').
Proof. intros src funcs fz n s st r st'. exact (ks_stmt objs_sorted_invariant src funcs fz n s st r st'). Qed.

(* the final state of every run *)
Theorem run_objs_sorted : forall n src files sels fz,
  heap_objs_sorted (hp (r_state (eval_program n src files sels fz))).
Proof. exact run_objs_sorted_proof. Qed.
Print Assumptions run_objs_sorted.

(* in the StronglySorted form of Props/C10_determinism.v: every object of the final heap is
   canonical, i.e. determined by its key -> cell map *)
Theorem run_objects_canonical : forall n src files sels fz oid,
  keys_sorted (get_obj (hp (r_state (eval_program n src files sels fz))) oid).
Proof.
  intros n src files sels fz oid. apply keys_ascending_iff_sorted.
  exact (run_objs_sorted_proof n src files sels fz oid).
Qed.
Print Assumptions run_objects_canonical.

(* literal, member assignment in the order z a m, speculative creation, pluck, a decoded
   document with unordered and duplicate keys, a root selector: the objects of the final heap *)
Example run_objs_sorted_ex :
  let r := run_with "BEGIN { o = {}; o.z = 1; o.a = 2; o.m = 3; l = {y: 1, b: 2}; s.q.k = 1; s.q.c = 2; p = o.pluck(""z"", ""m"", ""a"") } { $.n = 1; $.A = 2 }"
                    "{""k"":1,""b"":{""x"":1,""d"":2},""k"":3}" [] in
  r_outcome r = OOk /\
  all_keys (hp (r_state r)) =
    map (map bs) [["A"; "b"; "k"; "n"]; ["c"; "k"]; ["b"; "y"]; ["q"]; ["a"; "m"; "z"]; ["d"; "x"];
                  ["a"; "m"; "z"]] /\
  (* a root selector: the document is built in the selector's evaluator *)
  let r' := run_with "{ $.n = 1; $.B = 2 }" "{""k"":1,""b"":{""x"":1,""d"":2},""k"":3}" ["$.b"] in
  r_outcome r' = OOk /\ In (map bs ["B"; "d"; "n"; "x"]) (all_keys (hp (r_state r'))).
Proof. vm_compute. repeat split; try reflexivity. tauto. Qed.

(* the exported EvalExpression on a canonical document *)
Theorem expression_api_objs_sorted : forall n sel doc, wf_jvalue doc ->
  heap_objs_sorted (hp (x_state (eval_expression_api n sel doc))).
Proof. exact expression_api_objs_sorted_proof. Qed.
Print Assumptions expression_api_objs_sorted.

(* ---- 3. for-in ---- *)
(* A for-in statement started in a state of a run (sorted by the invariant) whose iterable is
   an object: the keys are those of the object when the iterable has been evaluated, any two
   of them strictly ascending, no duplicates; the body runs on a prefix of them in this order,
   each once, on all of them when the loop completes; the heap is sorted again afterwards. *)
Theorem forin_object_keys_ascending_run :
  forall src funcs fuzzing n id ix iter body st local st1 ixlocal st2 ic st3 oid,
  sorted_state st ->
  resolve_var src id id st = (Ok local, st1) ->
  resolve_index src ix id st1 = (Ok ixlocal, st2) ->
  eval_expr src funcs fuzzing n iter st2 = (Ok ic, st3) ->
  load (hp st3) ic = VObj oid ->
  let keys := map fst (get_obj (hp st3) oid) in
  let stmt := eval_stmt src funcs fuzzing (S n) (SForIn id ix iter body) in
  let exec := fun k => eval_body src funcs fuzzing k body in
  keys_ascending keys /\ strictly_ascending keys /\ NoDup keys /\
  stmt st = forin_fold (obj_setup local ixlocal oid) exec n keys st3 /\
  (exists vis why,
     loop_run (obj_setup local ixlocal oid) exec n keys st3 vis why (stmt st) /\
     (exists rest, keys = vis ++ rest) /\
     (why = Completed -> vis = keys)) /\
  sorted_state (snd (stmt st)).
Proof. exact forin_object_keys_ascending_run_proof. Qed.
Print Assumptions forin_object_keys_ascending_run.

(* Props/C07_control.v forin_object_keys_ascending with its hypothesis
   [heap_objs_sorted (hp st3)] (an intermediate state) replaced by the run invariant at the
   start of the statement *)
Theorem forin_object_keys_ascending_unconditional :
  forall src funcs fuzzing n id ix iter body st local st1 ixlocal st2 ic st3 oid,
  sorted_state st ->
  resolve_var src id id st = (Ok local, st1) ->
  resolve_index src ix id st1 = (Ok ixlocal, st2) ->
  eval_expr src funcs fuzzing n iter st2 = (Ok ic, st3) ->
  load (hp st3) ic = VObj oid ->
  exists keys, keys_ascending keys /\
    eval_stmt src funcs fuzzing (S n) (SForIn id ix iter body) st =
    forin_fold (obj_setup local ixlocal oid) (fun k => eval_body src funcs fuzzing k body) n keys st3.
Proof. exact forin_object_keys_ascending_unconditional_proof. Qed.
Print Assumptions forin_object_keys_ascending_unconditional.

(* the state in front of the for-in statement of a BEGIN rule, computed by running the
   statements before it *)
Definition begin_stmts (src : string) : list stmt :=
  match parse_program (bs src) with
  | POk prog _ => match prules prog with
                  | r :: _ => match rbody r with SBlock _ l => l | _ => [] end
                  | [] => [] end
  | _ => []
  end.
Definition state_before (src : string) (k : nat) : st :=
  let s0 := snd (new_evaluator (bs src) [] init_state) in
  fold_left (fun s x => snd (eval_stmt (bs src) [] false 200 x s)) (firstn k (begin_stmts src)) s0.

Example forin_object_keys_ascending_run_ex :
  let src := "BEGIN { o = {}; o.z = 1; o.a = 2; o.m = 3; for (k, v in o) print k, v }" in
  let st := state_before src 4 in
  (exists id ix iter body local st1 ixlocal st2 ic st3 oid,
      nth 4 (begin_stmts src) (SExit zero_token) = SForIn id ix iter body /\
      sorted_state st /\
      resolve_var (bs src) id id st = (Ok local, st1) /\
      resolve_index (bs src) ix id st1 = (Ok ixlocal, st2) /\
      eval_expr (bs src) [] false 100 iter st2 = (Ok ic, st3) /\
      load (hp st3) ic = VObj oid /\
      map fst (get_obj (hp st3) oid) = map bs ["a"; "m"; "z"]) /\
  out_of (run_with src "" []) = (OOk, lines ["a 2"; "m 3"; "z 1"]).
Proof.
  cbv zeta. split; [|vm_compute; reflexivity].
  do 11 eexists.
  split; [vm_compute; reflexivity|].
  split; [apply heap_objs_sorted_check; vm_compute; reflexivity|].
  split; [vm_compute; reflexivity|].
  split; [vm_compute; reflexivity|].
  split; [vm_compute; reflexivity|].
  split; vm_compute; reflexivity.
Qed.

(* ---- 4. print ---- *)
(* PrettyString of an object on a sorted heap: "{" "k1": p1, "k2": p2, ... "}" with the keys
   in ascending byte order, each once; p_i is the rendering of the i-th member *)
Theorem pretty_object_keys_ascending : forall f h path quote check oid out,
  heap_objs_sorted h ->
  pretty_fuel (S f) h path quote check (VObj oid) = Some out ->
  (check && existsb (fun r => is_same h r (VObj oid)) path)%bool = false ->
  let keys := map fst (get_obj h oid) in
  keys_ascending keys /\ strictly_ascending keys /\ NoDup keys /\
  exists parts,
    Forall2 (fun kc p => pretty_fuel f h (path ++ [VObj oid]) true true (load h (snd kc)) = Some p)
            (get_obj h oid) parts /\
    out = render_object (combine keys parts).
Proof. exact pretty_object_keys_ascending_proof. Qed.
Print Assumptions pretty_object_keys_ascending.

(* what `print o` writes for an object, in the final state of ANY run (no hypothesis) *)
Theorem run_print_object_keys_ascending : forall n src files sels fz oid out,
  let h := hp (r_state (eval_program n src files sels fz)) in
  pretty_string h (VObj oid) = Some out ->
  let keys := map fst (get_obj h oid) in
  keys_ascending keys /\ strictly_ascending keys /\ NoDup keys /\
  exists parts, length parts = length keys /\ out = render_object (combine keys parts).
Proof.
  intros n src files sels fz oid out h E.
  exact (print_object_keys_ascending_proof h oid out (run_objs_sorted_proof n src files sels fz) E).
Qed.
Print Assumptions run_print_object_keys_ascending.

Example pretty_object_keys_ascending_ex :
  out_of (run_with "BEGIN { o = {}; o.z = 1; o.a = ""x""; o.m = {k: 2, b: [1]}; print o }" "" [])
  = (OOk, lines ["{""a"": ""x"", ""m"": {""b"": [1], ""k"": 2}, ""z"": 1}"]) /\
  out_of (run_with "{ print $ }" "{""b"":1,""a"":{""d"":1,""c"":2},""b"":3}" [])
  = (OOk, lines ["{""a"": {""c"": 2, ""d"": 1}, ""b"": 3}"]) /\
  render_object [(bs "a", bs "1"); (bs "z", bs "2")] = bs "{""a"": 1, ""z"": 2}".
Proof. vm_compute. repeat split; reflexivity. Qed.

(* ---- 5. json() / the JSON output ---- *)
(* ToGoValue on a sorted heap yields a canonical document; for an object its keys are the
   object's keys, ascending *)
Theorem to_go_value_sorted : forall h v j,
  heap_objs_sorted h -> to_go_value h v = GoOk j -> wf_jvalue j.
Proof. exact to_go_value_sorted_proof. Qed.
Print Assumptions to_go_value_sorted.

Theorem to_go_object_keys : forall h oid j,
  heap_objs_sorted h -> to_go_value h (VObj oid) = GoOk j ->
  jobj_keys j = map fst (get_obj h oid) /\ keys_ascending (jobj_keys j) /\ wf_jvalue j.
Proof. exact to_go_object_keys_proof. Qed.
Print Assumptions to_go_object_keys.

(* the document GetRootJson marshals after ANY run is canonical (no hypothesis) *)
Theorem run_root_json_canonical : forall n src files sels fz a j,
  let s := r_state (eval_program n src files sels fz) in
  root s = Some a -> to_go_value (hp s) (load (hp s) a) = GoOk j -> wf_jvalue j.
Proof.
  intros n src files sels fz a j s _ E.
  exact (to_go_value_sorted_proof (hp s) _ j (run_objs_sorted_proof n src files sels fz) E).
Qed.
Print Assumptions run_root_json_canonical.

Example to_go_value_sorted_ex :
  out_of (run_with "BEGIN { o = {}; o.z = 1; o.a = 2; o.m = {y: 1, b: 2}; print json(o) }" "" [])
  = (OOk, bs "{
  ""a"": 2,
  ""m"": {
    ""b"": 2,
    ""y"": 1
  },
  ""z"": 1
}
") /\
  get_root_json (r_state (run_with "{ $.b = 1; $.a = 2 }" "{""c"":0}" []))
  = JsonText (bs "{
  ""a"": 2,
  ""b"": 1,
  ""c"": 0
}").
Proof. vm_compute. split; reflexivity. Qed.
