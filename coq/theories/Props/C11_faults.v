(* C11: "A program containing a syntax error anywhere [...] produces no output at all, only a
   syntax error [...]. When evaluation reaches an operation that fails [...] the run stops at
   that point with a runtime error: everything printed before the failure is kept, nothing is
   printed after it, and the failure is never silently ignored, whatever syntactic position it
   occurs in."

   Vocabulary (Spec/EvalInvSpec.v): [io s] is the reversed log of the run; every error is raised
   by [raise_err], which pushes the ghost event [IoRaise]; [log_grows s s'] = the log of s' extends
   that of s; [err_last m] = whenever m ends in [Err], the most recent event is the raise;
   [everywhere P] (Proofs/EvalFaults.v) = P holds of every function of the evaluator and driver. *)
From Coq Require Import List String.
From JQ Require Import Base.Bytes Syntax.Parser Json.Decode.
From JQ Require Import Sem.Value Sem.Eval Sem.Driver.
From JQ Require Import Spec.EvalInvSpec Proofs.EvalInv Proofs.EvalFaults.
Import ListNotations.

(* the output of a longer log extends the output of the shorter one *)
Theorem output_of_app : forall l l0, output_of (l ++ l0) = output_of l0 ++ output_of l.
Proof. exact EvalFaults.output_of_app. Qed.
Print Assumptions output_of_app.

(* every function of the evaluator and of the driver only ever extends the log ... *)
Theorem output_monotone : everywhere (fun A m => preserves log_grows m).
Proof. exact output_monotone_all. Qed.
Print Assumptions output_monotone.

Theorem output_monotone_run : forall src prog fz sels n files,
  preserves log_grows (run_body src prog fz sels n files).
Proof. exact EvalFaults.output_monotone_run. Qed.
Print Assumptions output_monotone_run.

(* ... so the bytes printed so far are never retracted *)
Theorem output_prefix : forall src prog fz sels n files s r s',
  run_body src prog fz sels n files s = (r, s') ->
  exists b, output_of (io s') = output_of (io s) ++ b.
Proof. exact output_prefix_run. Qed.
Print Assumptions output_prefix.

(* an error is never swallowed and nothing is logged after it: in every function, an [Err]
   outcome comes with the raise as the most recent event (the catch sites of call_function,
   eval_match_cases, eval_body, eval_rules, run_special and eval_selector included) *)
Theorem fault_stops : everywhere (fun A m => err_last m).
Proof. exact err_last_all. Qed.
Print Assumptions fault_stops.

Theorem fault_stops_run : forall src prog fz sels n files,
  err_last (run_body src prog fz sels n files).
Proof. exact err_last_run. Qed.
Print Assumptions fault_stops_run.

(* "never silently ignored": a function that comes back with a value or a control-flow signal
   has raised nothing on the way (no catch site turns an error into a success); one that comes
   back with an error has raised exactly once, as the most recent event *)
Theorem failure_never_ignored : everywhere (fun A m => raises_surface m).
Proof. exact raises_surface_all. Qed.
Print Assumptions failure_never_ignored.

Theorem failure_never_ignored_run : forall src prog fz sels n files,
  raises_surface (run_body src prog fz sels n files).
Proof. exact raises_surface_run. Qed.
Print Assumptions failure_never_ignored_run.

(* a run that ends normally (or by exit) has not raised an error anywhere *)
Theorem no_silent_failure : forall n src files sels fz s,
  eval_program n src files sels fz = mkRun OOk s -> ~ In IoRaise (io s).
Proof. exact EvalFaults.no_silent_failure. Qed.
Print Assumptions no_silent_failure.

(* a run that ends in an error has raised exactly one: the last event *)
Theorem one_failure : forall n src files sels fz prog p s o,
  parse_program src = POk prog p ->
  eval_program n src files sels fz = mkRun o s ->
  (exists e, o = ORuntime e) \/ o = OJson \/ (exists e, o = OSyntax e) ->
  exists l, io s = IoRaise :: l /\ ~ In IoRaise l.
Proof. exact EvalFaults.one_failure. Qed.
Print Assumptions one_failure.

(* top level: a run that ends in a runtime error / a JSON error / a selector's syntax error
   ends with the raise, and its output is exactly what had been printed before *)
Theorem fault_stops_runtime : forall n src files sels fz e s,
  eval_program n src files sels fz = mkRun (ORuntime e) s ->
  exists l, io s = IoRaise :: l /\ output_of (io s) = output_of l.
Proof. exact EvalFaults.fault_stops_runtime. Qed.
Print Assumptions fault_stops_runtime.

Theorem fault_stops_json : forall n src files sels fz s,
  eval_program n src files sels fz = mkRun OJson s ->
  exists l, io s = IoRaise :: l /\ output_of (io s) = output_of l.
Proof. exact EvalFaults.fault_stops_json. Qed.
Print Assumptions fault_stops_json.

Theorem fault_stops_selector_syntax : forall n src files sels fz prog p e s,
  parse_program src = POk prog p ->
  eval_program n src files sels fz = mkRun (OSyntax e) s ->
  exists l, io s = IoRaise :: l /\ output_of (io s) = output_of l.
Proof. exact EvalFaults.fault_stops_selector_syntax. Qed.
Print Assumptions fault_stops_selector_syntax.

(* a syntax error anywhere in the program: no output at all, not even a read *)
Theorem syntax_error_silent : forall n src files sels fz pos,
  parse_program src = PErr pos ->
  eval_program n src files sels fz = mkRun (OSyntax (syntax_error src pos)) init_state /\
  io (r_state (eval_program n src files sels fz)) = [] /\
  output_of (io (r_state (eval_program n src files sels fz))) = [].
Proof. exact EvalFaults.syntax_error_silent. Qed.
Print Assumptions syntax_error_silent.

(* ------------------------------------------------------------------ non-vacuity *)

Definition is_runtime (o : outcome) : bool := match o with ORuntime _ => true | _ => false end.
Definition is_syntax (o : outcome) : bool := match o with OSyntax _ => true | _ => false end.
Definition is_json (o : outcome) : bool := match o with OJson => true | _ => false end.

(* prints, divides by zero, would print again: "1\n" is kept, "2" never appears *)
Example ex_runtime :
  let r := eval_program 2000 (bs "BEGIN { print 1; print 1/0; print 2 }") [] [] false in
  is_runtime (r_outcome r) = true /\
  io (r_state r) = [IoRaise; IoWrite [10%N]; IoWrite [49%N]] /\
  output_of (io (r_state r)) = [49%N; 10%N].
Proof. vm_compute. repeat split. Qed.

(* the failure sits in a function called from a match case inside a for-in loop inside BEGIN:
   every catch site re-raises it; "8", "9" and the END rule's "6" never appear *)
Example ex_runtime_nested :
  let r := eval_program 2000
    (bs "function f(x) { print 7; return 1/x } BEGIN { for (i in [1]) { print match (1) { 1 => f(0), } print 8 } print 9 } END { print 6 }")
    [] [] false in
  is_runtime (r_outcome r) = true /\
  io (r_state r) = [IoRaise; IoWrite [10%N]; IoWrite [55%N]] /\
  output_of (io (r_state r)) = [55%N; 10%N].
Proof. vm_compute. repeat split. Qed.

(* a pattern rule failing on the third element: the first two elements' output is kept *)
Example ex_runtime_rules :
  let r := eval_program 2000 (bs "{ print 6 / ($ - 3) }")
             [(bs "f", mkR [bs "[1,2,3,4]"] false)] [] false in
  is_runtime (r_outcome r) = true /\
  output_of (io (r_state r)) = [45%N; 51%N; 10%N; 45%N; 54%N; 10%N] /\
  hd IoReadEOF (io (r_state r)) = IoRaise.
Proof. vm_compute. repeat split. Qed.

(* a second JSON value that is malformed: the first value's output is kept *)
Example ex_json :
  let r := eval_program 2000 (bs "{ print $ }") [(bs "f", mkR [bs "[1,2] [3,"] false)] [] false in
  is_json (r_outcome r) = true /\
  output_of (io (r_state r)) = [49%N; 10%N; 50%N; 10%N] /\
  hd IoReadEOF (io (r_state r)) = IoRaise.
Proof. vm_compute. repeat split. Qed.

(* a root selector that does not parse (the program does) *)
Example ex_selector_syntax :
  let r := eval_program 2000 (bs "{ print $ }") [(bs "f", mkR [bs "[1,2]"] false)] [bs "$.("] false in
  is_syntax (r_outcome r) = true /\ io (r_state r) = [IoRaise; IoRead 5] /\
  (exists prog p, parse_program (bs "{ print $ }") = POk prog p).
Proof. vm_compute. repeat split. do 2 eexists. reflexivity. Qed.

(* a syntax error at the very end of the program: nothing is printed, nothing is read *)
Example ex_syntax :
  (exists pos, parse_program (bs "BEGIN { print 1; print 2 +; }") = PErr pos) /\
  let r := eval_program 2000 (bs "BEGIN { print 1; print 2 +; }") [(bs "f", mkR [bs "[1,2]"] false)] [] false in
  is_syntax (r_outcome r) = true /\ io (r_state r) = [].
Proof. vm_compute. split; [eexists; reflexivity|repeat split]. Qed.

(* monotonicity is not vacuous: a run that prints *)
Example ex_monotone :
  exists r s', run_body (bs "BEGIN { print 1 }")
                 match parse_program (bs "BEGIN { print 1 }") with POk p _ => p | _ => Ast.empty_program end
                 false [] 2000 [] init_state = (r, s') /\
    output_of (io s') = output_of (io init_state) ++ [49%N; 10%N].
Proof. vm_compute. do 2 eexists. split; reflexivity. Qed.

(* a run that ends normally: several rules, a call, a match, a next -- and no raise in the log *)
Example ex_no_failure :
  let r := eval_program 2000
    (bs "function f(x) { return x + 1 } { print f($); next } END { print 0 }")
    [(bs "f", mkR [bs "[1,2]"] false)] [] false in
  r_outcome r = OOk /\ existsb (fun e => match e with IoRaise => true | _ => false end) (io (r_state r)) = false /\
  output_of (io (r_state r)) = [50%N; 10%N; 51%N; 10%N; 48%N; 10%N].
Proof. vm_compute. repeat split. Qed.
