(* Props/C12_positions.v -- property C12: reported error positions are consistent with, and
   point into, the program text.

   Every syntax/runtime error is located by a byte offset [pos] and rendered through
   [get_line_col src pos = (text of the line, 1-based line number, 0-based byte column)].
   Vocabulary: Spec/Lines.v (lines, line_of_pos, line_start, col_of_pos) and
   Spec/TokSpans.v (tok_in_src, lex_inv, unexpected_byte, Forall_tokens_*, lit_tag_ok).
   Proofs: Proofs/LineCol.v, Proofs/LexSpan.v, Proofs/ParseSpan.v. *)
From Coq Require Import ZArith List Lia.
From JQ Require Import Base.Bytes Syntax.Token Gen.Generated Syntax.Lexer Syntax.Ast Syntax.Parser.
From JQ Require Import Spec.Lines Spec.TokSpans Proofs.LineCol Proofs.LexSpan Proofs.ParseSpan.
Open Scope nat_scope.

(* ------------------------------------------------------------------------------------ *)
(* example programs: CRLF line ending, a two-byte UTF-8 character before the fault        *)
(*   BEGIN {\r\n  s = "é" @ 1\n}\n      -- '@' is byte 20 = line 2, byte column 11        *)
Definition ex_src : bytes :=
  bs "BEGIN {" ++ [13%N; 10%N] ++ bs "  s = """ ++ [195%N; 169%N] ++ bs """ @ 1" ++ [10%N] ++ bs "}" ++ [10%N].
Definition ex_line2 : bytes := bs "  s = """ ++ [195%N; 169%N] ++ bs """ @ 1".
(*   BEGIN {\n  x = 'ab\xC3c\n}        -- unterminated string with an invalid UTF-8 byte  *)
Definition ex_str : bytes :=
  bs "BEGIN {" ++ [10%N] ++ bs "  x = 'ab" ++ [195%N] ++ bs "c" ++ [10%N] ++ bs "}".
(*   # cé\n$.a ~ /ab\nc                 -- unterminated regex after a non-ASCII comment   *)
Definition ex_re : bytes := bs "# c" ++ [195%N; 169%N; 10%N] ++ bs "$.a ~ /ab" ++ [10%N] ++ bs "c".
(*   a well-formed program: compound assignment, regex literal, a body-less rule, a match *)
Definition ex_ok : bytes :=
  bs "BEGIN {" ++ [10%N] ++ bs "  x" ++ [195%N] ++ bs " += a[1].b; y = /r" ++ [195%N; 169%N] ++ bs "/" ++ [10%N] ++
  bs "  for (k, v in $) { print k, v }" ++ [10%N] ++ bs "}" ++ [10%N] ++
  bs "$.k > 3" ++ [10%N] ++ bs "function f(a, b) { return match (a) { 1, 2 => b, 'z' => { x -= 1 } } }".

(* ------------------------------------------------------------------------------------ *)
(* 1. The quoted line is line n of the program, for EVERY source and EVERY offset.        *)
Theorem line_text_consistent : forall src pos text n col,
  get_line_col src pos = (text, n, col) ->
  nth_error (lines src) (n - 1) = Some text /\ 1 <= n.
Proof. exact line_text_consistent_proof. Qed.
Print Assumptions line_text_consistent.

Example line_text_consistent_ex :
  parse_program ex_src = PErr 20 /\ get_line_col ex_src 20 = (ex_line2, 2, 11%Z) /\
  nth_error (lines ex_src) 1 = Some ex_line2 /\ length (lines ex_src) = 4.
Proof. vm_compute. repeat split; reflexivity. Qed.

(* sanity of the vocabulary: lines/unlines are inverse, line_start is where the line sits *)
Theorem lines_roundtrip : forall s, unlines (lines s) = s /\ length (lines s) = S (count_nl s).
Proof. intro s. split; [apply unlines_lines|apply lines_length]. Qed.
Print Assumptions lines_roundtrip.

Theorem line_start_is_offset : forall s k text,
  nth_error (lines s) k = Some text ->
  slice s (line_start s k) (length text) = text /\
  (k = 0 /\ line_start s k = 0 \/ exists j, line_start s k = S j /\ nth_error s j = Some 10%N) /\
  line_start s k + length text <= length s.
Proof. exact line_start_spec. Qed.
Print Assumptions line_start_is_offset.

Example line_start_ex : line_start ex_src 1 = 9 /\ line_start ex_src 2 = 24 /\ line_of_pos ex_src 20 = 1.
Proof. vm_compute. repeat split; reflexivity. Qed.

(* ------------------------------------------------------------------------------------ *)
(* 2. EVERY offset inside the text or at its end is rendered exactly: the line it belongs to
      (a newline byte belongs to the line it ends; the end of the text to the last line), and
      the column is the byte offset inside that line: 0 <= col <= length text, col = length
      text exactly on the terminating newline / at the end of the text, and otherwise the caret
      points at the very byte -- whatever bytes precede it (multi-byte UTF-8, CR, invalid). *)
Theorem pos_exact : forall src pos text n col,
  pos <= length src ->
  get_line_col src pos = (text, n, col) ->
  n = S (line_of_pos src pos) /\
  nth_error (lines src) (line_of_pos src pos) = Some text /\
  line_start src (line_of_pos src pos) <= pos /\
  col = Z.of_nat (col_of_pos src pos) /\
  (0 <= col <= Z.of_nat (length text))%Z /\
  (col = Z.of_nat (length text) <-> (nth_error src pos = Some 10%N \/ pos = length src)) /\
  ((col < Z.of_nat (length text))%Z -> nth_error text (Z.to_nat col) = nth_error src pos).
Proof. exact pos_exact_proof. Qed.
Print Assumptions pos_exact.

Example pos_exact_ex :
  20 <= length ex_src /\ nth_error ex_src 20 = Some 64%N /\
  get_line_col ex_src 20 = (ex_line2, 2, 11%Z) /\ nth_error ex_line2 11 = Some 64%N /\
  col_of_pos ex_src 20 = 11.
Proof. split; [vm_compute; repeat constructor|vm_compute; repeat split; reflexivity]. Qed.

(* 3. The two boundary situations, spelled out. *)
Theorem pos_on_newline : forall src pos text n col,
  nth_error src pos = Some 10%N ->
  get_line_col src pos = (text, n, col) ->
  n = S (line_of_pos src pos) /\
  nth_error (lines src) (line_of_pos src pos) = Some text /\
  col = Z.of_nat (length text).
Proof. exact pos_on_newline_proof. Qed.
Print Assumptions pos_on_newline.

Example pos_on_newline_ex :      (* the LF of the CRLF ending line 1: line 1, just past the CR *)
  nth_error ex_src 8 = Some 10%N /\ get_line_col ex_src 8 = (bs "BEGIN {" ++ [13%N], 1, 8%Z).
Proof. vm_compute. split; reflexivity. Qed.

(* at or past the end of the text: the last line, just past its last byte *)
Theorem pos_past_end : forall src pos text n col,
  length src <= pos ->
  get_line_col src pos = (text, n, col) ->
  n = length (lines src) /\ nth_error (lines src) (n - 1) = Some text /\
  col = Z.of_nat (length text).
Proof. exact pos_past_end_proof. Qed.
Print Assumptions pos_past_end.

Example pos_past_end_ex :
  get_line_col ex_str 999 = (bs "}", 3, 1%Z) /\ get_line_col ex_src (length ex_src) = ([], 4, 0%Z).
Proof. vm_compute. split; reflexivity. Qed.

(* The three defects found by this work (column 1 for an unterminated string at the end of the
   text; column -1 for an offset on a newline byte, reachable through the stale EOF token and
   through literals whose content starts with a newline) were fixed in src/lexer.go and in the
   model; the former witnesses now come out right: *)
Example former_witnesses_fixed :
  parse_program (bs "BEGIN { x = '") = PErr 12 /\
  get_line_col (bs "BEGIN { x = '") 12 = (bs "BEGIN { x = '", 1, 12%Z) /\
  parse_program (bs "BEGIN {" ++ [10%N]) = PErr 8 /\
  get_line_col (bs "BEGIN {" ++ [10%N]) 8 = ([], 2, 0%Z) /\
  parse_program (bs "BEGIN { '" ++ [10%N] ++ bs "abc' = 1 }") = PErr 9 /\
  get_line_col (bs "BEGIN { '" ++ [10%N] ++ bs "abc' = 1 }") 9 = (bs "BEGIN { '", 1, 9%Z).
Proof. vm_compute. repeat split; reflexivity. Qed.

(* ------------------------------------------------------------------------------------ *)
(* 4. Lexer errors.  [lex_inv src l]: l is a cursor over src
      (lrest l = skipn (lpos l) src, lpos l <= length src, lstart l <= lpos l).
      Every error of Lexer.Next is located on a byte of the text that is not a newline, with
      no newline skipped on the way; the byte tells the two kinds apart.                   *)
Theorem lexer_error_pos : forall src l p l',
  lex_inv src l -> lex_next l = LexErr p l' ->
  lpos l <= p /\ p < length src /\ lstart l' = p /\ lex_inv src l' /\
  (forall j, lpos l <= j < p -> nth_error src j <> Some 10%N) /\
  exists c, nth_error src p = Some c /\ c <> 10%N.
Proof. exact lexer_error_pos_proof. Qed.
Print Assumptions lexer_error_pos.

(* 4a. the byte is not a quote: "unexpected character", located exactly on that byte *)
Theorem lexer_error_on_char : forall src l p l' c,
  lex_inv src l -> lex_next l = LexErr p l' ->
  nth_error src p = Some c -> c <> 39%N -> c <> 34%N ->
  unexpected_byte c (nth_error src (S p)) /\ lpos l' = S p.
Proof. exact lexer_error_on_char_proof. Qed.
Print Assumptions lexer_error_on_char.

Example lexer_error_on_char_ex :
  let l := mkLexer (skipn 19 ex_src) 19 16 in
  lex_inv ex_src l /\ lex_next l = LexErr 20 (mkLexer (skipn 21 ex_src) 21 20) /\
  nth_error ex_src 20 = Some 64%N.
Proof.
  split; [unfold lex_inv; vm_compute; repeat split; repeat constructor|vm_compute; split; reflexivity].
Qed.

(* 4b. the byte is a quote q: "unexpected EOF while reading string", located exactly on the
       opening quote; q does not occur again and the lexer stands at the end of the text *)
Theorem lexer_error_in_string : forall src l p l' q,
  lex_inv src l -> lex_next l = LexErr p l' ->
  nth_error src p = Some q -> q = 39%N \/ q = 34%N ->
  lpos l' = length src /\ (forall j, p < j -> nth_error src j <> Some q).
Proof. exact lexer_error_in_string_proof. Qed.
Print Assumptions lexer_error_in_string.

Example lexer_error_in_string_ex :
  let l := mkLexer (skipn 13 ex_str) 13 12 in
  lex_inv ex_str l /\ lex_next l = LexErr 14 (mkLexer [] 21 14) /\
  parse_program ex_str = PErr 14 /\ nth_error ex_str 14 = Some 39%N /\
  get_line_col ex_str 14 = (bs "  x = 'ab" ++ [195%N] ++ bs "c", 2, 6%Z).
Proof.
  split; [unfold lex_inv; vm_compute; repeat split; repeat constructor|vm_compute; repeat split; reflexivity].
Qed.

(* ... both rendered: the line of the offending byte, the caret exactly on it *)
Theorem lexer_error_caret_exact : forall src l p l' text n col,
  lex_inv src l -> lex_next l = LexErr p l' ->
  get_line_col src p = (text, n, col) ->
  n = S (line_of_pos src p) /\
  nth_error (lines src) (n - 1) = Some text /\
  col = Z.of_nat (col_of_pos src p) /\
  (0 <= col < Z.of_nat (length text))%Z /\
  exists c, nth_error src p = Some c /\ nth_error text (Z.to_nat col) = Some c /\ c <> 10%N.
Proof. exact lexer_error_caret_exact_proof. Qed.
Print Assumptions lexer_error_caret_exact.

(* 4c. unterminated regex (Lexer.Regex is called right after Lexer.Next returned the '/'
       token): the offset is that of the opening '/', no other '/' follows *)
Theorem lexer_error_in_regex : forall src l0 t l p l',
  lex_inv src l0 -> lex_next l0 = LexTok t l -> ttag t = TDivide ->
  lex_regex l = LexErr p l' ->
  p = tpos t /\ nth_error src p = Some 47%N /\ p < length src /\
  (forall j, p < j -> nth_error src j <> Some 47%N) /\ lpos l' = length src.
Proof. exact lexer_error_in_regex_proof. Qed.
Print Assumptions lexer_error_in_regex.

Example lexer_error_in_regex_ex :
  let l0 := mkLexer (skipn 11 ex_re) 11 10 in
  let l := mkLexer (skipn 13 ex_re) 13 12 in
  lex_inv ex_re l0 /\ lex_next l0 = LexTok (mkTok TDivide 12 0) l /\
  lex_regex l = LexErr 12 (mkLexer [] 17 12) /\
  parse_program ex_re = PErr 12 /\ get_line_col ex_re 12 = (bs "$.a ~ /ab", 2, 6%Z).
Proof.
  split; [unfold lex_inv; vm_compute; repeat split; repeat constructor|vm_compute; repeat split; reflexivity].
Qed.

Theorem regex_error_caret : forall src l0 t l p l' text n col,
  lex_inv src l0 -> lex_next l0 = LexTok t l -> ttag t = TDivide ->
  lex_regex l = LexErr p l' ->
  get_line_col src p = (text, n, col) ->
  p = tpos t /\ n = S (line_of_pos src p) /\
  nth_error (lines src) (line_of_pos src p) = Some text /\
  col = Z.of_nat (col_of_pos src p) /\ (0 <= col < Z.of_nat (length text))%Z /\
  nth_error text (Z.to_nat col) = Some 47%N.
Proof. exact regex_error_caret_proof. Qed.
Print Assumptions regex_error_caret.

(* ------------------------------------------------------------------------------------ *)
(* 5. Token spans.  Every token returned by Lexer.Next lies inside the text, GetString on it
      does not panic and returns the slice it denotes, the cursor invariant is kept, the
      token starts at tokenStart, ends before the cursor, no newline was skipped, and the EOF
      token sits at the end of the text.                                                  *)
Theorem lex_next_span : forall src l t l',
  lex_inv src l -> lex_next l = LexTok t l' ->
  tok_in_src src t /\
  get_string src t = Some (slice src (tpos t) (tlen t)) /\
  lex_inv src l' /\
  tpos t = lstart l' /\ tpos t + tlen t <= lpos l' /\ lpos l <= lpos l' /\
  (ttag t <> TEOF -> lpos l <= tpos t /\ tpos t < lpos l') /\
  (ttag t = TEOF -> tpos t = length src) /\
  (forall j, lpos l <= j < tpos t -> nth_error src j <> Some 10%N).
Proof. exact lex_next_span_proof. Qed.
Print Assumptions lex_next_span.

Example lex_next_span_ex :
  lex_inv ex_src (new_lexer ex_src) /\
  let l := mkLexer (skipn 14 ex_src) 14 13 in
  lex_inv ex_src l /\ lex_next l = LexTok (mkTok TStr 16 2) (mkLexer (skipn 19 ex_src) 19 16) /\
  get_string ex_src (mkTok TStr 16 2) = Some [195%N; 169%N] /\
  lex_next (mkLexer (skipn 26 ex_src) 26 24) = LexTok (mkTok TEOF 26 0) (mkLexer [] 26 26).
Proof.
  split; [unfold lex_inv; vm_compute; repeat split; repeat constructor|].
  split; [unfold lex_inv; vm_compute; repeat split; repeat constructor|vm_compute; repeat split; reflexivity].
Qed.

(* The text of a token: identifiers and numbers denote src[tokenStart:pos] (non-empty), a string
   denotes the bytes strictly between its two equal quotes, every other token has Len = 0. *)
Theorem lex_next_text : forall src l t l',
  lex_inv src l -> lex_next l = LexTok t l' -> tok_text_ok src t l'.
Proof. exact lex_next_text_proof. Qed.
Print Assumptions lex_next_text.

Example lex_next_text_ex :
  tok_text_ok ex_src (mkTok TStr 16 2) (mkLexer (skipn 19 ex_src) 19 16) /\
  tok_text_ok ex_src (mkTok TIdent 11 1) (mkLexer (skipn 12 ex_src) 12 11).
Proof.
  split; unfold tok_text_ok; cbn [ttag tpos tlen lpos].
  - split; [reflexivity|split; [repeat constructor|]]. exists 34%N.
    split; [now right|split; [reflexivity|split; [reflexivity|]]].
    intros j Hj. assert (j = 16 \/ j = 17) as [->| ->] by lia; vm_compute; discriminate.
  - split; [reflexivity|repeat constructor].
Qed.

(* Parser.advance skips newline tokens with fuel = unread bytes + 1; that is always enough
   (the result is independent of the fuel), so its fuel-exhausted branch is dead code. *)
Theorem next_non_newline_fuel : forall src fuel1 fuel2 l saw,
  lex_inv src l -> length (lrest l) < fuel1 -> length (lrest l) < fuel2 ->
  next_non_newline fuel1 l saw = next_non_newline fuel2 l saw.
Proof. exact next_non_newline_fuel_proof. Qed.
Print Assumptions next_non_newline_fuel.

(* Every token stored in a parsed AST (including the synthesized tokens of compound
   assignment and the zero token of body-less rules) lies inside the text. *)
Theorem parse_spans : forall src,
  (forall prog p, parse_program src = POk prog p -> Forall_tokens_program (tok_in_src src) prog) /\
  (forall e p, parse_expression_src src = POk e p -> Forall_tokens_expr (tok_in_src src) e).
Proof. intro src. split; [apply parse_spans_proof|apply parse_spans_expr_proof]. Qed.
Print Assumptions parse_spans.

Example parse_spans_ex :
  (exists prog p, parse_program ex_ok = POk prog p /\ length (prules prog) = 2 /\ length (pfuncs prog) = 1) /\
  (exists e p, parse_expression_src (bs "f(1," ++ [10%N] ++ bs " 'a') + x.y") = POk e p).
Proof. split; vm_compute; eauto. Qed.

(* ... so Lexer.GetString on such a token never panics *)
Theorem tok_in_src_no_panic : forall src t, tok_in_src src t ->
  get_string src t = Some (slice src (tpos t) (tlen t)).
Proof. exact tok_in_src_get_string. Qed.
Print Assumptions tok_in_src_no_panic.

(* The parser has no reachable panic site, for any source and any amount of fuel. *)
Theorem parse_no_panic : forall src,
  parse_program src <> PPanic /\ parse_expression_src src <> PPanic /\
  (forall n, parse_program_fuel n src <> PPanic) /\
  (forall n, parse_expression_fuel n src <> PPanic).
Proof. exact parse_no_panic_proof. Qed.
Print Assumptions parse_no_panic.

Example parse_no_panic_ex :   (* an object literal and a function: the two prev_string sites *)
  exists prog p, parse_program (bs "function g(u,v){ return {u: 1, 'k': v} } { print g(/a/, 2) }") = POk prog p.
Proof. vm_compute. eauto. Qed.

(* ------------------------------------------------------------------------------------ *)
(* 6. Literal nodes carry literal tags (the evaluator's "unhandled literal type" panic is
      unreachable from parsed programs); syntax errors are located inside the text and the
      line they quote is a line of the program. *)
Theorem parse_lit_tags : forall src,
  (forall prog p, parse_program src = POk prog p -> Forall_lits_program lit_tag_ok prog) /\
  (forall e p, parse_expression_src src = POk e p -> Forall_lits_expr lit_tag_ok e).
Proof. exact parse_lit_tags_proof. Qed.
Print Assumptions parse_lit_tags.

Example parse_lit_tags_ex :
  exists e p, parse_expression_src (bs "[1, 'a', /r/, true, null, x.y]") = POk e p /\
              Forall_lits_expr lit_tag_ok e.
Proof. vm_compute. do 2 eexists. split; [reflexivity|]. vm_compute. tauto. Qed.

Theorem error_pos_in_src : forall src pos,
  parse_program src = PErr pos \/ parse_expression_src src = PErr pos -> pos <= length src.
Proof. exact error_pos_in_src_proof. Qed.
Print Assumptions error_pos_in_src.

(* THE positive statement for syntax errors: every offset the parser reports (its own errors
   and the lexer errors it passes on) is rendered exactly -- the line the offset belongs to,
   0 <= col <= length of that line, col = length only on the newline ending the line or at the
   end of the text, otherwise the caret is on the very byte. *)
Theorem error_col_in_line : forall src pos text n col,
  parse_program src = PErr pos \/ parse_expression_src src = PErr pos ->
  get_line_col src pos = (text, n, col) ->
  pos <= length src /\
  n = S (line_of_pos src pos) /\
  nth_error (lines src) (n - 1) = Some text /\
  col = Z.of_nat (col_of_pos src pos) /\
  (0 <= col <= Z.of_nat (length text))%Z /\
  (col = Z.of_nat (length text) <-> (nth_error src pos = Some 10%N \/ pos = length src)) /\
  ((col < Z.of_nat (length text))%Z -> nth_error text (Z.to_nat col) = nth_error src pos).
Proof. exact error_col_in_line_proof. Qed.
Print Assumptions error_col_in_line.

(* ... and for runtime errors, which are located at the Pos of a token of the AST: such a
   token satisfies tok_in_src (parse_spans), hence Pos <= length src and pos_exact applies *)
Theorem ast_token_rendered_exact : forall src t text n col,
  tok_in_src src t ->
  get_line_col src (tpos t) = (text, n, col) ->
  n = S (line_of_pos src (tpos t)) /\
  nth_error (lines src) (line_of_pos src (tpos t)) = Some text /\
  col = Z.of_nat (col_of_pos src (tpos t)) /\
  (0 <= col <= Z.of_nat (length text))%Z.
Proof. exact ast_token_rendered_exact_proof. Qed.
Print Assumptions ast_token_rendered_exact.

Example error_pos_in_src_ex :      (* "expected )" in the middle of line 3 of 4 *)
  let src := bs "BEGIN {" ++ [10%N] ++ bs "# " ++ [226%N; 130%N; 172%N; 10%N] ++ bs "  x = (1 + 2 ; y = 3" ++ [10%N] ++ bs "}" in
  parse_program src = PErr 27 /\ get_line_col src 27 = (bs "  x = (1 + 2 ; y = 3", 3, 13%Z).
Proof. vm_compute. split; reflexivity. Qed.
