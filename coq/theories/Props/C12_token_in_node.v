(* Props/C12_token_in_node.v -- property C12: the token an error is reported at lies inside
   the node it is reported for.  Statements only; proofs in Proofs/NodeSpan.v.

   FULL statement (not proved): for every node produced by the parser, Token() of the node
   lies inside the node's SOURCE span (first byte of its first token .. last byte of its last
   token, brackets and parentheses included).  The AST keeps no bracket tokens, so the model
   cannot even name that span; what is proved is the version over the tokens the AST keeps
   (the "hull"): every interval [lo,hi) that contains all tokens stored in a node or below it
   contains the node's reported token, and that token satisfies tok_in_src (parse_spans), so
   pos_exact renders it exactly.  Missing for the full statement: a parser that records spans. *)
From Coq Require Import List Arith Lia.
From JQ Require Import Base.Bytes Syntax.Token Syntax.Lexer Syntax.Ast Syntax.Parser Spec.TokSpans
  Proofs.NodeSpan Proofs.ParseSpan.
Import ListNotations.
Open Scope nat_scope.

Theorem token_in_node_partial : forall lo hi e,
  Forall_tokens_expr (in_span lo hi) e -> in_span lo hi (expr_token e).
Proof. exact token_in_hull_expr. Qed.
Print Assumptions token_in_node_partial.

Theorem stmt_token_in_node_partial : forall lo hi s t,
  Forall_tokens_stmt (in_span lo hi) s -> stmt_token s = Some t -> in_span lo hi t.
Proof. exact token_in_hull_stmt. Qed.
Print Assumptions stmt_token_in_node_partial.

(* for ANY property of tokens: what holds of every stored token holds of the reported one *)
Theorem token_among_stored : forall (Pt Pl : token -> Prop) e,
  expr_toks Pt Pl e -> Pt (expr_token e).
Proof. exact expr_token_among. Qed.
Print Assumptions token_among_stored.

(* together with parse_spans: the reported token of every parsed expression is in the text *)
Theorem parsed_token_in_src : forall src e p,
  parse_expression_src src = POk e p -> tok_in_src src (expr_token e).
Proof.
  intros src e p H. apply (expr_token_among (tok_in_src src) any_tok).
  exact (parse_spans_expr_proof src e p H).
Qed.
Print Assumptions parsed_token_in_src.

(* non-vacuity: `x.y + (c * d)[1]`: every stored token lies in [0,16) and none in a smaller
   interval on the left; the node is reported at `x` (offset 0, length 1); the right operand
   `(c * d)[1]` is reported at `c` (offset 7), inside [7,15) *)
Example token_in_node_ex :
  exists e p, parse_expression_src (bs "x.y + (c * d)[1]") = POk e p /\
    Forall_tokens_expr (in_span 0 16) e /\
    expr_token e = mkTok TIdent 0 1 /\
    match e with
    | EBin _ r _ => Forall_tokens_expr (in_span 7 15) r /\ tpos (expr_token r) = 7
    | _ => False
    end.
Proof.
  eexists. eexists. split; [vm_compute; reflexivity|].
  split; [|split; [reflexivity|]]; vm_compute; repeat split; repeat constructor.
Qed.
