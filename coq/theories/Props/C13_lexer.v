(* C13 -- layout: the lexer-level facts behind "white space between tokens, comments
   before a line end and the choice of quote character do not matter; numbers never
   absorb an adjacent operator; keywords are recognised only as whole words".
   Spec: Spec/PrecGrammar.v (stoken, spell, wf_tok).  Proofs: Proofs/SyntaxLex.v. *)
From JQ Require Import Base.Bytes Syntax.Token Syntax.Lexer Gen.Generated.
From JQ Require Import Syntax.Ast Syntax.Parser Spec.PrecGrammar Proofs.SyntaxLex Proofs.Syntax.
Open Scope nat_scope.

(* ---- numbers: digits followed by '-', '+' or '.x' (x not a digit) give the number
   token of exactly the digit run; the operator is left for the next token *)
Theorem number_never_absorbs : forall d1 c r pos st,
  d1 <> [] -> forallb latin1_is_digit d1 = true ->
  (c = 45%N \/ c = 43%N \/ (c = 46%N /\ stops_at latin1_is_digit r = true)) ->
  lex_next (mkLexer (d1 ++ c :: r) pos st) =
  LexTok (mkTok TNum pos (length d1)) (mkLexer (c :: r) (pos + length d1) pos).
Proof. exact SyntaxLex.number_never_absorbs. Qed.
Print Assumptions number_never_absorbs.

Example number_never_absorbs_ex :
  lex_next (new_lexer (bs "12-3")) = LexTok (mkTok TNum 0 2) (mkLexer (bs "-3") 2 0) /\
  lex_next (new_lexer (bs "12.x")) = LexTok (mkTok TNum 0 2) (mkLexer (bs ".x") 2 0) /\
  fst (lex_all (bs "1-2")) = [mkTok TNum 0 1; mkTok TMinus 1 0; mkTok TNum 2 1; mkTok TEOF 3 0].
Proof. vm_compute. repeat split. Qed.

(* general form: a digit run not followed by a digit nor by '.'+digit *)
Theorem number_never_absorbs_int : forall d1 r pos st,
  d1 <> [] -> forallb latin1_is_digit d1 = true ->
  stops_at latin1_is_digit r = true -> no_frac r = true ->
  lex_next (mkLexer (d1 ++ r) pos st) =
  LexTok (mkTok TNum pos (length d1)) (mkLexer r (pos + length d1) pos).
Proof. exact SyntaxLex.number_never_absorbs_int. Qed.
Print Assumptions number_never_absorbs_int.

Example number_never_absorbs_int_ex :
  stops_at latin1_is_digit (bs "*2") = true /\ no_frac (bs "*2") = true /\
  lex_next (new_lexer (bs "7*2")) = LexTok (mkTok TNum 0 1) (mkLexer (bs "*2") 1 0).
Proof. vm_compute. repeat split. Qed.

(* with a fraction: digits '.' digits, then anything that is not a digit (1.5.2 is 1.5 . 2) *)
Theorem number_never_absorbs_frac : forall d1 d2 r pos st,
  d1 <> [] -> forallb latin1_is_digit d1 = true ->
  d2 <> [] -> forallb latin1_is_digit d2 = true ->
  stops_at latin1_is_digit r = true ->
  lex_next (mkLexer (d1 ++ 46%N :: d2 ++ r) pos st) =
  LexTok (mkTok TNum pos (length d1 + 1 + length d2))
         (mkLexer r (pos + length d1 + 1 + length d2) pos).
Proof. exact SyntaxLex.number_never_absorbs_frac. Qed.
Print Assumptions number_never_absorbs_frac.

Example number_never_absorbs_frac_ex :
  lex_next (new_lexer (bs "1.5-2")) = LexTok (mkTok TNum 0 3) (mkLexer (bs "-2") 3 0) /\
  lex_next (new_lexer (bs "1.5.2")) = LexTok (mkTok TNum 0 3) (mkLexer (bs ".2") 3 0).
Proof. vm_compute. repeat split. Qed.

(* ---- keywords: a maximal identifier run is a keyword token iff the WHOLE run is in the
   generated keyword table; otherwise it is one identifier token covering the run *)
Theorem keyword_whole_word : forall c r tl pos st,
  is_ident_start c = true -> forallb ident_char r = true -> stops_at ident_char tl = true ->
  lex_next (mkLexer ((c :: r) ++ tl) pos st) =
  LexTok (match lookup_kw keyword_table (c :: r) with
          | Some tg => mkTok tg pos 0
          | None => mkTok TIdent pos (length (c :: r))
          end)
         (mkLexer tl (pos + length (c :: r)) pos).
Proof. exact SyntaxLex.keyword_whole_word. Qed.
Print Assumptions keyword_whole_word.

Theorem keyword_lookup_iff : forall w tg,
  lookup_kw keyword_table w = Some tg <-> In (w, tg) keyword_table.
Proof. exact SyntaxLex.keyword_lookup_iff. Qed.
Print Assumptions keyword_lookup_iff.

Example keyword_whole_word_ex :
  lex_next (new_lexer (bs "if(")) = LexTok (mkTok TIf 0 0) (mkLexer (bs "(") 2 0) /\
  lex_next (new_lexer (bs "iffy(")) = LexTok (mkTok TIdent 0 4) (mkLexer (bs "(") 4 0) /\
  lex_next (new_lexer (bs "print1 ")) = LexTok (mkTok TIdent 0 6) (mkLexer (bs " ") 6 0) /\
  lookup_kw keyword_table (bs "in") = Some TIn /\ lookup_kw keyword_table (bs "int") = None.
Proof. vm_compute. repeat split. Qed.

(* ---- quotes: 's' and "s" are the same token (same tag, position, length, same lexer after) *)
Theorem quotes_interchangeable : forall s tl pos st,
  forallb (fun c => negb (N.eqb c 34 || N.eqb c 39)) s = true ->
  lex_next (mkLexer (39%N :: s ++ 39%N :: tl) pos st) =
  lex_next (mkLexer (34%N :: s ++ 34%N :: tl) pos st).
Proof. exact SyntaxLex.quotes_interchangeable. Qed.
Print Assumptions quotes_interchangeable.

Theorem lex_next_string : forall q s tl pos st,
  (q = 34%N \/ q = 39%N) -> forallb (fun c => negb (N.eqb c q)) s = true ->
  lex_next (mkLexer (q :: s ++ q :: tl) pos st) =
  LexTok (mkTok TStr (S pos) (length s)) (mkLexer tl (S pos + length s + 1) (S pos)).
Proof. exact SyntaxLex.lex_next_string. Qed.
Print Assumptions lex_next_string.

Example quotes_interchangeable_ex :
  lex_next (new_lexer (bs "'a b'+1")) = LexTok (mkTok TStr 1 3) (mkLexer (bs "+1") 5 1) /\
  lex_next (new_lexer (34%N :: bs "a b" ++ 34%N :: bs "+1")) = LexTok (mkTok TStr 1 3) (mkLexer (bs "+1") 5 1).
Proof. vm_compute. repeat split. Qed.

(* ---- white space: spaces, tabs and CRs in front of any text that does not itself start
   with white space or '#' act exactly like starting the lexer that much later *)
Theorem lex_next_skip : forall ws s pos st,
  forallb is_hws ws = true -> ws_stop s = true ->
  lex_next (mkLexer (ws ++ s) pos st) = lex_next (mkLexer s (pos + length ws) st).
Proof. exact SyntaxLex.lex_next_skip. Qed.
Print Assumptions lex_next_skip.

(* for a well-formed token: same tag, same length, same remaining text; position shifted *)
Theorem ws_insensitive : forall ws k tl pos st,
  forallb is_hws ws = true -> wf_tok k = true -> sep_ok tl = true ->
  exists t l1 l2,
    lex_next (mkLexer (spell k ++ tl) pos st) = LexTok t l1 /\
    lex_next (mkLexer (ws ++ spell k ++ tl) pos st) = LexTok (shift_tok (length ws) t) l2 /\
    ttag t = stag k /\ lrest l1 = tl /\ lrest l2 = tl /\ lpos l2 = lpos l1 + length ws.
Proof. exact SyntaxLex.ws_insensitive. Qed.
Print Assumptions ws_insensitive.

Example ws_insensitive_ex :
  let ws := [32%N; 9%N; 13%N] in
  forallb is_hws ws = true /\ wf_tok (KFix TPlusEqual) = true /\
  lex_next (new_lexer (bs "+= 1")) = LexTok (mkTok TPlusEqual 0 0) (mkLexer (bs " 1") 2 0) /\
  lex_next (new_lexer (ws ++ bs "+= 1")) = LexTok (mkTok TPlusEqual 3 0) (mkLexer (bs " 1") 5 3).
Proof. vm_compute. repeat split. Qed.

(* a '#' comment (with white space before it) in front of a line end is skipped: the
   next token is the line end itself *)
Theorem lex_next_comment : forall ws cmt s pos st,
  forallb is_hws ws = true -> forallb (fun c => negb (N.eqb c 10)) cmt = true ->
  lex_next (mkLexer (ws ++ 35%N :: cmt ++ 10%N :: s) pos st) =
  lex_next (mkLexer (10%N :: s) (pos + length ws + 1 + length cmt) st).
Proof. exact SyntaxLex.lex_next_comment. Qed.
Print Assumptions lex_next_comment.

Example lex_next_comment_ex :
  lex_next (new_lexer (bs " # x+1" ++ 10%N :: bs "y")) =
  LexTok (mkTok TNewline 6 0) (mkLexer (bs "y") 7 6).
Proof. vm_compute. reflexivity. Qed.

(* ---- a whole token list under ANY horizontal layout (gaps of spaces / tabs / CRs, each
   gap non-empty except possibly the first, arbitrary trailing space) lexes to exactly
   those tokens: same tags, same texts, then EOF, no error *)
Theorem lex_render_layout : forall items trail,
  gaps_ok true items = true -> forallb is_hws trail = true ->
  exists toks eof,
    lex_all (lay items trail) = (toks ++ [eof], None) /\ ttag eof = TEOF /\
    Forall2 (tok_matches (lay items trail)) toks (map snd items).
Proof. exact SyntaxLex.lex_render_layout. Qed.
Print Assumptions lex_render_layout.

Example lex_render_layout_ex :
  let items := [([], KIdent (bs "x")); ([32%N], KFix TMinus); ([9%N; 32%N], KFix TMinus);
                ([32%N], KNum (bs "1.5")); ([13%N], KFix TIs); ([32%N], KStr (bs "a#b"))] in
  gaps_ok true items = true /\
  map ttag (fst (lex_all (lay items [32%N]))) = [TIdent; TMinus; TMinus; TNum; TIs; TStr; TEOF] /\
  snd (lex_all (lay items [32%N])) = None.
Proof. vm_compute. repeat split. Qed.

(* ---- and at the level of the parser: re-laying out the tokens of an expression with any
   horizontal white space gives the same (position-free) tree as the one-space layout *)
Theorem expr_layout_insensitive : forall force e items trail, wf_sexpr e = true ->
  map snd items = print force 1 e -> gaps_ok true items = true -> forallb is_hws trail = true ->
  exists e1 st1 e2 st2,
    parse_expression_src (lay items trail) = POk e1 st1 /\
    parse_expression_src (text_of (print force 1 e)) = POk e2 st2 /\
    strip (lay items trail) e1 = strip (text_of (print force 1 e)) e2.
Proof. exact Syntax.expr_layout_insensitive. Qed.
Print Assumptions expr_layout_insensitive.

Example expr_layout_insensitive_ex :
  let e := SAssign (SIdent (bs "a")) (SBin TPlus (SIdent (bs "b")) (SStr (bs "x y"))) in
  let items := [([32%N], KIdent (bs "a")); ([9%N], KFix TEqual); ([32%N], KIdent (bs "b"));
                ([13%N; 32%N], KFix TPlus); ([32%N], KStr (bs "x y"))] in
  wf_sexpr e = true /\ map snd items = render e /\ gaps_ok true items = true /\
  match parse_expression_src (lay items []), parse_expression_src (text_of (render e)) with
  | POk e1 _, POk e2 _ => strip (lay items []) e1 = strip (text_of (render e)) e2 /\
                          strip (lay items []) e1 = Some e
  | _, _ => False
  end.
Proof. vm_compute. repeat split. Qed.

(* ---- and with line ends and '#' comments in the gaps (a comment runs to a line end; the
   expression parser skips line ends): any such layout of an expression's tokens gives the
   same position-free tree *)
Theorem expr_gaps_insensitive : forall force e items trail, wf_sexpr e = true ->
  map snd items = print force 1 e -> Gaps true items -> is_gap trail ->
  exists e1 st1 e2 st2,
    parse_expression_src (lay items trail) = POk e1 st1 /\
    parse_expression_src (text_of (print force 1 e)) = POk e2 st2 /\
    strip (lay items trail) e1 = strip (text_of (print force 1 e)) e2.
Proof. exact Syntax.expr_gaps_insensitive. Qed.
Print Assumptions expr_gaps_insensitive.

Definition ex_gap_items : list (bytes * stoken) :=
  [([], KNum (bs "8"));
   ([32%N] ++ 35%N :: bs " eight" ++ 10%N :: [32%N; 32%N], KFix TMinus);
   ([] ++ 10%N :: [], KNum (bs "3"));
   ([32%N], KFix TMinus);
   ([9%N], KNum (bs "2"))].
Definition ex_gap_e : sexpr :=
  SBin TMinus (SBin TMinus (SNum (bs "8")) (SNum (bs "3"))) (SNum (bs "2")).

Example expr_gaps_insensitive_ex :
  wf_sexpr ex_gap_e = true /\ map snd ex_gap_items = render ex_gap_e /\
  Gaps true ex_gap_items /\ is_gap ([32%N] ++ 10%N :: []) /\
  match parse_expression_src (lay ex_gap_items ([32%N] ++ 10%N :: [])) with
  | POk e1 _ => strip (lay ex_gap_items ([32%N] ++ 10%N :: [])) e1 = Some ex_gap_e
  | _ => False
  end.
Proof.
  split; [reflexivity|]. split; [reflexivity|]. split; [|split].
  - unfold ex_gap_items. cbn [Gaps].
    repeat split; try reflexivity; try (left; reflexivity); try (right; discriminate).
    + apply gap_ws; reflexivity.
    + apply gap_cmt; [reflexivity|reflexivity|apply gap_ws; reflexivity].
    + apply gap_nl; [reflexivity|apply gap_ws; reflexivity].
    + apply gap_ws; reflexivity.
    + apply gap_ws; reflexivity.
  - apply gap_nl; [reflexivity|apply gap_ws; reflexivity].
  - vm_compute. reflexivity.
Qed.
