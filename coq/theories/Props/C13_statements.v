(* C13 -- layout at statement / program level.

   "Spaces, tabs and carriage returns may be inserted between any two tokens, a # comment
   before any line end, and a newline (alone or after a comment) between any two tokens except
   directly after print or return, after a comma of a print list (where a newline ends the
   statement) or before a ';' ... a newline that separates two statements may be replaced by
   ';' unless the first ends in '}'" -- without changing a program's behaviour.

   Spec: Spec/StmtGrammar.v (position-free programs [sstmt] / [srule], [strip_prog]),
         Spec/StmtLayout.v ([PrP c q ts]: the token list [ts] under the concrete layout [c]
         -- every gap an [is_gap]: spaces, tabs, CRs, line ends, comments -- is a writing of
         the program [q] that the property permits; [layout_of c ts]).
   Proofs: Proofs/SyntaxStmt.v (parser), Proofs/SyntaxStmtEquiv.v (bridge to Spec/AstEquiv.v
         and Proofs/PosIndep.v).

   PARTIAL (hence the names): covered are
     expression statements, print (with and without arguments, with its own ';'), blocks,
     if / if-else, while, for ( ; ; ), for ( id [, ix] in e ), return [e] [;], break, continue,
     next, exit; rules BEGIN / END / BEGINFILE / ENDFILE / pattern-less / with a pattern, each
     with a block; function declarations; rules and functions in any order.
   Missing: pattern rules without a block (their body is the implicit print), and inside
   expressions array / object literals, match, regex literals.  The permitted layouts are
   slightly more restrictive than the property in one place: no ';' is written between the
   then-branch and `else`. *)
From Coq Require Import List ZArith.
From JQ Require Import Base.Bytes Num.F64 Syntax.Token Syntax.Lexer Syntax.Ast Syntax.Parser.
From JQ Require Import Json.JValue.
From JQ Require Import Gen.Generated Sem.Value Sem.Ops Sem.Natives Sem.Eval Sem.Driver.
From JQ Require Import Spec.AstEquiv Proofs.PosIndep.
From JQ Require Import Spec.PrecGrammar Spec.StmtGrammar Proofs.SyntaxLex Proofs.Syntax Spec.StmtLayout.
From JQ Require Import Proofs.SyntaxStmt Proofs.SyntaxStmtEquiv.
Import ListNotations.
Open Scope nat_scope.

(* ---- 1. every permitted writing parses (parse_program, the model's own fuel) to an AST
   whose position-free form is the program (compound assignments rewritten, as the parser does) *)
Theorem program_parses_partial : forall (c : pctx) q ts,
  layout_of c ts -> PrP c q ts -> q <> [] ->
  exists prog st', parse_program c = POk prog st' /\
    strip_prog c prog = Some (map drule (decl_rules q), map dfunc (decl_funcs q)).
Proof. exact SyntaxStmt.program_parses. Qed.
Print Assumptions program_parses_partial.

(* ---- 2. two permitted writings of the same program -- other gaps, other choices between ';'
   and a line end -- parse to ASTs that are equivalent programs *)
Theorem program_layout_insensitive_partial : forall (c1 c2 : pctx) q ts1 ts2,
  layout_of c1 ts1 -> PrP c1 q ts1 -> layout_of c2 ts2 -> PrP c2 q ts2 -> q <> [] ->
  exists p1 st1 p2 st2,
    parse_program c1 = POk p1 st1 /\ parse_program c2 = POk p2 st2 /\
    program_equiv c1 c2 p1 p2.
Proof. exact SyntaxStmtEquiv.program_layout_insensitive. Qed.
Print Assumptions program_layout_insensitive_partial.

(* ---- 3. ... and run alike: from equivalent evaluator states, [res_equiv] outcomes (equal,
   errors up to their location) and [state_equiv] final states *)
Theorem program_layouts_run_alike_partial : forall (c1 c2 : pctx) q ts1 ts2 fz sels n files,
  layout_of c1 ts1 -> PrP c1 q ts1 -> layout_of c2 ts2 -> PrP c2 q ts2 -> q <> [] ->
  exists p1 st1 p2 st2,
    parse_program c1 = POk p1 st1 /\ parse_program c2 = POk p2 st2 /\
    M_equiv (run_body c1 p1 fz sels n files) (run_body c2 p2 fz sels n files).
Proof. exact SyntaxStmtEquiv.program_layouts_run_alike. Qed.
Print Assumptions program_layouts_run_alike_partial.

(* the observable part: same outcome class, same output bytes, same final document, same heap *)
Theorem program_layouts_same_output_partial : forall (c1 c2 : pctx) q ts1 ts2 fz sels n files s,
  layout_of c1 ts1 -> PrP c1 q ts1 -> layout_of c2 ts2 -> PrP c2 q ts2 -> q <> [] ->
  exists p1 st1 p2 st2,
    parse_program c1 = POk p1 st1 /\ parse_program c2 = POk p2 st2 /\
    let '(r1, s1) := run_body c1 p1 fz sels n files s in
    let '(r2, s2) := run_body c2 p2 fz sels n files s in
    outcome_equiv (classify r1) (classify r2) /\
    output_of (io s1) = output_of (io s2) /\ get_root_json s1 = get_root_json s2 /\ hp s1 = hp s2.
Proof. exact SyntaxStmtEquiv.program_layouts_same_output. Qed.
Print Assumptions program_layouts_same_output_partial.

(* ---- the bridge by itself: same position-free program => equivalent programs *)
Theorem strip_prog_equiv : forall src1 src2 p1 p2 x,
  strip_prog src1 p1 = Some x -> strip_prog src2 p2 = Some x -> program_equiv src1 src2 p1 p2.
Proof. exact SyntaxStmtEquiv.strip_prog_equiv. Qed.
Print Assumptions strip_prog_equiv.

(* ================================================================= a worked instance *)

(*  function f ( a ) { return a } BEGIN { x = 1 ; print x , 2 }     one space everywhere, ';'
    function f ( a ) {                                               line ends, a comment, no ';'
     return a
    } BEGIN {
     x = 1 # set
     print x , 2
    }                                                                                   *)
Definition ex_asg : sexpr := SAssign (SIdent (bs "x")) (SNum (bs "1")).
Definition ex_x : sexpr := SIdent (bs "x").
Definition ex_a : sexpr := SIdent (bs "a").
Definition ex_two : sexpr := SNum (bs "2").
Definition ex_body : sitems := ZCons (ZExpr ex_asg) (ZCons (ZPrint [ex_x; ex_two]) ZNil).
Definition ex_fbody : sitems := ZCons (ZReturn (Some ex_a)) ZNil.
Definition ex_prog : sprog :=
  [ZFunc (mkSFunc (bs "f") [bs "a"] ex_fbody); ZRule (mkSRule BeginRule None ex_body)].

Definition t_asg : list stoken := [KIdent (bs "x"); KFix TEqual; KNum (bs "1")].
Definition t_args : list stoken := [KIdent (bs "x"); KFix TComma; KNum (bs "2")].
Definition t_print : list stoken := KFix TPrint :: t_args.
Definition t_ret : list stoken := [KFix TReturn; KIdent (bs "a")].
Definition t_fun : list stoken :=
  KFix TFunction :: KIdent (bs "f") :: KFix TLParen :: params_toks [bs "a"] ++
  KFix TRParen :: KFix TLCurly :: t_ret ++ [KFix TRCurly].
Definition t_rule1 : list stoken :=
  [KFix TBegin] ++ KFix TLCurly :: (t_asg ++ KFix TSemiColon :: t_print) ++ [KFix TRCurly].
Definition t_rule2 : list stoken :=
  [KFix TBegin] ++ KFix TLCurly :: (t_asg ++ t_print) ++ [KFix TRCurly].

Definition ex_ts1 : list stoken := t_fun ++ t_rule1 ++ [].
Definition ex_ts2 : list stoken := t_fun ++ t_rule2 ++ [].

Definition ex_c1 : pctx := mkCtx (space_items ex_ts1) [] false false.
Definition g_nl : bytes := [] ++ 10%N :: [32%N].
Definition g_cmt : bytes := [32%N] ++ 35%N :: bs " set" ++ 10%N :: [32%N].
Definition ex_c2 : pctx :=
  mkCtx [([], KFix TFunction); ([32%N], KIdent (bs "f")); ([32%N], KFix TLParen); ([32%N], KIdent (bs "a"));
         ([32%N], KFix TRParen); ([32%N], KFix TLCurly);
         (g_nl, KFix TReturn); ([32%N], KIdent (bs "a")); ([] ++ 10%N :: [], KFix TRCurly);
         ([32%N], KFix TBegin); ([32%N], KFix TLCurly);
         (g_nl, KIdent (bs "x")); ([32%N], KFix TEqual); ([32%N], KNum (bs "1"));
         (g_cmt, KFix TPrint); ([32%N], KIdent (bs "x")); ([32%N], KFix TComma); ([32%N], KNum (bs "2"));
         ([] ++ 10%N :: [], KFix TRCurly)]
        ([] ++ 10%N :: []) false false.

Lemma ex_PrE : forall e ts, wf_sexpr e = true -> ts = print (fun _ => false) 1 e -> PrE e ts.
Proof. intros e ts H E. split; [exact H|]. exists (fun _ => false). exact E. Qed.

Lemma ex_args : forall c rest, nlb c ([KNum (bs "2")] ++ rest) = false ->
  stops rest -> hd_tag rest <> TComma -> PrArgs c [ex_x; ex_two] t_args rest.
Proof.
  intros c rest Hn Hs Hc.
  apply (PrArgs_cons c ex_x ex_two [] [KIdent (bs "x")] [KNum (bs "2")] rest).
  - apply ex_PrE; reflexivity.
  - exact Hn.
  - apply PrArgs_one; [apply ex_PrE; reflexivity|exact Hs|exact Hc].
Qed.

Lemma ex_fun : forall c rest,
  nlb c ([KIdent (bs "a")] ++ KFix TRCurly :: rest) = false ->
  PrF c (mkSFunc (bs "f") [bs "a"] ex_fbody) t_fun rest.
Proof.
  intros c rest Hn. apply (PrF_intro c (bs "f") [bs "a"] ex_fbody t_ret rest); [reflexivity|reflexivity|].
  change t_ret with (t_ret ++ []).
  apply (PrI_gap (set_fn c true) (ZReturn (Some ex_a)) ZNil t_ret [] (KFix TRCurly :: rest) false).
  - apply Pr_return; [reflexivity|apply ex_PrE; reflexivity|reflexivity|exact Hn].
  - right; right; reflexivity.
  - apply PrI_nil.
Qed.

Lemma ex_writing1 : layout_of ex_c1 ex_ts1 /\ PrP ex_c1 ex_prog ex_ts1.
Proof.
  split.
  - split; [reflexivity|]. split; [apply gaps_ok_Gaps; reflexivity|]. split; [apply gap_ws; reflexivity|].
    split; reflexivity.
  - unfold ex_ts1, ex_prog. apply PrP_func; [apply ex_fun; reflexivity|].
    apply PrP_rule; [|apply PrP_nil].
    apply (PrR_kind ex_c1 BeginRule ex_body (t_asg ++ KFix TSemiColon :: t_print) []).
    apply (PrI_semi ex_c1 (ZExpr ex_asg) _ t_asg t_print [KFix TRCurly]).
    + apply Pr_expr; [apply ex_PrE; reflexivity|reflexivity].
    + reflexivity.
    + change t_print with (t_print ++ []).
      apply (PrI_gap ex_c1 (ZPrint [ex_x; ex_two]) ZNil t_print [] [KFix TRCurly] false).
      * apply Pr_print; [apply ex_args; [reflexivity|reflexivity|discriminate]|reflexivity|discriminate].
      * right; right; reflexivity.
      * apply PrI_nil.
Qed.

Lemma ex_writing2 : layout_of ex_c2 ex_ts2 /\ PrP ex_c2 ex_prog ex_ts2.
Proof.
  split.
  - split; [reflexivity|]. split.
    { cbn [Gaps c_items ex_c2].
      repeat split; try reflexivity; try (left; reflexivity); try (right; discriminate);
        try (apply gap_ws; reflexivity);
        try (apply gap_nl; [reflexivity|apply gap_ws; reflexivity]).
      apply gap_cmt; [reflexivity|reflexivity|apply gap_ws; reflexivity]. }
    split; [apply gap_nl; [reflexivity|apply gap_ws; reflexivity]|]. split; reflexivity.
  - unfold ex_ts2, ex_prog. apply PrP_func; [apply ex_fun; reflexivity|].
    apply PrP_rule; [|apply PrP_nil].
    apply (PrR_kind ex_c2 BeginRule ex_body (t_asg ++ t_print) []).
    apply (PrI_gap ex_c2 (ZExpr ex_asg) _ t_asg t_print [KFix TRCurly] false).
    + apply Pr_expr; [apply ex_PrE; reflexivity|reflexivity].
    + right; left; reflexivity.
    + change t_print with (t_print ++ []).
      apply (PrI_gap ex_c2 (ZPrint [ex_x; ex_two]) ZNil t_print [] [KFix TRCurly] false).
      * apply Pr_print; [apply ex_args; [reflexivity|reflexivity|discriminate]|reflexivity|discriminate].
      * right; left; reflexivity.
      * apply PrI_nil.
Qed.

(* the hypotheses of the theorems are satisfiable, the two texts are what they should be, and
   (computed) both parse to programs with the expected position-free form *)
Example program_layout_insensitive_ex :
  (layout_of ex_c1 ex_ts1 /\ PrP ex_c1 ex_prog ex_ts1) /\
  (layout_of ex_c2 ex_ts2 /\ PrP ex_c2 ex_prog ex_ts2) /\ ex_prog <> [] /\
  csrc ex_c1 = bs "function f ( a ) { return a } BEGIN { x = 1 ; print x , 2 }" /\
  csrc ex_c2 = bs "function f ( a ) {" ++ 10%N :: bs " return a" ++ 10%N :: bs "} BEGIN {" ++ 10%N ::
               bs " x = 1 # set" ++ 10%N :: bs " print x , 2" ++ 10%N :: bs "}" ++ [10%N] /\
  match parse_program ex_c1, parse_program ex_c2 with
  | POk p1 _, POk p2 _ =>
    strip_prog ex_c1 p1 = Some (map drule (decl_rules ex_prog), map dfunc (decl_funcs ex_prog)) /\
    strip_prog ex_c2 p2 = Some (map drule (decl_rules ex_prog), map dfunc (decl_funcs ex_prog))
  | _, _ => False
  end.
Proof.
  split; [exact ex_writing1|]. split; [exact ex_writing2|]. split; [discriminate|].
  vm_compute. repeat split.
Qed.
