(* C14: the command line.  Final statements only; proofs in Proofs/CliProofs.v.
   [cli_run] is cut into three stages there (checked against the model by [cli_run_stages]):
     parse_flags  ->  prog_and_paths / inputs_of (open the program and the inputs)
                  ->  eval_program  ->  finish (error report or -o handling).
   Vocabulary: [fspec]/[render] = flags written  -f V / -r V / -o V ; [stops_flags a] = Go's
   flag package stops at argument a (it is not of the form -x...); [o_problem] = -o cannot
   be honoured; [cli_view] = what the CLI looks at in a run result. *)
From JQ Require Import Base.Bytes Syntax.Token Syntax.Lexer.
From JQ Require Import Json.JValue Json.Decode.
From JQ Require Import Sem.Value Sem.Driver Cli.Cli.
From JQ Require Import Proofs.CliProofs.
Open Scope nat_scope.

(* ---- a world for the examples ---- *)
Definition W : world :=
  mkWorld [(bs "prog.jq", bs "{ print $.a }");
           (bs "a.json", bs "{""a"":1}");
           (bs "b.json", bs "{""a"":2}");
           (bs "name.jq", bs "{ print $file }")]
          (bs "{""a"":1}") false
          (fun p => bytes_eqb p (bs "out.json")).
Definition done (e : nat) (out : string) (d : bool) (wr : option (string * string)) : cli_out :=
  CliDone (mkCli e (bs out) d (match wr with Some (p, c) => Some (bs p, bs c) | None => None end)).
Ltac conjs := repeat match goal with |- _ /\ _ => split end.

(* the three stages are the model's cli_run *)
Theorem cli_run_stages : forall n argv w,
  cli_run n argv w
  = match parse_flags (S (length argv)) argv flags0 with
    | FlagsUnsupported => CliUnsupported
    | FlagsBad => CliDone (mkCli 2 [] true None)
    | FlagsOk fl args => cli_after n fl args w
    end.
Proof. exact CliProofs.cli_run_stages. Qed.
Print Assumptions cli_run_stages.

(* a program given with -f behaves as the same text given inline *)
Theorem f_equals_inline :
  (forall n w rs o args P text,
      P <> [] -> read_file w P = Some text ->
      cli_after n (mkFlags (Some P) rs o) args w
      = cli_after n (mkFlags None rs o) (text :: args) w) /\
  (forall n w specs rest P text,
      match rest with [] => True | a :: _ => stops_flags a = true end ->
      no_ff specs = true -> P <> [] -> read_file w P = Some text -> stops_flags text = true ->
      cli_run n (flat_map render (specs ++ [FF P]) ++ rest) w
      = cli_run n (flat_map render specs ++ text :: rest) w) /\
  (forall n w rs o args P,
      P <> [] -> read_file w P = None ->
      cli_after n (mkFlags (Some P) rs o) args w = CliDone (mkCli 1 [] true None)).
Proof.
  exact (conj f_equals_inline_after (conj f_equals_inline_l unreadable_program_fails)).
Qed.
Print Assumptions f_equals_inline.

Example f_equals_inline_ex :
  cli_run 3000 [bs "-f"; bs "prog.jq"; bs "a.json"; bs "b.json"] W = done 0 "1
2
" false None /\
  cli_run 3000 [bs "{ print $.a }"; bs "a.json"; bs "b.json"] W = done 0 "1
2
" false None /\
  cli_run 3000 [bs "-f"; bs "missing.jq"; bs "a.json"] W = done 1 "" true None.
Proof. conjs; vm_compute; reflexivity. Qed.

(* -o FILE writes exactly the bytes that -o - prints after the program's own output *)
Theorem o_file_equals_o_dash : forall w target names res,
  target <> [] -> bytes_eqb target (bs "-") = false -> w_writable w target = true ->
  match finish w (Some target) names res, finish w (Some (bs "-")) names res with
  | CliDone a, CliDone b =>
    c_exit a = c_exit b /\ c_diag a = c_diag b /\ c_written b = None /\
    (c_exit a = 0 ->
       exists j, c_written a = Some (target, j) /\ c_stdout b = c_stdout a ++ j /\
                 c_stdout a = output_of (io (r_state res)) /\
                 get_root_json (r_state res) = JsonText j) /\
    (c_exit a <> 0 -> c_stdout a = c_stdout b /\ c_written a = None)
  | CliUnsupported, CliUnsupported | CliFuel, CliFuel | CliPanic, CliPanic => True
  | _, _ => False
  end.
Proof. exact o_file_equals_o_dash_l. Qed.
Print Assumptions o_file_equals_o_dash.

Example o_file_equals_o_dash_ex :
  cli_run 3000 [bs "-o"; bs "out.json"; bs "{ print $.a; $.a = 5 }"; bs "a.json"] W
  = done 0 "1
" false (Some ("out.json"%string, "{
  ""a"": 5
}"%string)) /\
  cli_run 3000 [bs "-o"; bs "-"; bs "{ print $.a; $.a = 5 }"; bs "a.json"] W
  = done 0 "1
{
  ""a"": 5
}" false None /\
  (* a target that cannot be created: exit 1, the program's output is kept *)
  cli_run 3000 [bs "-o"; bs "/nope/x"; bs "{ print $.a }"; bs "a.json"] W = done 1 "1
" true None.
Proof. conjs; vm_compute; reflexivity. Qed.

(* exit status: 0 iff flags, program and inputs are fine, the run succeeds and -o can be
   honoured; every failure writes a diagnostic and exits 1; bad flags exit 2 *)
Theorem exit_status_iff : forall n argv w r,
  cli_run n argv w = CliDone r ->
  (c_exit r = 0 \/ c_exit r = 1 \/ c_exit r = 2) /\
  (c_exit r = 0 <-> c_diag r = false) /\
  (c_exit r = 2 <-> parse_flags (S (length argv)) argv flags0 = FlagsBad) /\
  (c_exit r = 0 <->
   exists fl args prog paths files,
     parse_flags (S (length argv)) argv flags0 = FlagsOk fl args /\
     prog_and_paths fl args w = Some (prog, paths) /\ inputs_of w paths = Some files /\
     let res := eval_program n prog files (fl_r fl) false in
     r_outcome res = OOk /\ o_problem w (fl_o fl) (input_names w paths) (r_state res) = false).
Proof. exact exit_status_iff_l. Qed.
Print Assumptions exit_status_iff.

Example exit_status_iff_ex :
  cli_run 3000 [bs "{ print $.a }"; bs "a.json"] W = done 0 "1
" false None /\
  cli_run 3000 [bs "{ print 1 + }"; bs "a.json"] W = done 1 "" true None /\     (* syntax error *)
  cli_run 3000 [bs "{ print 1; x = [] < 1 }"; bs "a.json"] W = done 1 "1
" true None /\                                                                   (* runtime error *)
  cli_run 3000 [bs "{ print }"; bs "prog.jq"] W = done 1 "" true None /\         (* not JSON *)
  cli_run 3000 [bs "-x"; bs "{ print }"] W = done 2 "" true None /\              (* unknown flag *)
  cli_run 3000 [bs "-r"] W = done 2 "" true None.                                (* missing value *)
Proof. conjs; vm_compute; reflexivity. Qed.

(* -o with several input files is an error (after the run; its output stays) *)
Theorem o_needs_single_input : forall w target n1 n2 names res,
  target <> [] -> r_outcome res = OOk ->
  finish w (Some target) (n1 :: n2 :: names) res
  = CliDone (mkCli 1 (output_of (io (r_state res))) true None).
Proof. exact o_needs_single_input_l. Qed.
Print Assumptions o_needs_single_input.

Example o_needs_single_input_ex :
  cli_run 3000 [bs "-o"; bs "-"; bs "{ print $.a }"; bs "a.json"; bs "b.json"] W = done 1 "1
2
" true None.
Proof. vm_compute. reflexivity. Qed.

(* an unreadable input file fails before anything is run or printed *)
Theorem unreadable_input_no_run : forall n fl args w prog paths p,
  prog_and_paths fl args w = Some (prog, paths) ->
  In p paths -> read_file w p = None ->
  cli_after n fl args w = CliDone (mkCli 1 [] true None).
Proof. exact unreadable_input_no_run_l. Qed.
Print Assumptions unreadable_input_no_run.

Example unreadable_input_no_run_ex :
  cli_run 3000 [bs "BEGIN { print 0 } { print $.a }"; bs "a.json"; bs "missing.json"] W = done 1 "" true None.
Proof. vm_compute. reflexivity. Qed.

(* input on stdin = the same bytes in a named file: the run gets the same reader, under the
   names "<stdin>" and p; hence equal results whenever the program's result does not depend
   on the name of its input ($file, and the name in a JSON error, are the only ways it can) *)
Theorem stdin_equals_file : forall n fl prog w p b,
  fl_f fl = None -> w_stdin_tty w = false -> w_stdin w = b -> read_file w p = Some b ->
  (cli_after n fl [prog] w
   = finish w (fl_o fl) [bs "<stdin>"]
       (eval_program n prog [(bs "<stdin>", reader_of b)] (fl_r fl) false) /\
   cli_after n fl [prog; p] w
   = finish w (fl_o fl) [p] (eval_program n prog [(p, reader_of b)] (fl_r fl) false)) /\
  (name_irrelevant n prog (fl_r fl) (reader_of b) (bs "<stdin>") p ->
   cli_after n fl [prog] w = cli_after n fl [prog; p] w).
Proof.
  intros n fl prog w p b Hf Ht Hs Hr.
  exact (conj (stdin_same_reader n fl prog w p b Hf Ht Hs Hr)
              (stdin_equals_file_l n fl prog w p b Hf Ht Hs Hr)).
Qed.
Print Assumptions stdin_equals_file.

Example stdin_equals_file_ex :
  name_irrelevant 3000 (bs "{ print $.a }") [] (reader_of (bs "{""a"":1}")) (bs "<stdin>") (bs "a.json") /\
  cli_run 3000 [bs "{ print $.a }"] W = cli_run 3000 [bs "{ print $.a }"; bs "a.json"] W /\
  (* $file is the difference *)
  cli_run 3000 [bs "{ print $file }"] W = done 0 "<stdin>
" false None /\
  cli_run 3000 [bs "{ print $file }"; bs "a.json"] W = done 0 "a.json
" false None.
Proof. conjs; vm_compute; reflexivity. Qed.

(* -r selectors reach the run in command-line order (whatever -f / -o flags stand between
   them) *)
Theorem selectors_in_order : forall n specs rest w,
  match rest with [] => True | a :: _ => stops_flags a = true end ->
  cli_run n (flat_map render specs ++ rest) w
  = cli_after n (fold_left apply_spec specs flags0) rest w /\
  fl_r (fold_left apply_spec specs flags0) = r_values specs.
Proof. exact selectors_in_order_l. Qed.
Print Assumptions selectors_in_order.

Example selectors_in_order_ex :
  r_values [FR (bs "$.b"); FO (bs "-"); FR (bs "$.a")] = [bs "$.b"; bs "$.a"] /\
  cli_run 3000 [bs "-r"; bs "$.a"; bs "-r"; bs "$.a + 10"; bs "{ print }"; bs "a.json"] W = done 0 "1
11
" false None /\
  cli_run 3000 [bs "-r"; bs "$.a + 10"; bs "-r"; bs "$.a"; bs "{ print }"; bs "a.json"] W = done 0 "11
1
" false None.
Proof. conjs; vm_compute; reflexivity. Qed.

(* input files reach the run in command-line order, under their own names, each with the
   reader over its contents *)
Theorem inputs_in_order : forall n fl args w prog paths files,
  prog_and_paths fl args w = Some (prog, paths) ->
  reads_stdin w paths = false ->
  open_inputs w paths = Some files ->
  cli_after n fl args w
  = finish w (fl_o fl) paths (eval_program n prog files (fl_r fl) false) /\
  map fst files = paths /\
  Forall2 (fun p f => exists b, read_file w p = Some b /\ f = (p, reader_of b)) paths files.
Proof. exact inputs_in_order_l. Qed.
Print Assumptions inputs_in_order.

Example inputs_in_order_ex :
  cli_run 3000 [bs "{ print $file, $.a }"; bs "b.json"; bs "a.json"; bs "b.json"] W = done 0 "b.json 2
a.json 1
b.json 2
" false None.
Proof. vm_compute. reflexivity. Qed.
