(* Props/C15_arrays.v -- C15: an array used through the name that holds it behaves like an
   ideal list (Spec/IdealList.v).  Statements only; proofs in Proofs/Arrays.v.

   Vocabulary: [pa] is the cell that holds the slice header ("the name"), [abs h pa] the list
   of element values seen through it, [wf_holder h pa] its well-formedness (window inside the
   backing, cells allocated, distinct, not the holder itself).  All single-step theorems hold
   whatever else aliases the backing array: nothing is assumed about other holders. *)
From Coq Require Import List ZArith Bool Lia Permutation Sorted.
From JQ Require Import Base.Bytes Num.F64 Oracle.Sort Gen.Generated.
From JQ Require Import Sem.Value Sem.Natives Sem.Eval.
From JQ Require Import Spec.IdealList Proofs.Arrays.
Import ListNotations.
Open Scope nat_scope.

(* ---------------------------------------------------------------- example heap: a = [1, "x", null] *)
Definition st_of (h : heap) : st := mkSt h [] None None None [].
Definition ex_build : heap * addr :=
  let '(c1, h1) := alloc empty_heap (VNum f_one) in
  let '(c2, h2) := alloc h1 (VStr (bs "x")) in
  let '(c3, h3) := alloc h2 (VNil None) in
  let '(arr, h4) := new_array_of h3 [c1; c2; c3] in
  let '(pa, h5) := alloc h4 arr in (h5, pa).
Definition ex_h : heap := fst ex_build.
Definition ex_pa : addr := snd ex_build.
Definition ex_l : list value := [VNum f_one; VStr (bs "x"); VNil None].

Ltac solve_wf :=
  eexists _, _, _;
  split; [vm_compute; reflexivity|];
  split; [vm_compute; lia|];
  split; [vm_compute; reflexivity|];
  split; [vm_compute; reflexivity|];
  split; [vm_compute; repeat constructor|];
  split; [vm_compute; intuition discriminate|];
  vm_compute; repeat constructor; simpl; intuition discriminate.

Example ex_wf : wf_holder ex_h ex_pa /\ abs ex_h ex_pa = Some ex_l.
Proof. split; [solve_wf|vm_compute; reflexivity]. Qed.

(* ---------------------------------------------------------------- single steps *)

(* push appends one value and returns the array (the value now stored in the holder) *)
Theorem push_refines : forall s pa x l,
  wf_holder (hp s) pa -> abs (hp s) pa = Some l ->
  exists h', native_call NPush [x] (Some pa) s = (Ok (NVal (load h' pa)), set_hp s h') /\
             abs h' pa = Some (l ++ [x]) /\ wf_holder h' pa.
Proof. exact Arrays.push_refines. Qed.
Print Assumptions push_refines.
Example push_refines_ex :
  wf_holder (hp (st_of ex_h)) ex_pa /\ abs (hp (st_of ex_h)) ex_pa = Some ex_l /\
  abs (hp (snd (native_call NPush [VBool true] (Some ex_pa) (st_of ex_h)))) ex_pa
  = Some (ex_l ++ [VBool true]).
Proof. split; [apply ex_wf|]. split; [apply ex_wf|]. vm_compute. reflexivity. Qed.

(* pop removes and returns the last element; null (and no change) when empty *)
Theorem pop_refines : forall s pa l,
  wf_holder (hp s) pa -> abs (hp s) pa = Some l ->
  exists h', native_call NPop [] (Some pa) s = (Ok (NVal (last l nil_value)), set_hp s h') /\
             abs h' pa = Some (removelast l) /\ wf_holder h' pa.
Proof. exact Arrays.pop_refines. Qed.
Print Assumptions pop_refines.
Example pop_refines_ex :
  fst (native_call NPop [] (Some ex_pa) (st_of ex_h)) = Ok (NVal (VNil None)) /\
  abs (hp (snd (native_call NPop [] (Some ex_pa) (st_of ex_h)))) ex_pa = Some [VNum f_one; VStr (bs "x")].
Proof. vm_compute. split; reflexivity. Qed.

Theorem popfirst_refines : forall s pa l,
  wf_holder (hp s) pa -> abs (hp s) pa = Some l ->
  exists h', native_call NPopFirst [] (Some pa) s = (Ok (NVal (hd nil_value l)), set_hp s h') /\
             abs h' pa = Some (tl l) /\ wf_holder h' pa.
Proof. exact Arrays.popfirst_refines. Qed.
Print Assumptions popfirst_refines.
Example popfirst_refines_ex :
  fst (native_call NPopFirst [] (Some ex_pa) (st_of ex_h)) = Ok (NVal (VNum f_one)) /\
  abs (hp (snd (native_call NPopFirst [] (Some ex_pa) (st_of ex_h)))) ex_pa = Some [VStr (bs "x"); VNil None].
Proof. vm_compute. split; reflexivity. Qed.

(* the empty case: null is returned and the array stays empty *)
Corollary pop_empty : forall s pa,
  wf_holder (hp s) pa -> abs (hp s) pa = Some [] ->
  exists h', native_call NPop [] (Some pa) s = (Ok (NVal (VNil None)), set_hp s h') /\ abs h' pa = Some [] /\
  exists h'', native_call NPopFirst [] (Some pa) s = (Ok (NVal (VNil None)), set_hp s h'') /\ abs h'' pa = Some [].
Proof.
  intros s pa Hwf Habs.
  destruct (Arrays.pop_refines s pa [] Hwf Habs) as (h' & H1 & H2 & _).
  destruct (Arrays.popfirst_refines s pa [] Hwf Habs) as (h'' & H3 & H4 & _).
  exists h'. split; [exact H1|]. split; [exact H2|]. exists h''. split; [exact H3|exact H4].
Qed.
Print Assumptions pop_empty.

Theorem length_refines : forall s pa l args,
  wf_holder (hp s) pa -> abs (hp s) pa = Some l ->
  native_call NArrLength args (Some pa) s = (Ok (NVal (VNum (f_of_Z (Z.of_nat (length l))))), s).
Proof. exact Arrays.length_refines. Qed.
Print Assumptions length_refines.
Example length_refines_ex :
  fst (native_call NArrLength [] (Some ex_pa) (st_of ex_h)) = Ok (NVal (VNum (f_of_Z 3))).
Proof. vm_compute. reflexivity. Qed.

(* a[f]: the index is truncated toward zero, a negative index counts from the end, an
   index before the start is an error, one past the end finds nothing *)
Theorem index_refines : forall h pa l f,
  wf_holder h pa -> abs h pa = Some l ->
  let i := f_trunc_int64 f in
  let n := Z.of_nat (length l) in
  let g := get_member h (load h pa) (VNum f) in
  (g = GmErr <-> (i < - n)%Z) /\
  (g = GmNone <-> (n <= i)%Z) /\
  ((0 <= i < n)%Z -> exists c, g = GmCell c /\ nth_error l (Z.to_nat i) = Some (load h c)) /\
  ((- n <= i < 0)%Z -> exists c, g = GmCell c /\ nth_error l (Z.to_nat (n + i)) = Some (load h c)).
Proof. exact Arrays.index_rules. Qed.
Print Assumptions index_refines.
Example index_refines_ex :
  get_member ex_h (load ex_h ex_pa) (VNum (f_of_Z (-4))) = GmErr /\
  get_member ex_h (load ex_h ex_pa) (VNum (f_of_Z 3)) = GmNone /\
  (match get_member ex_h (load ex_h ex_pa) (VNum (f_of_Z (-2))) with
   | GmCell c => load ex_h c = VStr (bs "x") | _ => False end).
Proof. vm_compute. repeat split; reflexivity. Qed.

(* contains agrees with == applied to each element in order: the first decisive comparison *)
Theorem contains_is_eq : forall h x cs,
  match contains_loop h x cs with Some r => obs_plain (Ok r) | None => RUnsupp end
  = ideal_contains x (map (load h) cs).
Proof. exact Arrays.contains_is_eq. Qed.
Print Assumptions contains_is_eq.

Theorem ideal_contains_first_decisive : forall x l,
  (Forall (fun z => equals_values x z = EqOk false) l /\ ideal_contains x l = RVal (VBool false)) \/
  (exists l1 y l2, l = l1 ++ y :: l2 /\
     Forall (fun z => equals_values x z = EqOk false) l1 /\
     match equals_values x y with
     | EqOk true => ideal_contains x l = RVal (VBool true)
     | EqErr => ideal_contains x l = RErr
     | EqUnsupp => ideal_contains x l = RUnsupp
     | EqOk false => False
     end).
Proof. exact Arrays.ideal_contains_spec. Qed.
Print Assumptions ideal_contains_first_decisive.

Theorem contains_refines : forall s pa l x,
  wf_holder (hp s) pa -> abs (hp s) pa = Some l ->
  exists r, native_call NContains [x] (Some pa) s = (r, s) /\ obs_plain r = ideal_contains x l.
Proof. exact Arrays.contains_refines. Qed.
Print Assumptions contains_refines.

Example contains_refines_ex :
  obs_plain (fst (native_call NContains [VStr (bs "x")] (Some ex_pa) (st_of ex_h)))
  = ideal_contains (VStr (bs "x")) ex_l.
Proof. vm_compute. reflexivity. Qed.
Example contains_ex :
  fst (native_call NContains [VStr (bs "x")] (Some ex_pa) (st_of ex_h)) = Ok (NVal (VBool true)) /\
  fst (native_call NContains [VStr (bs "1")] (Some ex_pa) (st_of ex_h)) = Ok (NVal (VBool true)) /\
  fst (native_call NContains [VNum (f_of_Z 5)] (Some ex_pa) (st_of ex_h)) = Ok (NVal (VBool false)) /\
  ideal_contains (VNum (f_of_Z 5)) ex_l = RVal (VBool false).
Proof. vm_compute. repeat split; reflexivity. Qed.

(* sort returns a NEW array whose contents are the stably sorted copies -- numerically iff
   every element is a number, otherwise by string form -- and leaves the receiver untouched *)
Theorem sort_stable_copy : forall s pa l args,
  wf_holder (hp s) pa -> abs (hp s) pa = Some l -> forallb copyable l = true ->
  exists h' b n,
    native_call NSort args (Some pa) s = (Ok (NVal (VArr b 0 n)), set_hp s h') /\
    (next (hp s) <= b)%positive /\
    contents h' (VArr b 0 n) = ideal_sort l /\
    is_stable_sort (sort_le l) (map copy_of l) (ideal_sort l) /\
    abs h' pa = Some l /\ wf_holder h' pa.
Proof. exact Arrays.sort_stable_copy. Qed.
Print Assumptions sort_stable_copy.

Theorem sort_order_choice : forall l,
  (forallb is_num l = true -> sort_le l = le_num) /\
  (forallb is_num l = false -> sort_le l = le_str).
Proof. intros l. unfold sort_le. destruct (forallb is_num l); split; congruence. Qed.
Print Assumptions sort_order_choice.

(* an element that is a function or a native method cannot be copied: sort is then a runtime
   error and changes nothing (this used to be a crash; fixed in /repo) *)
Theorem sort_error_on_functions : forall s pa l args,
  abs (hp s) pa = Some l -> forallb copyable l = false ->
  native_call NSort args (Some pa) s = (Ok NError, s).
Proof. exact Arrays.sort_errors. Qed.
Print Assumptions sort_error_on_functions.

Example sort_order_choice_ex :
  forallb is_num ex_l = false /\ forallb is_num [VNum f_one; VNum f_zero] = true /\
  ideal_sort [VNum (f_of_Z 10); VNum (f_of_Z 9)] = [VNum (f_of_Z 9); VNum (f_of_Z 10)] /\
  ideal_sort [VNum (f_of_Z 10); VNum (f_of_Z 9); VStr (bs "x")] = [VNum (f_of_Z 10); VNum (f_of_Z 9); VStr (bs "x")].
Proof. vm_compute. repeat split; reflexivity. Qed.
Example sort_error_on_functions_ex :
  let '(c, h1) := alloc empty_heap (VFn 0) in
  let '(arr, h2) := new_array_of h1 [c] in
  let '(pa, h3) := alloc h2 arr in
  abs h3 pa = Some [VFn 0] /\ forallb copyable [VFn 0] = false /\
  native_call NSort [] (Some pa) (st_of h3) = (Ok NError, st_of h3).
Proof. vm_compute. repeat split; reflexivity. Qed.
Example sort_ex :
  forallb copyable ex_l = true /\
  (let '(r, s') := native_call NSort [] (Some ex_pa) (st_of ex_h) in
   obs_array (hp s') r = RList [VNil None; VNum f_one; VStr (bs "x")] /\
   abs (hp s') ex_pa = Some ex_l).
Proof. vm_compute. repeat split; reflexivity. Qed.

(* ---------------------------------------------------------------- histories *)

Theorem array_refines_list : forall os pa s l,
  wf_holder (hp s) pa -> abs (hp s) pa = Some l ->
  abs (hp (snd (run_ops pa s os))) pa = Some (fst (ideal_run l os)) /\
  fst (run_ops pa s os) = snd (ideal_run l os) /\
  wf_holder (hp (snd (run_ops pa s os))) pa.
Proof. exact Arrays.array_refines_list. Qed.
Print Assumptions array_refines_list.

Definition ex_ops : list op :=
  [Push (VNum (f_of_Z 7)); Length; Get (f_of_Z (-1)); PopFirst; Contains (VNum (f_of_Z 7));
   SetAt (f_of_Z 5) (VBool true); Length; Sort; Pop; Get (f_of_Z (-9)); Get (f_of_Z 40); Pop; Pop; Pop; Pop; Pop; Pop].
Example array_refines_list_ex :
  fst (run_ops ex_pa (st_of ex_h) ex_ops) = snd (ideal_run ex_l ex_ops) /\
  abs (hp (snd (run_ops ex_pa (st_of ex_h) ex_ops))) ex_pa = Some [] /\
  nth_error (fst (run_ops ex_pa (st_of ex_h) ex_ops)) 6 = Some (RVal (VNum (f_of_Z 6))).
Proof. vm_compute. repeat split; reflexivity. Qed.

(* ---------------------------------------------------------------- each method acts on its receiver *)

(* [separate h pa pb]: two distinct well-formed holders with different backing arrays,
   disjoint element cells, neither holder being an element of the other.  Any history of
   operations through [pa] leaves the contents seen through [pb] unchanged (and keeps them
   separate, also when pa's array is re-allocated by append). *)
Theorem frame_step : forall pa pb s o,
  separate (hp s) pa pb ->
  abs (hp (snd (run_step pa s o))) pb = abs (hp s) pb /\
  separate (hp (snd (run_step pa s o))) pa pb.
Proof. exact Arrays.frame_step. Qed.
Print Assumptions frame_step.

Theorem frame_history : forall os pa pb s,
  separate (hp s) pa pb ->
  abs (hp (snd (run_ops pa s os))) pb = abs (hp s) pb /\
  separate (hp (snd (run_ops pa s os))) pa pb.
Proof. exact Arrays.frame_history. Qed.
Print Assumptions frame_history.

(* example: a = [1, "x", null] and b = [true] *)
Definition ex_two : addr * heap :=
  let '(c, h1) := alloc ex_h (VBool true) in
  let '(arr, h2) := new_array_of h1 [c] in
  alloc h2 arr.
Example frame_history_ex :
  let pb := fst ex_two in let h := snd ex_two in
  separate h ex_pa pb /\
  abs h pb = Some [VBool true] /\
  abs (hp (snd (run_ops ex_pa (st_of h) ex_ops))) pb = Some [VBool true].
Proof.
  cbv zeta. split.
  - split; [vm_compute; discriminate|]. split; [solve_wf|]. split; [solve_wf|].
    split; [vm_compute; discriminate|]. split; [vm_compute; intuition discriminate|].
    split; [vm_compute; intuition discriminate|].
    intros c Hc. vm_compute in Hc. vm_compute. intuition (subst; discriminate).
  - vm_compute. split; reflexivity.
Qed.
