(* Props/C16_methods.v -- C16 (part): pluck, totality of methods and builtins, neutral values,
   floor/ceil/round and split at the call level.  Statements only; proofs in Proofs/Methods.v. *)
From Coq Require Import List ZArith Bool Lia.
From JQ Require Import Base.Bytes Num.F64 Num.F64Proofs Oracle.Strings Gen.Generated Json.JValue.
From JQ Require Import Sem.Value Sem.Natives Sem.Eval.
From JQ Require Import Spec.IdealList Proofs.Arrays Proofs.Methods Props.C15_arrays.
Import ListNotations.
Open Scope nat_scope.

(* ---------------------------------------------------------------- pluck *)

(* o.pluck(k1, ...) on an object receiver: a NEW object (id = the next free id) holding
   exactly the keys to_str k (duplicates collapse: the object is an association list
   maintained by assoc_set), each with [pluck_value]: the receiver's OWN value for an own
   key, null for every key that is not an own key (also for the method names "length" and
   "pluck": after fix of the C16 defect the prototype is not consulted).  The receiver and
   everything else is unchanged ([heap_ext]).  An error iff some key is neither a string nor
   a number (GetMember errs). *)
Theorem pluck_spec : forall s pa oid0 args,
  load (hp s) pa = VObj oid0 -> wf_obj (hp s) oid0 ->
  let oid := next (hp s) in
  exists h',
    heap_ext (hp s) h' oid /\ get_obj h' oid0 = get_obj (hp s) oid0 /\
    if forallb is_key args then
      native_call NPluck args (Some pa) s = (Ok (NVal (VObj oid)), set_hp s h') /\
      forall key,
        match assoc_get key (get_obj h' oid) with
        | Some c => exists k, In k args /\ key = to_str k /\ load h' c = pluck_value (hp s) oid0 k
        | None => forall k, In k args -> key <> to_str k
        end
    else
      native_call NPluck args (Some pa) s = (Ok NError, set_hp s h').
Proof. exact Methods.pluck_spec. Qed.
Print Assumptions pluck_spec.

Theorem pluck_value_cases : forall h oid0 k,
  (forall c, assoc_get (to_str k) (get_obj h oid0) = Some c -> pluck_value h oid0 k = load h c) /\
  (assoc_get (to_str k) (get_obj h oid0) = None -> pluck_value h oid0 k = VNil None).
Proof.
  intros h oid0 k. unfold pluck_value. split.
  - intros c ->. reflexivity.
  - intros ->. reflexivity.
Qed.
Print Assumptions pluck_value_cases.

(* example: o = {"a": 1, "b": "x"}; o.pluck("b", "zz", "b") = {"b": "x", "zz": null} *)
Definition ex_obj2 : heap * addr :=
  let '(c1, h1) := alloc empty_heap (VNum f_one) in
  let '(c2, h2) := alloc h1 (VStr (bs "x")) in
  let '(o, h3) := new_obj h2 [(bs "a", c1); (bs "b", c2)] in
  let '(pa, h4) := alloc h3 (VObj o) in (h4, pa).
Example pluck_spec_ex :
  let h := fst ex_obj2 in let pa := snd ex_obj2 in
  load h pa = VObj 4 /\ wf_obj h 4 /\
  (let '(r, s') := native_call NPluck [VStr (bs "b"); VStr (bs "zz"); VStr (bs "b")] (Some pa) (st_of h) in
   r = Ok (NVal (VObj 6)) /\
   obj_view (hp s') 6 = [(bs "b", VStr (bs "x")); (bs "zz", VNil None)] /\
   obj_view (hp s') 4 = [(bs "a", VNum f_one); (bs "b", VStr (bs "x"))]) /\
  fst (native_call NPluck [VBool true] (Some pa) (st_of h)) = Ok NError.
Proof.
  cbv zeta. split; [vm_compute; reflexivity|]. split.
  - split; [vm_compute; reflexivity|]. vm_compute. repeat constructor.
  - vm_compute. repeat split; reflexivity.
Qed.

(* the method names are ordinary absent keys: {a, b}.pluck("length", "pluck") = {"length": null, "pluck": null} *)
Example pluck_method_names_ex :
  let h := fst ex_obj2 in let pa := snd ex_obj2 in
  assoc_get (bs "length") (get_obj h 4) = None /\
  pluck_value h 4 (VStr (bs "length")) = VNil None /\
  (let '(r, s') := native_call NPluck [VStr (bs "length"); VStr (bs "pluck")] (Some pa) (st_of h) in
   r = Ok (NVal (VObj 6)) /\
   obj_view (hp s') 6 = [(bs "length", VNil None); (bs "pluck", VNil None)]).
Proof. vm_compute. repeat split; reflexivity. Qed.

(* ---------------------------------------------------------------- totality *)

(* no native ever panics: whatever the native, the arguments, the receiver and the state *)
Theorem methods_total : forall n args this s, fst (native_call n args this s) <> Panic.
Proof. exact Methods.methods_total. Qed.
Print Assumptions methods_total.

(* sort is a runtime error exactly when some element is a function or a native method (the
   clone goes through copyValue, which refuses those); nothing is allocated or changed then *)
Theorem sort_error_iff : forall args this s,
  (fst (native_call NSort args this s) = Ok NError <->
   exists pa, this = Some pa /\
     existsb (fun v => match v with VFn _ | VNative _ _ => true | _ => false end)
             (contents (hp s) (load (hp s) pa)) = true) /\
  (fst (native_call NSort args this s) = Ok NError -> snd (native_call NSort args this s) = s).
Proof. exact Methods.sort_error_iff. Qed.
Print Assumptions sort_error_iff.

(* both sides occur: an array holding a function, and an ordinary array *)
Definition ex_fn_arr : heap * addr :=
  let '(c1, h1) := alloc empty_heap (VFn 0) in
  let '(arr, h2) := new_array_of h1 [c1] in
  let '(pa, h3) := alloc h2 arr in (h3, pa).
Example sort_error_iff_ex :
  native_call NSort [] (Some (snd ex_fn_arr)) (st_of (fst ex_fn_arr)) = (Ok NError, st_of (fst ex_fn_arr)) /\
  fst (native_call NSort [] (Some ex_pa) (st_of ex_h)) <> Ok NError.
Proof. vm_compute. split; [reflexivity|discriminate]. Qed.
Example methods_total_ex :
  fst (native_call NSort [] (Some (snd ex_fn_arr)) (st_of (fst ex_fn_arr))) <> Panic /\
  fst (native_call NPop [] None (st_of ex_h)) <> Panic /\
  fst (native_call NPluck [VBool true] (Some ex_pa) (st_of ex_h)) <> Panic.
Proof. vm_compute. repeat split; discriminate. Qed.

(* a method invoked on a receiver of another kind (or on none) returns its neutral value *)
Theorem neutral_values : forall args this s,
  (not_arr (recv s this) -> native_call NArrLength args this s = (Ok (NVal (VNum (f_of_Z 0))), s)) /\
  (not_obj (recv s this) -> native_call NObjLength args this s = (Ok (NVal (VNum (f_of_Z 0))), s)) /\
  (not_str (recv s this) -> native_call NStrLength args this s = (Ok (NVal (VNum (f_of_Z 0))), s)) /\
  (not_str (recv s this) -> native_call NLower args this s = (Ok (NVal (VNum (f_of_Z 0))), s)) /\
  (not_str (recv s this) -> native_call NUpper args this s = (Ok (NVal (VNum (f_of_Z 0))), s)) /\
  (not_str (recv s this) ->
     exists h', native_call NSplit args this s = (Ok (NVal (VArr (next (hp s)) 0 0)), set_hp s h') /\
                contents h' (VArr (next (hp s)) 0 0) = []) /\
  (not_num (recv s this) -> native_call NFloor args this s = (Ok (NVal (VNil None)), s)) /\
  (not_num (recv s this) -> native_call NCeil args this s = (Ok (NVal (VNil None)), s)) /\
  (not_num (recv s this) -> native_call NRound args this s = (Ok (NVal (VNil None)), s)) /\
  (this = None -> native_call NPush args this s = (Ok NNil, s) /\ native_call NPop args this s = (Ok NNil, s) /\
                  native_call NPopFirst args this s = (Ok NNil, s) /\ native_call NContains args this s = (Ok NNil, s) /\
                  native_call NSort args this s = (Ok NNil, s)).
Proof. exact Methods.neutral_values. Qed.
Print Assumptions neutral_values.
Example neutral_values_ex :
  not_str (recv (st_of ex_h) (Some ex_pa)) /\ not_num (recv (st_of ex_h) (Some ex_pa)) /\
  fst (native_call NFloor [] (Some ex_pa) (st_of ex_h)) = Ok (NVal (VNil None)) /\
  fst (native_call NStrLength [] (Some ex_pa) (st_of ex_h)) = Ok (NVal (VNum (f_of_Z 0))).
Proof. vm_compute. repeat split; reflexivity. Qed.

(* missing / surplus arguments are runtime errors *)
Theorem arity_errors : forall pa s,
  native_call NPush [] (Some pa) s = (Ok NError, s) /\
  (forall x y r, native_call NPush (x :: y :: r) (Some pa) s = (Ok NError, s)) /\
  (forall x r, native_call NPop (x :: r) (Some pa) s = (Ok NError, s)) /\
  (forall x r, native_call NPopFirst (x :: r) (Some pa) s = (Ok NError, s)) /\
  native_call NContains [] (Some pa) s = (Ok NError, s) /\
  (forall b, load (hp s) pa = VStr b -> native_call NSplit [] (Some pa) s = (Ok NError, s)) /\
  (forall this, native_call NNum [] this s = (Ok NError, s)) /\
  (forall this, native_call NJson [] this s = (Ok NError, s)) /\
  (forall this, native_call NPrintf [] this s = (Ok NError, s)).
Proof. exact Methods.arity_errors. Qed.
Print Assumptions arity_errors.

Example arity_errors_ex :
  fst (native_call NPush [] (Some ex_pa) (st_of ex_h)) = Ok NError /\
  fst (native_call NPop [VNil None] (Some ex_pa) (st_of ex_h)) = Ok NError /\
  fst (native_call NNum [] None (st_of ex_h)) = Ok NError.
Proof. vm_compute. repeat split; reflexivity. Qed.

(* ---------------------------------------------------------------- floor / ceil / round *)

(* x.floor() etc. on a finite double: an integer-valued double within one unit of x
   ([scaled] = value * 2^1074, [two1074] = 2^1074; Num/F64Proofs.v) *)
Theorem floor_ceil_round_spec : forall pa s x args,
  load (hp s) pa = VNum x -> f_is_finite x = true -> valid x = true ->
  exists y c r,
    native_call NFloor args (Some pa) s = (Ok (NVal (VNum y)), s) /\
    native_call NCeil args (Some pa) s = (Ok (NVal (VNum c)), s) /\
    native_call NRound args (Some pa) s = (Ok (NVal (VNum r)), s) /\
    is_integer_valued y = true /\ (scaled y <= scaled x < scaled y + two1074)%Z /\
    is_integer_valued c = true /\ (scaled c - two1074 < scaled x <= scaled c)%Z /\
    is_integer_valued r = true /\ (2 * Z.abs (scaled r - scaled x) <= two1074)%Z /\
    ((2 * Z.abs (scaled r - scaled x))%Z = two1074 -> (Z.abs (scaled x) < Z.abs (scaled r))%Z).
Proof.
  intros pa s x args Hl Hf Hv.
  destruct (Methods.floor_method pa s x args Hl) as (H1 & H2 & H3).
  destruct (f_floor_spec x Hf Hv) as (F1 & _ & _ & F2).
  destruct (f_ceil_spec x Hf Hv) as (C1 & _ & _ & C2).
  destruct (f_round_spec x Hf Hv) as (R1 & _ & _ & R2 & R3).
  exists (f_floor x), (f_ceil x), (f_round x). repeat split; assumption || apply F2 || apply C2.
Qed.
Print Assumptions floor_ceil_round_spec.
Example floor_ceil_round_ex :
  let x := f_div (f_of_Z (-5)) (f_of_Z 2) in
  f_is_finite x = true /\ valid x = true /\
  f_floor x = f_of_Z (-3) /\ f_ceil x = f_of_Z (-2) /\ f_round x = f_of_Z (-3).
Proof. vm_compute. repeat split; reflexivity. Qed.

(* ---------------------------------------------------------------- split *)

(* s.split(sep): a fresh array of the pieces of strings.Split; nothing else changes *)
Theorem split_method : forall pa s str sep rest,
  load (hp s) pa = VStr str ->
  exists h' b n,
    native_call NSplit (VStr sep :: rest) (Some pa) s = (Ok (NVal (VArr b 0 n)), set_hp s h') /\
    (next (hp s) <= b)%positive /\
    contents h' (VArr b 0 n) = map VStr (split str sep) /\
    (forall a, (a < next (hp s))%positive -> load h' a = load (hp s) a) /\
    (forall b', (b' < next (hp s))%positive -> get_back h' b' = get_back (hp s) b').
Proof. exact Methods.split_method. Qed.
Print Assumptions split_method.
(* ... and the pieces obey the laws of strings.Split: joining them with sep gives the string
   back, and (for a non-empty sep) no piece contains sep *)
Theorem split_spec : forall pa s str sep rest,
  load (hp s) pa = VStr str ->
  exists h' b n pieces,
    native_call NSplit (VStr sep :: rest) (Some pa) s = (Ok (NVal (VArr b 0 n)), set_hp s h') /\
    (next (hp s) <= b)%positive /\
    contents h' (VArr b 0 n) = map VStr pieces /\
    join sep pieces = str /\
    (sep <> [] -> pieces <> [] /\ forall p, In p pieces -> occurs sep p = false).
Proof. exact Methods.split_spec. Qed.
Print Assumptions split_spec.

Example split_method_ex :
  let '(pa, h) := alloc empty_heap (VStr (bs "a,b,,c")) in
  let '(r, s') := native_call NSplit [VStr (bs ",")] (Some pa) (st_of h) in
  obs_array (hp s') r = RList [VStr (bs "a"); VStr (bs "b"); VStr []; VStr (bs "c")].
Proof. vm_compute. reflexivity. Qed.
