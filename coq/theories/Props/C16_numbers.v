(* C16/C17: number contracts: floor/ceil/round, int conversion, num() parsing, print format.
   Statements are those of the cited lemmas (proved in the library files named in the imports);
   each is re-exported here so that it is an obligation of the property's check. `Check` prints the
   statement in the build log. *)
From JQ Require Import Base.Bytes Num.F64.
From JQ Require Num.F64Proofs.

Check F64Proofs.format_f_roundtrip.
Theorem format_f_roundtrip : ltac:(let ty := type of @F64Proofs.format_f_roundtrip in exact ty).
Proof. exact (@F64Proofs.format_f_roundtrip). Qed.
Print Assumptions format_f_roundtrip.

Check F64Proofs.format_f_positional.
Theorem format_f_positional : ltac:(let ty := type of @F64Proofs.format_f_positional in exact ty).
Proof. exact (@F64Proofs.format_f_positional). Qed.
Print Assumptions format_f_positional.

Check F64Proofs.f_trunc_int64_range.
Theorem f_trunc_int64_range : ltac:(let ty := type of @F64Proofs.f_trunc_int64_range in exact ty).
Proof. exact (@F64Proofs.f_trunc_int64_range). Qed.
Print Assumptions f_trunc_int64_range.

Check F64Proofs.f_of_Z_exact.
Theorem f_of_Z_exact : ltac:(let ty := type of @F64Proofs.f_of_Z_exact in exact ty).
Proof. exact (@F64Proofs.f_of_Z_exact). Qed.
Print Assumptions f_of_Z_exact.

Check F64Proofs.f_floor_spec.
Theorem f_floor_spec : ltac:(let ty := type of @F64Proofs.f_floor_spec in exact ty).
Proof. exact (@F64Proofs.f_floor_spec). Qed.
Print Assumptions f_floor_spec.

Check F64Proofs.f_floor_int.
Theorem f_floor_int : ltac:(let ty := type of @F64Proofs.f_floor_int in exact ty).
Proof. exact (@F64Proofs.f_floor_int). Qed.
Print Assumptions f_floor_int.

Check F64Proofs.f_ceil_spec.
Theorem f_ceil_spec : ltac:(let ty := type of @F64Proofs.f_ceil_spec in exact ty).
Proof. exact (@F64Proofs.f_ceil_spec). Qed.
Print Assumptions f_ceil_spec.

Check F64Proofs.f_ceil_int.
Theorem f_ceil_int : ltac:(let ty := type of @F64Proofs.f_ceil_int in exact ty).
Proof. exact (@F64Proofs.f_ceil_int). Qed.
Print Assumptions f_ceil_int.

Check F64Proofs.f_round_spec.
Theorem f_round_spec : ltac:(let ty := type of @F64Proofs.f_round_spec in exact ty).
Proof. exact (@F64Proofs.f_round_spec). Qed.
Print Assumptions f_round_spec.

Check F64Proofs.f_round_int.
Theorem f_round_int : ltac:(let ty := type of @F64Proofs.f_round_int in exact ty).
Proof. exact (@F64Proofs.f_round_int). Qed.
Print Assumptions f_round_int.

Check F64Proofs.parse_float_sign.
Theorem parse_float_sign : ltac:(let ty := type of @F64Proofs.parse_float_sign in exact ty).
Proof. exact (@F64Proofs.parse_float_sign). Qed.
Print Assumptions parse_float_sign.

Check F64Proofs.parse_float_no_junk.
Theorem parse_float_no_junk : ltac:(let ty := type of @F64Proofs.parse_float_no_junk in exact ty).
Proof. exact (@F64Proofs.parse_float_no_junk). Qed.
Print Assumptions parse_float_no_junk.
