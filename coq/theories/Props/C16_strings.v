(* C16: split / case mapping / sort contracts of the library oracles.
   Statements are those of the cited lemmas (proved in the library files named in the imports);
   each is re-exported here so that it is an obligation of the property's check. `Check` prints the
   statement in the build log. *)
From JQ Require Import Base.Bytes.
From JQ Require Oracle.OracleProofs.

Check OracleProofs.split_join.
Theorem split_join : ltac:(let ty := type of @OracleProofs.split_join in exact ty).
Proof. exact (@OracleProofs.split_join). Qed.
Print Assumptions split_join.

Check OracleProofs.split_no_sep.
Theorem split_no_sep : ltac:(let ty := type of @OracleProofs.split_no_sep in exact ty).
Proof. exact (@OracleProofs.split_no_sep). Qed.
Print Assumptions split_no_sep.

Check OracleProofs.split_nonempty.
Theorem split_nonempty : ltac:(let ty := type of @OracleProofs.split_nonempty in exact ty).
Proof. exact (@OracleProofs.split_nonempty). Qed.
Print Assumptions split_nonempty.

Check OracleProofs.to_upper_length.
Theorem to_upper_length : ltac:(let ty := type of @OracleProofs.to_upper_length in exact ty).
Proof. exact (@OracleProofs.to_upper_length). Qed.
Print Assumptions to_upper_length.

Check OracleProofs.to_lower_length.
Theorem to_lower_length : ltac:(let ty := type of @OracleProofs.to_lower_length in exact ty).
Proof. exact (@OracleProofs.to_lower_length). Qed.
Print Assumptions to_lower_length.

Check OracleProofs.to_upper_idempotent.
Theorem to_upper_idempotent : ltac:(let ty := type of @OracleProofs.to_upper_idempotent in exact ty).
Proof. exact (@OracleProofs.to_upper_idempotent). Qed.
Print Assumptions to_upper_idempotent.

Check OracleProofs.to_lower_idempotent.
Theorem to_lower_idempotent : ltac:(let ty := type of @OracleProofs.to_lower_idempotent in exact ty).
Proof. exact (@OracleProofs.to_lower_idempotent). Qed.
Print Assumptions to_lower_idempotent.

Check OracleProofs.to_lower_to_upper.
Theorem to_lower_to_upper : ltac:(let ty := type of @OracleProofs.to_lower_to_upper in exact ty).
Proof. exact (@OracleProofs.to_lower_to_upper). Qed.
Print Assumptions to_lower_to_upper.

Check OracleProofs.case_identity_no_letters.
Theorem case_identity_no_letters : ltac:(let ty := type of @OracleProofs.case_identity_no_letters in exact ty).
Proof. exact (@OracleProofs.case_identity_no_letters). Qed.
Print Assumptions case_identity_no_letters.

Check OracleProofs.stable_sort_perm.
Theorem stable_sort_perm : ltac:(let ty := type of @OracleProofs.stable_sort_perm in exact ty).
Proof. exact (@OracleProofs.stable_sort_perm). Qed.
Print Assumptions stable_sort_perm.

Check OracleProofs.stable_sort_sorted.
Theorem stable_sort_sorted : ltac:(let ty := type of @OracleProofs.stable_sort_sorted in exact ty).
Proof. exact (@OracleProofs.stable_sort_sorted). Qed.
Print Assumptions stable_sort_sorted.

Check OracleProofs.stable_sort_stable.
Theorem stable_sort_stable : ltac:(let ty := type of @OracleProofs.stable_sort_stable in exact ty).
Proof. exact (@OracleProofs.stable_sort_stable). Qed.
Print Assumptions stable_sort_stable.

Check OracleProofs.explode_concat.
Theorem explode_concat : ltac:(let ty := type of @OracleProofs.explode_concat in exact ty).
Proof. exact (@OracleProofs.explode_concat). Qed.
Print Assumptions explode_concat.

Check OracleProofs.runes_offsets.
Theorem runes_offsets : ltac:(let ty := type of @OracleProofs.runes_offsets in exact ty).
Proof. exact (@OracleProofs.runes_offsets). Qed.
Print Assumptions runes_offsets.

Check OracleProofs.grow_cap_gt.
Theorem grow_cap_gt : ltac:(let ty := type of @OracleProofs.grow_cap_gt in exact ty).
Proof. exact (@OracleProofs.grow_cap_gt). Qed.
Print Assumptions grow_cap_gt.

Check OracleProofs.regex_match_correct.
Theorem regex_match_correct : ltac:(let ty := type of @OracleProofs.regex_match_correct in exact ty).
Proof. exact (@OracleProofs.regex_match_correct). Qed.
Print Assumptions regex_match_correct.
