(* C17: "print writes its arguments separated by one space and ended by a newline (a bare
   print, like a rule without a body, prints $): top-level strings raw; numbers in plain
   positional decimal, without exponent, that reads back as the identical double; true,
   false and null as words; arrays as [a, b] and objects as {"k": v} with nested strings
   double-quoted [...]. Rendering always terminates: a container reachable from itself is
   shown as <circular reference> at the point of recurrence, and sharing without a cycle
   is printed in full."
   Model: Sem/Value.v pretty_fuel / pretty_string, Sem/Eval.v print_args and the SPrint case of
   eval_stmt; vocabulary: Spec/Pure.v; proofs: Proofs/Pretty.v. *)
From Coq Require Import List Bool PArith NArith ZArith FMapPositive.
From JQ Require Import Base.Bytes Num.F64 Syntax.Token Syntax.Lexer Syntax.Ast Syntax.Parser.
From JQ Require Import Json.JValue.
From JQ Require Import Gen.Generated Sem.Value Sem.Ops Sem.Natives Sem.Eval Sem.Driver.
From JQ Require Import Spec.Pure.
From JQ Require Proofs.Pure Proofs.Pretty.
Import ListNotations.

(* the arguments render as the texts [ps] *)
Definition renders (h : heap) (cells : list addr) (ps : list bytes) : Prop :=
  Forall2 (fun c p => pretty_string h (load h c) = Some p) cells ps.

(* print a1, ..., ak: the Write calls are P(a1), " ", P(a2), ..., "\n"; the heap is untouched
   and the output grows by P(a1) ++ " " ++ ... ++ P(ak) ++ "\n" *)
Theorem print_shape : forall cells ps s,
  renders (hp s) cells ps -> cells <> [] ->
  exists s', (print_args cells true ;;; emit [10%N]) s = (Ok tt, s') /\
    hp s' = hp s /\
    io s' = rev (print_events ps true) ++ io s /\
    output_of (io s') = output_of (io s) ++ print_line ps.
Proof. exact Proofs.Pretty.print_shape. Qed.
Print Assumptions print_shape.

(* the print statement with arguments *)
Theorem print_stmt_shape : forall src funcs fz f t args s cells s1 ps,
  eval_expr_list src funcs fz f args false s = (Ok cells, s1) -> cells <> [] ->
  renders (hp s1) cells ps ->
  exists s2, eval_stmt src funcs fz (S f) (SPrint t args) s = (Ok tt, s2) /\
    hp s2 = hp s1 /\
    io s2 = rev (print_events ps true) ++ io s1 /\
    output_of (io s2) = output_of (io s1) ++ print_line ps.
Proof. exact Proofs.Pretty.print_stmt_shape. Qed.
Print Assumptions print_stmt_shape.

(* a bare print (the parser gives a rule without a body exactly this statement,
   Syntax/Parser.v: mkRuleR kind pat (SPrint zero_token [])) writes P($) ++ "\n" in one Write *)
Theorem print_bare_shape : forall src funcs fz f t s a p,
  rule_root s = Some a -> pretty_string (hp s) (load (hp s) a) = Some p ->
  eval_stmt src funcs fz (S (S f)) (SPrint t []) s =
    (Ok tt, mkSt (hp s) (frames s) (rule_root s) (root s) (retval s) (IoWrite (p ++ [10%N]) :: io s)) /\
  output_of (IoWrite (p ++ [10%N]) :: io s) = output_of (io s) ++ p ++ [10%N].
Proof. exact Proofs.Pretty.print_bare_shape. Qed.
Print Assumptions print_bare_shape.

(* every argument list renders on a well-formed heap: print never runs out of fuel *)
Theorem print_renders : forall h cells, wf_heap h -> exists ps, renders h cells ps.
Proof. exact Proofs.Pretty.renders_exists. Qed.
Print Assumptions print_renders.

Theorem pretty_scalars : forall h,
  (forall s, pretty_string h (VStr s) = Some s) /\
  (forall x, pretty_string h (VNum x) = Some (format_f x)) /\
  pretty_string h (VBool true) = Some (bs "true") /\
  pretty_string h (VBool false) = Some (bs "false") /\
  (forall sp, pretty_string h (VNil sp) = Some (bs "null")) /\
  pretty_string h VUnknown = Some (bs "<unknown>") /\
  (forall s, pretty_string h (VRegex s) = Some (bs "<regex>")) /\
  (forall i, pretty_string h (VFn i) = Some (bs "<function>")) /\
  (forall n b, pretty_string h (VNative n b) = Some (bs "<nativefunction>")) /\
  (* inside a container strings are double-quoted, every other scalar is rendered the same *)
  (forall f path check s, pretty_fuel (S f) h path true check (VStr s) = Some (34%N :: s ++ [34%N])) /\
  (forall f path check v, is_container v = false -> (forall s, v <> VStr s) ->
     pretty_fuel (S f) h path true check v = pretty_string h v).
Proof. exact Proofs.Pretty.pretty_scalars. Qed.
Print Assumptions pretty_scalars.

Theorem number_reads_back : forall h x,
  f_is_finite x = true -> valid_binary 53 1024 x = true ->
  exists b, pretty_string h (VNum x) = Some b /\ parse_float b = PFok x.
Proof. exact Proofs.Pretty.number_reads_back. Qed.
Print Assumptions number_reads_back.

Theorem number_positional : forall h x, f_is_finite x = true ->
  exists b, pretty_string h (VNum x) = Some b /\ positional b = true.
Proof. exact Proofs.Pretty.number_positional. Qed.
Print Assumptions number_positional.

(* rendering terminates on every well-formed heap, cyclic or not, for every value *)
Theorem pretty_terminates : forall h v, wf_heap h -> pretty_string h v <> None.
Proof. exact Proofs.Pretty.pretty_terminates. Qed.
Print Assumptions pretty_terminates.

(* the marker is written at the point of recurrence *)
Theorem pretty_cycle_marker : forall f h path quote v,
  existsb (fun r => is_same h r v) path = true ->
  pretty_fuel (S f) h path quote true v = Some (bs "<circular reference>").
Proof. exact Proofs.Pretty.pretty_cycle_marker. Qed.
Print Assumptions pretty_cycle_marker.

(* arrays as [a, b], objects as {"k": v}, nested strings double-quoted: a document (a finite
   tree, Spec/Pure.v doc_at) renders as the pure function jrender of its JSON value -- in
   full, without a cycle marker *)
Theorem pretty_document : forall h p v j, doc_at h p v j -> Pos.le p (next h) ->
  pretty_string h v = Some (jrender false j) /\
  (forall f path check, (Pos.to_nat p < f)%nat -> Proofs.Pretty.path_above p path ->
     pretty_fuel f h path true check v = Some (jrender true j)).
Proof. exact Proofs.Pretty.pretty_string_doc. Qed.
Print Assumptions pretty_document.

Theorem pretty_new_value : forall j h v h',
  new_value j h = (v, h') -> pretty_string h' v = Some (jrender false j).
Proof. exact Proofs.Pretty.pretty_new_value. Qed.
Print Assumptions pretty_new_value.

(* ---------------------------------------------------------------- examples *)

(* a = [1]; a[0] = a : cell 2 holds the header of backing 3 = [cell 2] *)
Definition cyc_heap : heap :=
  mkHeap (PM.add 2%positive (VArr 3%positive 0 1) (PM.add 1%positive (VNil None) (PM.empty _)))
         (PM.add 3%positive [2%positive] (PM.empty _)) (PM.empty _) 4%positive.
Definition cyc_val : value := VArr 3%positive 0 1.

(* s = [1, "a"]; t = [s, s, {"k": s}] : sharing without a cycle; cell 7 holds "x y" *)
Definition dag_heap : heap :=
  mkHeap (PM.add 7%positive (VStr (bs "x y"))
         (PM.add 6%positive (VArr 2%positive 0 2)
         (PM.add 5%positive (VObj 8%positive)
         (PM.add 4%positive (VStr (bs "a"))
         (PM.add 3%positive (VNum (f_of_Z 1))
         (PM.add 1%positive (VNil None) (PM.empty _)))))))
         (PM.add 9%positive [6; 6; 5]%positive (PM.add 2%positive [3; 4]%positive (PM.empty _)))
         (PM.add 8%positive [(bs "k", 6%positive)] (PM.empty _)) 10%positive.
Definition dag_val : value := VArr 9%positive 0 3.
Definition dag_st : st := mkSt dag_heap [mkFrame (bs "<root>") []] (Some 6%positive) None None [].

Example pretty_terminates_ex :
  wf_heap cyc_heap /\ contains_itself cyc_heap cyc_val /\
  pretty_string cyc_heap cyc_val = Some (bs "[<circular reference>]").
Proof.
  split; [apply Proofs.Pretty.wf_heapb_sound; vm_compute; reflexivity|].
  split; [|vm_compute; reflexivity].
  exists cyc_val. split; [|constructor]. exists 2%positive. split; [vm_compute; auto|reflexivity].
Qed.

Example pretty_cycle_marker_ex :
  existsb (fun r => is_same cyc_heap r cyc_val) [cyc_val] = true.
Proof. vm_compute. reflexivity. Qed.

Example pretty_sharing_ex :
  wf_heap dag_heap /\
  pretty_string dag_heap dag_val = Some (bs "[[1, ""a""], [1, ""a""], {""k"": [1, ""a""]}]").
Proof.
  split; [apply Proofs.Pretty.wf_heapb_sound; vm_compute; reflexivity|vm_compute; reflexivity].
Qed.

Example print_shape_ex :
  renders (hp dag_st) [7; 3; 6]%positive [bs "x y"; bs "1"; bs "[1, ""a""]"] /\
  exists s', (print_args [7; 3; 6]%positive true ;;; emit [10%N]) dag_st = (Ok tt, s') /\
    io s' = [IoWrite [10%N]; IoWrite (bs "[1, ""a""]"); IoWrite (bs " "); IoWrite (bs "1");
             IoWrite (bs " "); IoWrite (bs "x y")] /\
    output_of (io s') = bs "x y 1 [1, ""a""]" ++ [10%N].
Proof.
  assert (Hr : renders (hp dag_st) [7; 3; 6]%positive [bs "x y"; bs "1"; bs "[1, ""a""]"]).
  { repeat constructor. }
  split; [exact Hr|].
  destruct (print_shape _ _ dag_st Hr) as [s' (E & _ & Hio & Hout)]; [discriminate|].
  exists s'. split; [exact E|]. split; [exact Hio|exact Hout].
Qed.

Example print_bare_shape_ex :
  eval_stmt [] [] false 2 (SPrint (mkTok TPrint 0 0) []) dag_st =
    (Ok tt, mkSt dag_heap [mkFrame (bs "<root>") []] (Some 6%positive) None None
              [IoWrite (bs "[1, ""a""]" ++ [10%N])]).
Proof.
  apply (print_bare_shape [] [] false 0 (mkTok TPrint 0 0) dag_st 6%positive (bs "[1, ""a""]"));
    reflexivity.
Qed.

Example pretty_scalars_ex :
  pretty_string empty_heap (VStr (bs "a""b")) = Some (bs "a""b") /\
  pretty_string empty_heap (VNative NPush None) = Some (bs "<nativefunction>").
Proof. split; apply (pretty_scalars empty_heap). Qed.

(* 0.1 = 7205759403792794 * 2^-56 *)
Definition tenth : float := S754_finite false 7205759403792794 (-56).
Example number_reads_back_ex :
  f_is_finite tenth = true /\ valid_binary 53 1024 tenth = true /\
  pretty_string empty_heap (VNum tenth) = Some (bs "0.1") /\ parse_float (bs "0.1") = PFok tenth.
Proof. repeat split; vm_compute; reflexivity. Qed.

Example number_positional_ex :
  (* 1e21 is printed without exponent *)
  pretty_string empty_heap (VNum (f_of_Z (10 ^ 21))) = Some (bs "1000000000000000000000") /\
  positional (bs "1000000000000000000000") = true.
Proof. split; vm_compute; reflexivity. Qed.

Example print_renders_ex : exists ps, renders cyc_heap [2; 1]%positive ps.
Proof. apply print_renders. apply Proofs.Pretty.wf_heapb_sound. vm_compute. reflexivity. Qed.

Definition ex_doc : jvalue :=
  JObj [(bs "a", JArr [JNum (f_of_Z 1); JStr (bs "x"); JArr []]); (bs "b", JObj [])].
Example pretty_new_value_ex :
  pretty_string (snd (new_value ex_doc empty_heap)) (fst (new_value ex_doc empty_heap)) =
    Some (bs "{""a"": [1, ""x"", []], ""b"": {}}").
Proof. rewrite (pretty_new_value ex_doc empty_heap _ _ (surjective_pairing _)). vm_compute. reflexivity. Qed.
