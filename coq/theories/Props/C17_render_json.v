(* C17, last clause: "[...] so that for values whose strings need no escaping the rendering of
   a container is JSON equal to the value."
   Model: Json/Decode.v decode_next on the text PrettyString produces (Spec/Pure.v jrender =
   the rendering of a document, see Props/C17_print.v pretty_document).
   Proofs: Proofs/PrettyJson.v (strings, words, arrays, objects, separators, nesting; on top of
   Json/ScanLemmas.v, StringProofs.v, JsonProofs.v) and Proofs/PrettyJsonNum.v (format_f of a
   finite double is a JSON number literal). *)
From Coq Require Import NArith ZArith List Bool.
From JQ Require Import Base.Bytes Num.F64 Json.JValue Json.Decode Json.Encode.
From JQ Require Import Spec.Pure.
From JQ Require Proofs.Pretty Proofs.PrettyJson Proofs.PrettyJsonNum.
Import ListNotations.

(* json_plain j: strings and keys are printable ASCII without quote and backslash, numbers are
   finite valid doubles.  The text print shows for j (nested position: strings quoted) is
   accepted by the decoder, completely consumed, and decodes to j with its object members
   inserted in order into a Go map (jsort; the identity when keys are ascending and unique). *)
Theorem pretty_is_json : forall j,
  json_plain j -> (jdepth j <= max_nesting_depth)%N ->
  decode_next (jrender true j) = DValue (jsort j) [].
Proof. exact Proofs.PrettyJsonNum.pretty_is_json_full. Qed.
Print Assumptions pretty_is_json.

Theorem jsort_sorted : forall j, keys_sorted j -> jsort j = j.
Proof. exact Proofs.PrettyJson.jsort_sorted. Qed.
Print Assumptions jsort_sorted.

(* what print shows for a container document (an array or object built from JSON input)
   decodes to the document's JSON value *)
Theorem pretty_container_is_json :
  forall h p v j, doc_at h p v j -> Pos.le p (Sem.Value.next h) ->
    Proofs.PrettyJson.jcont j = true -> json_plain j -> keys_sorted j ->
    (jdepth j <= max_nesting_depth)%N ->
    exists b, Sem.Value.pretty_string h v = Some b /\ decode_next b = DValue j [].
Proof. exact Proofs.PrettyJsonNum.pretty_container_is_json_full. Qed.
Print Assumptions pretty_container_is_json.

(* ---------------------------------------------------------------- examples *)

Definition ex_doc : jvalue :=
  JObj [(bs "a", JArr [JNum (f_of_Z 1); JStr (bs "x <y>"); JArr []; JBool true; JNull]);
        (bs "b", JObj [(bs "c", JNum (S754_finite true 7205759403792794 (-56)))])].

Lemma ex_plain : json_plain ex_doc.
Proof. repeat constructor. Qed.
Lemma ex_sorted : keys_sorted ex_doc.
Proof. repeat constructor. Qed.

Example pretty_is_json_ex :
  jrender true ex_doc = bs "{""a"": [1, ""x <y>"", [], true, null], ""b"": {""c"": -0.1}}" /\
  decode_next (jrender true ex_doc) = DValue ex_doc [].
Proof.
  split; [vm_compute; reflexivity|].
  rewrite (pretty_is_json ex_doc ex_plain); [|vm_compute; discriminate].
  now rewrite (jsort_sorted ex_doc ex_sorted).
Qed.

Example jsort_sorted_ex : keys_sorted ex_doc /\ jsort ex_doc = ex_doc.
Proof. split; [exact ex_sorted|vm_compute; reflexivity]. Qed.

Example pretty_container_is_json_ex :
  exists b, Sem.Value.pretty_string (snd (Sem.Value.new_value ex_doc Sem.Value.empty_heap))
                                    (fst (Sem.Value.new_value ex_doc Sem.Value.empty_heap)) = Some b /\
            decode_next b = DValue ex_doc [].
Proof.
  destruct (Proofs.Pure.new_value_doc ex_doc Sem.Value.empty_heap _ _ (surjective_pairing _)) as [_ Hd].
  eapply pretty_container_is_json; [exact Hd|apply Pos.le_refl|reflexivity|
    exact ex_plain|exact ex_sorted|vm_compute; discriminate].
Qed.
