(* C18: "printf writes the format string with each %s, %f and %v directive replaced by the
   rendering of the next argument (string, number, any value respectively) and %% by a
   percent sign, and nothing else -- no separators and no added newline.  A width pads the
   rendering on the left to at least that many bytes (on the right for a negative width,
   with zeros when the width is written with a leading 0) and never truncates.  A directive
   whose argument is missing or of the wrong kind, an unknown directive, a dangling % or
   width, or a width beyond the fixed maximum is a runtime error and then nothing of that
   printf is written."

   Specification: Spec/PrintfSpec.v ([parse_format], [render_items], [printf_spec]);
   proofs: Proofs/Printf.v.

   FmtFuel: the model's %v uses the fuelled [pretty_string]; [printf_format] answers
   [FmtFuel] when it returns None.  The headline theorem assumes pretty_string succeeds on
   the arguments (the cleaner reading); [printf_refines_spec_gen] is the hypothesis-free
   form: the internal fuel [S (length fmt)] always suffices, FmtFuel can only come from
   pretty_string failing on an argument, and every output the specification defines is
   produced ([printf_out_iff]). *)
From Coq Require Import ZArith List.
From JQ Require Import Base.Bytes Num.F64 Json.JValue Gen.Generated Sem.Value Sem.Natives.
From JQ Require Import Spec.PrintfSpec Proofs.Printf.
Open Scope Z_scope.

(* ---------------------------------------------------------------- running example *)

(* printf("%-8s %f|%05v\n", "ab", 3.5, [1]) *)
Definition ex_fmt : bytes := bs "%-8s %f|%05v" ++ [10%N].
Definition ex_num : float := SpecFloat.S754_finite false 7 (-1).            (* 3.5 *)
Definition ex_arr : value := fst (new_value (JArr [JNum (f_of_Z 1)]) empty_heap).
Definition ex_heap : heap := snd (new_value (JArr [JNum (f_of_Z 1)]) empty_heap).
Definition ex_args : list value := [VStr (bs "ab"); VNum ex_num; ex_arr].
Definition ex_out : bytes := bs "ab       3.5|00[1]" ++ [10%N].
Definition ex_st : st := mkSt ex_heap [mkFrame (bs "<root>") []] None None None [IoWrite (bs "before")].

(* ---------------------------------------------------------------- the refinement *)

Theorem printf_refines_spec : forall h fmt args,
  Forall (fun v => pretty_string h v <> None) args ->
  printf_format h fmt args = outcome_of (printf_spec h fmt args).
Proof. exact Printf.printf_refines_spec. Qed.
Print Assumptions printf_refines_spec.

Example printf_refines_spec_ex :
  Forall (fun v => pretty_string ex_heap v <> None) ex_args /\
  parse_format ex_fmt = Some [Dir (-8) 32%N DS; Lit 32%N; Dir 0 32%N DF; Lit 124%N;
                              Dir 5 48%N DV; Lit 10%N] /\
  printf_spec ex_heap ex_fmt ex_args = Some ex_out /\
  printf_format ex_heap ex_fmt ex_args = FmtOut ex_out.
Proof.
  split; [repeat constructor; vm_compute; discriminate|].
  repeat split; vm_compute; reflexivity.
Qed.

Theorem printf_refines_spec_gen : forall h fmt args,
  match printf_format h fmt args with
  | FmtFuel => printf_spec h fmt args = None /\
               exists v, In v args /\ pretty_string h v = None
  | r => r = outcome_of (printf_spec h fmt args)
  end.
Proof. exact Printf.printf_refines_spec_gen. Qed.
Print Assumptions printf_refines_spec_gen.

(* both non-fuel branches are inhabited *)
Example printf_refines_spec_gen_ex :
  printf_format ex_heap ex_fmt ex_args = FmtOut ex_out /\
  printf_format ex_heap ex_fmt [VStr (bs "ab")] = FmtErr /\
  printf_spec ex_heap ex_fmt [VStr (bs "ab")] = None.
Proof. repeat split; vm_compute; reflexivity. Qed.

Theorem printf_out_iff : forall h fmt args b,
  printf_format h fmt args = FmtOut b <-> printf_spec h fmt args = Some b.
Proof. exact Printf.printf_out_iff. Qed.
Print Assumptions printf_out_iff.

Example printf_out_iff_ex : printf_spec ex_heap (bs "100%% %v") [VBool true] = Some (bs "100% true").
Proof. vm_compute. reflexivity. Qed.

(* the padding function of the model is the declarative one of the specification *)
Theorem pad_to_is_pad_spec : forall w p s, pad_to w p s = pad_spec w p s.
Proof. exact Printf.pad_to_spec. Qed.
Print Assumptions pad_to_is_pad_spec.

Example pad_to_is_pad_spec_ex : pad_to 5 48%N (bs "[1]") = bs "00[1]".
Proof. vm_compute. reflexivity. Qed.

(* ---------------------------------------------------------------- widths *)

Theorem width_pads : forall w p s,
  length (pad_to w p s) = Nat.max (Z.to_nat (Z.abs w)) (length s).
Proof. exact Printf.fin_width_pads. Qed.
Print Assumptions width_pads.

Example width_pads_ex :
  length (pad_to (-8) 32%N (bs "ab")) = 8%nat /\ length (pad_to 2 32%N (bs "abcdef")) = 6%nat.
Proof. split; vm_compute; reflexivity. Qed.

Theorem never_truncates : forall w p s,
  (0 <= w -> exists fill, pad_to w p s = fill ++ s /\ Forall (eq p) fill) /\
  (w <= 0 -> exists fill, pad_to w p s = s ++ fill /\ Forall (eq p) fill).
Proof. exact Printf.fin_never_truncates. Qed.
Print Assumptions never_truncates.

Example never_truncates_ex : pad_to 2 32%N (bs "abcdef") = bs "abcdef" /\ pad_to (-2) 32%N (bs "abcdef") = bs "abcdef".
Proof. split; vm_compute; reflexivity. Qed.

Theorem pad_left_right : forall w p s,
  (0 <= w -> pad_to w p s = repeat_byte p (Z.to_nat w - length s) ++ s) /\
  (w <= 0 -> pad_to w p s = s ++ repeat_byte p (Z.to_nat (- w) - length s)).
Proof. exact Printf.fin_pad_left_right. Qed.
Print Assumptions pad_left_right.

Example pad_left_right_ex :
  pad_to 5 48%N (bs "ab") = bs "000ab" /\ pad_to (-5) 32%N (bs "ab") = bs "ab   " /\
  (* "%-05s": the text starts with '-', so the pad byte is a space *)
  printf_format empty_heap (bs "%05s|%-05s|") [VStr (bs "ab"); VStr (bs "ab")] = FmtOut (bs "000ab|ab   |").
Proof. repeat split; vm_compute; reflexivity. Qed.

(* ---------------------------------------------------------------- nothing else is written *)

Theorem no_separators_no_newline : forall h fmt args,
  forallb (fun b => negb (is_percent b)) fmt = true ->
  printf_spec h fmt args = Some fmt /\ printf_format h fmt args = FmtOut fmt.
Proof. exact Printf.fin_no_percent. Qed.
Print Assumptions no_separators_no_newline.

Example no_separators_no_newline_ex :
  forallb (fun b => negb (is_percent b)) (bs "a b,c") = true /\
  printf_format empty_heap (bs "a b,c") [VStr (bs "unused")] = FmtOut (bs "a b,c").
Proof. split; vm_compute; reflexivity. Qed.

(* the output of a concatenated format is the concatenation of the outputs; the second
   part goes on with the arguments the first has not consumed *)
Theorem render_concat : forall h a b args ia ra,
  parse_format a = Some ia -> render_items h ia args = Some ra ->
  printf_spec h (a ++ b) args = option_map (app ra) (printf_spec h b (skipn (arity ia) args)) /\
  forall rb, printf_format h b (skipn (arity ia) args) = FmtOut rb <->
             printf_format h (a ++ b) args = FmtOut (ra ++ rb).
Proof. exact Printf.fin_concat. Qed.
Print Assumptions render_concat.

Example render_concat_ex :
  parse_format (bs "%-8s %f") = Some [Dir (-8) 32%N DS; Lit 32%N; Dir 0 32%N DF] /\
  render_items ex_heap [Dir (-8) 32%N DS; Lit 32%N; Dir 0 32%N DF] ex_args = Some (bs "ab       3.5") /\
  printf_format ex_heap (bs "|%05v") (skipn 2 ex_args) = FmtOut (bs "|00[1]") /\
  printf_format ex_heap (bs "%-8s %f" ++ bs "|%05v") ex_args = FmtOut (bs "ab       3.5" ++ bs "|00[1]").
Proof. repeat split; vm_compute; reflexivity. Qed.

(* ---------------------------------------------------------------- errors write nothing *)

(* the io log (the whole state) is unchanged unless the result is NNil, and then exactly one
   IoWrite, of the specified text, is added *)
Theorem error_writes_nothing : forall args this s r s',
  native_call NPrintf args this s = (r, s') ->
  (r = Ok NNil /\ exists fmt rest b, args = VStr fmt :: rest /\
                   printf_spec (hp s) fmt rest = Some b /\ s' = with_write s b) \/
  (r <> Ok NNil /\ s' = s).
Proof. exact Printf.printf_io. Qed.
Print Assumptions error_writes_nothing.

Example error_writes_nothing_ex :
  native_call NPrintf (VStr ex_fmt :: ex_args) None ex_st = (Ok NNil, with_write ex_st ex_out) /\
  io (with_write ex_st ex_out) = [IoWrite ex_out; IoWrite (bs "before")] /\
  (* the third argument is missing: the first two directives are not written either *)
  native_call NPrintf (VStr ex_fmt :: [VStr (bs "ab"); VNum ex_num]) None ex_st = (Ok NError, ex_st) /\
  native_call NPrintf [VNum ex_num] None ex_st = (Ok NError, ex_st).
Proof. repeat split; vm_compute; reflexivity. Qed.

Theorem spec_none_is_error : forall fmt args this s,
  printf_spec (hp s) fmt args = None -> printf_is_error fmt args this s.
Proof. exact Printf.spec_none_is_error. Qed.
Print Assumptions spec_none_is_error.

Example spec_none_is_error_ex : printf_spec (hp ex_st) (bs "%s") [] = None.
Proof. vm_compute. reflexivity. Qed.

Theorem success_writes_once : forall fmt rest this s b,
  printf_spec (hp s) fmt rest = Some b ->
  native_call NPrintf (VStr fmt :: rest) this s = (Ok NNil, with_write s b).
Proof. exact Printf.printf_success_writes_once. Qed.
Print Assumptions success_writes_once.

Example success_writes_once_ex : printf_spec (hp ex_st) ex_fmt ex_args = Some ex_out.
Proof. vm_compute. reflexivity. Qed.

(* ---------------------------------------------------------------- the width limit *)

(* for a width text denoting w (anywhere in a format, after a well-formed prefix):
   beyond the generated limit the format is malformed; within it the directive is accepted *)
Theorem width_limit : forall pre ipre wtxt w d rest,
  parse_format pre = Some ipre -> is_width_text wtxt = true -> width_of wtxt = Some w ->
  (printf_width_limit < Z.abs w -> continues_width wtxt d = false ->
     parse_format (pre ++ 37%N :: wtxt ++ d :: rest) = None /\
     forall args this s, printf_is_error (pre ++ 37%N :: wtxt ++ d :: rest) args this s) /\
  (Z.abs w <= printf_width_limit -> forall k, kind_of d = Some k ->
     parse_format (pre ++ 37%N :: wtxt ++ d :: rest) =
     option_map (fun its => ipre ++ Dir w (pad_of wtxt) k :: its) (parse_format rest)).
Proof. exact Printf.fin_width_limit. Qed.
Print Assumptions width_limit.

Example width_limit_ex :
  parse_format (bs "a%%") = Some [Lit 97%N; Dir 0 32%N DPercent] /\
  is_width_text (bs "-0065537") = true /\ width_of (bs "-0065537") = Some (-65537) /\
  printf_width_limit < Z.abs (-65537) /\ continues_width (bs "-0065537") 115%N = false /\
  printf_format empty_heap (bs "a%%" ++ 37%N :: bs "-0065537" ++ 115%N :: bs "|") [VStr (bs "x")] = FmtErr /\
  width_of (bs "65536") = Some 65536 /\ 65536 <= printf_width_limit /\ kind_of 115%N = Some DS /\
  parse_format (bs "a%%" ++ 37%N :: bs "65536" ++ 115%N :: bs "|") =
    Some [Lit 97%N; Dir 0 32%N DPercent; Dir 65536 32%N DS; Lit 124%N].
Proof. repeat split; vm_compute; try reflexivity; discriminate. Qed.

(* the same on numbers: the width written in decimal *)
Theorem width_limit_decimal : forall pre ipre w d rest,
  parse_format pre = Some ipre ->
  (printf_width_limit < Z.abs w -> is_digit d = false ->
     parse_format (pre ++ 37%N :: dec_of_Z w ++ d :: rest) = None /\
     forall args this s, printf_is_error (pre ++ 37%N :: dec_of_Z w ++ d :: rest) args this s) /\
  (Z.abs w <= printf_width_limit -> forall k, kind_of d = Some k ->
     parse_format (pre ++ 37%N :: dec_of_Z w ++ d :: rest) =
     option_map (fun its => ipre ++ Dir w (pad_of (dec_of_Z w)) k :: its) (parse_format rest)).
Proof. exact Printf.fin_width_limit_decimal. Qed.
Print Assumptions width_limit_decimal.

Example width_limit_decimal_ex :
  dec_of_Z (printf_width_limit + 1) = bs "65537" /\ dec_of_Z (- printf_width_limit) = bs "-65536" /\
  printf_format empty_heap (37%N :: dec_of_Z (printf_width_limit + 1) ++ bs "s") [VStr (bs "x")] = FmtErr /\
  parse_format (37%N :: dec_of_Z (- printf_width_limit) ++ bs "s") = Some [Dir (- printf_width_limit) 32%N DS] /\
  (exists out, printf_format empty_heap (37%N :: dec_of_Z 3000 ++ bs "s") [VStr (bs "x")] = FmtOut out
               /\ length out = 3000%nat).
Proof.
  repeat split; try (vm_compute; reflexivity).
  eexists. split; vm_compute; reflexivity.
Qed.

(* ---------------------------------------------------------------- malformed directives *)

(* a '%' ([wtxt] = []) or a width ([wtxt] <> []) with which the format ends *)
Theorem dangling_percent : forall pre ipre wtxt,
  parse_format pre = Some ipre -> is_width_text wtxt = true ->
  parse_format (pre ++ 37%N :: wtxt) = None /\
  forall args this s, printf_is_error (pre ++ 37%N :: wtxt) args this s.
Proof. exact Printf.fin_dangling. Qed.
Print Assumptions dangling_percent.

Example dangling_percent_ex :
  parse_format (bs "ab%5s") = Some [Lit 97%N; Lit 98%N; Dir 5 32%N DS] /\
  is_width_text [] = true /\ is_width_text (bs "12") = true /\
  printf_format empty_heap (bs "ab%5s" ++ 37%N :: []) [VStr (bs "x")] = FmtErr /\
  printf_format empty_heap (bs "ab%5s" ++ 37%N :: bs "12") [VStr (bs "x")] = FmtErr /\
  (* but "%%" at the end is a percent sign *)
  printf_format empty_heap (bs "ab%%") [] = FmtOut (bs "ab%").
Proof. repeat split; vm_compute; reflexivity. Qed.

Theorem unknown_directive : forall pre ipre wtxt d rest,
  parse_format pre = Some ipre -> is_width_text wtxt = true -> continues_width wtxt d = false ->
  (d <> 115 /\ d <> 102 /\ d <> 118 /\ d <> 37)%N ->
  parse_format (pre ++ 37%N :: wtxt ++ d :: rest) = None /\
  forall args this s, printf_is_error (pre ++ 37%N :: wtxt ++ d :: rest) args this s.
Proof. exact Printf.fin_unknown_directive. Qed.
Print Assumptions unknown_directive.

Example unknown_directive_ex :
  parse_format (bs "x") = Some [Lit 120%N] /\ continues_width (bs "3") 100%N = false /\
  printf_format empty_heap (bs "x" ++ 37%N :: bs "3" ++ 100%N :: bs "!") [VNum ex_num] = FmtErr.
Proof. repeat split; vm_compute; reflexivity. Qed.

(* "%-" followed by a letter: "-" alone is an invalid width *)
Theorem lone_minus : forall pre ipre d rest,
  parse_format pre = Some ipre -> is_digit d = false ->
  parse_format (pre ++ 37%N :: 45%N :: d :: rest) = None /\
  forall args this s, printf_is_error (pre ++ 37%N :: 45%N :: d :: rest) args this s.
Proof. exact Printf.fin_lone_minus. Qed.
Print Assumptions lone_minus.

Example lone_minus_ex :
  printf_format empty_heap (bs "%-s") [VStr (bs "x")] = FmtErr /\
  printf_format empty_heap (bs "%-1s") [VStr (bs "x")] = FmtOut (bs "x").
Proof. split; vm_compute; reflexivity. Qed.

Theorem missing_or_wrong_arg : forall pre ipre wtxt d k rest args this s out,
  parse_format pre = Some ipre -> render_items (hp s) ipre args = Some out ->
  is_width_text wtxt = true -> kind_of d = Some k ->
  unusable_arg k (skipn (arity ipre) args) ->
  printf_spec (hp s) (pre ++ 37%N :: wtxt ++ d :: rest) args = None /\
  printf_is_error (pre ++ 37%N :: wtxt ++ d :: rest) args this s.
Proof. exact Printf.fin_missing_or_wrong_arg. Qed.
Print Assumptions missing_or_wrong_arg.

Example missing_or_wrong_arg_ex :
  parse_format (bs "%s ") = Some [Dir 0 32%N DS; Lit 32%N] /\
  render_items (hp ex_st) [Dir 0 32%N DS; Lit 32%N] [VStr (bs "ab"); VStr (bs "3.5")] = Some (bs "ab ") /\
  kind_of 102%N = Some DF /\
  (* wrong kind: a string under %f *)
  unusable_arg DF (skipn 1 [VStr (bs "ab"); VStr (bs "3.5")]) /\
  native_call NPrintf [VStr (bs "%s %4f"); VStr (bs "ab"); VStr (bs "3.5")] None ex_st = (Ok NError, ex_st) /\
  (* missing *)
  unusable_arg DV (skipn 1 [VStr (bs "ab")]) /\
  native_call NPrintf [VStr (bs "%s %v"); VStr (bs "ab")] None ex_st = (Ok NError, ex_st) /\
  (* surplus arguments are ignored *)
  printf_format (hp ex_st) (bs "%s") [VStr (bs "ab"); VNum ex_num] = FmtOut (bs "ab").
Proof. repeat split; vm_compute; reflexivity. Qed.
