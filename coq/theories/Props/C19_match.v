(* C19: match expressions.  Final statements only; proofs in Proofs/Match.v, the structural
   matcher (pm_alt / pm_elems / pm_alts), case_result, body_result, match_state, pop_state are
   in Spec/MatchSpec.v.  The EMatch branch of eval_expr is
     let* subject := eval_expr f v in eval_match_cases f t subject cases. *)
From Coq Require Import Lia.
From JQ Require Import Base.Bytes Num.F64 Syntax.Token Syntax.Lexer Syntax.Ast Syntax.Parser.
From JQ Require Import Json.JValue Json.Decode.
From JQ Require Import Gen.Generated Sem.Value Sem.Ops Sem.Natives Sem.Eval Sem.Driver.
From JQ Require Import Spec.Schedule Spec.MatchSpec Proofs.AssocCanon Proofs.Match.
Open Scope nat_scope.

(* ---- helpers for the examples ---- *)
Definition run_out (p inp : string) : outcome * bytes :=
  let r := eval_program 3000 (bs p) [(bs "f.json", mkR [bs inp] false)] [] false in
  (r_outcome r, output_of (io (r_state r))).
Definition is_runtime (o : outcome) : bool := match o with ORuntime _ => true | _ => false end.
Ltac conjs := repeat match goal with |- _ /\ _ => split end.
(* the cases of the match expression in  `{ print match (...) { cases } }` *)
Definition cases_of (p : string) : list (list expr * stmt) :=
  match parse_program (bs p) with
  | POk prog _ =>
    match prules prog with
    | r :: _ => match rbody r with
                | SBlock _ [SPrint _ [EMatch _ _ cs]] => cs
                | _ => []
                end
    | [] => []
    end
  | _ => []
  end.
Definition pats_of (p : string) (i : nat) : list expr := fst (nth i (cases_of p) ([], SReturn None)).
Definition body_of (p : string) (i : nat) : stmt := snd (nth i (cases_of p) ([], SReturn None)).
(* a state whose cell [subj] holds the array [1, 9] *)
Definition st_arr : st * addr :=
  let '(v, h) := new_value (JArr [JNum (f_of_Z 1); JNum (f_of_Z 9)]) empty_heap in
  let '(a, h2) := alloc h v in
  (mkSt h2 [mkFrame (bs "<root>") []] (Some a) None None [], a).
Definition P1 : string :=
  "{ print match ($) { [1, x], [x] => x, [a, b] => a + b, 1 => ""one"", 2, 3 => ""few"", y => y } }".
Definition ecm1 (i : nat) := eval_case_match (bs P1) [] false 20 (snd st_arr) (pats_of P1 i) (fst st_arr).

(* no case (left): the value is a fresh null cell *)
Theorem no_case_null :
  forall (src : bytes) (funcs : list func) (fz : bool) f t subject s,
    eval_match_cases src funcs fz (S f) t subject [] s
    = (Ok (next (hp s)),
       mkSt (snd (alloc (hp s) (VNil None))) (frames s) (rule_root s) (root s) (retval s) (io s)) /\
    load (snd (alloc (hp s) (VNil None))) (next (hp s)) = VNil None.
Proof. exact C19_no_case_null. Qed.
Print Assumptions no_case_null.

Example no_case_null_ex :
  run_out "{ print match ($) { 1 => ""one"" } }" "[1,2]" = (OOk, bs "one
null
").
Proof. vm_compute. reflexivity. Qed.

(* the first case one of whose alternatives matches decides: the result is that of its body, run with the bindings of the match (case_result: Spec/MatchSpec.v) *)
Theorem first_case_wins :
  forall (src : bytes) (funcs : list func) (fz : bool) f t subject pats body rest s b s1,
    eval_case_match src funcs fz f subject pats s = (Ok (Some b), s1) ->
    eval_match_cases src funcs fz (S f) t subject ((pats, body) :: rest) s
    = case_result src funcs fz f t b body s1.
Proof. exact C19_first_case_wins. Qed.
Print Assumptions first_case_wins.

(* [1,9] against `[1, x], [x]`: matches the first alternative, x bound to the second cell *)
Example first_case_wins_ex :
  run_out P1 "[1, 3, [4,5], [7], [1, 9], ""z""]" = (OOk, bs "one
few
9
7
9
z
") /\
  match ecm1 0 with
  | (Ok (Some [(k, _)]), _) => k = bs "x"
  | _ => False
  end.
Proof. split; vm_compute; reflexivity. Qed.

(* unless the first case fails to match, the later cases are irrelevant: neither their patterns nor their bodies are evaluated *)
Theorem later_cases_untouched :
  forall (src : bytes) (funcs : list func) (fz : bool) f t subject pats body rest s r s1,
    eval_case_match src funcs fz f subject pats s = (r, s1) -> r <> Ok None ->
    eval_match_cases src funcs fz (S f) t subject ((pats, body) :: rest) s
    = eval_match_cases src funcs fz (S f) t subject [(pats, body)] s.
Proof. exact C19_later_cases_untouched. Qed.
Print Assumptions later_cases_untouched.

(* the second case has an unsupported pattern (-1) and a printing body: neither is touched
   when the first case matches; when it does not, the pattern is evaluated and is an error *)
Example later_cases_untouched_ex :
  run_out "{ print match ($) { 1 => ""one"", -1 => { print ""never"" } } }" "[1]" = (OOk, bs "one
") /\
  is_runtime (fst (run_out "{ print match ($) { 1 => ""one"", -1 => { print ""never"" } } }" "[2]")) = true /\
  fst (ecm1 0) <> Ok None.
Proof. conjs; vm_compute; try reflexivity. discriminate. Qed.

(* a case none of whose alternatives matches is skipped: its body is not run and the next case is tried in the state its patterns left *)
Theorem nonmatching_case_skipped :
  forall (src : bytes) (funcs : list func) (fz : bool) f t subject pats body rest s s1,
    eval_case_match src funcs fz f subject pats s = (Ok None, s1) ->
    eval_match_cases src funcs fz (S f) t subject ((pats, body) :: rest) s
    = eval_match_cases src funcs fz f t subject rest s1.
Proof. exact C19_nonmatching_case_skipped. Qed.
Print Assumptions nonmatching_case_skipped.

(* [1,9] against the fourth case `1`: an array never equals a number -- that is an error of
   ==, not a mismatch; against `2, 3` too.  Against `[x]` alone (length differs): no match *)
Example nonmatching_case_skipped_ex :
  run_out "{ print match ($) { [x] => 1, [a, b] => 2 } }" "[[1,9]]" = (OOk, bs "2
") /\
  fst (eval_case_match (bs "{ print match ($) { [x] => 1, [a, b] => 2 } }") [] false 20 (snd st_arr)
         (pats_of "{ print match ($) { [x] => 1, [a, b] => 2 } }" 0) (fst st_arr)) = Ok None /\
  is_runtime (fst (run_out "{ print match ($) { 1 => 1 } }" "[[1]]")) = true.
Proof. conjs; vm_compute; reflexivity. Qed.

(* a literal alternative: the literal is evaluated (to lit_cell), it matches with no bindings iff  subject == literal, an incomparable pair is an error at the literal, otherwise the NEXT ALTERNATIVE is tried; a failing literal propagates *)
Theorem literal_pattern_is_eq :
  forall (src : bytes) (funcs : list func) (fz : bool) f subject t rest s,
    (forall cv s1, eval_expr src funcs fz f (ELit t) s = (Ok cv, s1) ->
       eval_case_match src funcs fz (S f) subject (ELit t :: rest) s
       = match equals_values (load (hp s1) subject) (load (hp s1) cv) with
         | EqOk true => (Ok (Some []), s1)
         | EqOk false => eval_case_match src funcs fz f subject rest s1
         | EqErr => rt_error src t s1
         | EqUnsupp => (Unsupp, s1)
         end) /\
    (forall r s1, eval_expr src funcs fz f (ELit t) s = (r, s1) -> is_ok r = false ->
       eval_case_match src funcs fz (S f) subject (ELit t :: rest) s = (recast r, s1)) /\
    eval_expr src funcs fz (S f) (ELit t) = lit_cell src t.
Proof. exact C19_literal_pattern_is_eq. Qed.
Print Assumptions literal_pattern_is_eq.

Example literal_pattern_is_eq_ex :
  run_out "{ print match ($) { 1, ""a"" => ""hit"", null => ""nil"" } }" "[1, ""a"", null, 2]"
  = (OOk, bs "hit
hit
nil
null
") /\
  (* == coerces: true == 1 *)
  run_out "{ print match ($) { 1 => ""hit"" } }" "[true]" = (OOk, bs "hit
") /\
  (* number/string comparison is by the == operator: "1" == 1 *)
  run_out "{ print match ($) { 1 => ""hit"" } }" "[""1""]" = (OOk, bs "hit
") /\
  match pats_of P1 0 with
  | EArr _ (ELit t :: _) :: _ =>
    match eval_expr (bs P1) [] false 5 (ELit t) (fst st_arr) with
    | (Ok c, s1) => load (hp s1) c = VNum (f_of_Z 1)
    | _ => False
    end
  | _ => False
  end.
Proof. conjs; vm_compute; reflexivity. Qed.

(* an identifier alternative always matches and binds the subject CELL itself (no copy) under its name; later alternatives are not looked at *)
Theorem ident_pattern_binds :
  forall (src : bytes) (funcs : list func) (fz : bool) f subject t rest s,
    eval_case_match src funcs fz (S f) subject (EId t :: rest) s
    = match get_string src t with
      | Some name => (Ok (Some [(name, subject)]), s)
      | None => (Panic, s)
      end.
Proof. exact C19_ident_pattern_binds. Qed.
Print Assumptions ident_pattern_binds.

(* the binding is the subject cell itself: assigning to it changes the matched element *)
Example ident_pattern_binds_ex :
  run_out "{ print match ($) { [a, b] => a = 5 } } ENDFILE { print }" "[[1,2]]" = (OOk, bs "5
[[5, 2]]
") /\
  match pats_of P1 0 with
  | EArr _ (_ :: EId t :: _) :: _ => get_string (bs P1) t = Some (bs "x")
  | _ => False
  end.
Proof. conjs; vm_compute; reflexivity. Qed.

(* with enough fuel (alts_fuel, linear in the patterns) the model's evalCaseMatch IS the structural matcher pm_alts of Spec/MatchSpec.v; and that matcher, on an array alternative: a non-array subject or a different length fails; otherwise the cells are matched against the sub-patterns position by position, left to right, the bindings merged left to right, and the first failing element fails the alternative; a failed alternative (array ones included: this was the fixed defect) hands over to the next alternative *)
Theorem array_pattern_spec :
  forall (src : bytes) (funcs : list func) (fz : bool),
    (forall n pats subject s, alts_fuel pats <= n ->
       eval_case_match src funcs fz n subject pats s = pm_alts src pats subject s) /\
    (forall t items subject s,
       pm_alt src (EArr t items) subject s
       = match load (hp s) subject with
         | VArr bid off len =>
           if Nat.eqb len (length items)
           then pm_elems src items (arr_cells (hp s) bid off len) [] s
           else (Ok None, s)
         | _ => (Ok None, s)
         end) /\
    (forall acc s, pm_elems src [] [] acc s = (Ok (Some acc), s)) /\
    (forall q ps c cs acc s,
       pm_elems src (q :: ps) (c :: cs) acc s
       = match pm_alt src q c s with
         | (Ok (Some nb), s1) => pm_elems src ps cs (merge nb acc) s1
         | (Ok None, s1) => (Ok None, s1)
         | (other, s1) => (recast other, s1)
         end) /\
    (forall p rest subject s,
       pm_alts src (p :: rest) subject s
       = match pm_alt src p subject s with
         | (Ok (Some b), s1) => (Ok (Some b), s1)
         | (Ok None, s1) => pm_alts src rest subject s1
         | (other, s1) => (recast other, s1)
         end) /\
    (forall ts names cs acc s,
       map (get_string src) ts = map Some names -> length cs = length ts ->
       pm_elems src (map EId ts) cs acc s = (Ok (Some (merge (combine names cs) acc)), s)).
Proof. exact C19_array_pattern_spec. Qed.
Print Assumptions array_pattern_spec.

(* [4,5] against `[1, x], [x]`: the first alternative fails at its first element, the second
   on the length, so the case fails and `[a, b]` gets its turn (9 = 4 + 5).
   A repeated name keeps the later binding. *)
Example array_pattern_spec_ex :
  run_out P1 "[[4,5]]" = (OOk, bs "9
") /\
  run_out "{ print match ($) { [a, a] => a } }" "[[1,2]]" = (OOk, bs "2
") /\
  run_out "{ print match ($) { [[a, b], [c]] => a + b + c, [] => ""empty"" } }" "[[[1,2],[3]], []]" = (OOk, bs "6
empty
") /\
  alts_fuel (pats_of P1 0) <= 20 /\
  ecm1 0 = pm_alts (bs P1) (pats_of P1 0) (snd st_arr) (fst st_arr).
Proof. conjs; vm_compute; try reflexivity. lia. Qed.

(* the body of the matched case starts in a pushed frame named <match> whose locals are exactly the bindings (they are a canonical, name-sorted map), so a bound name resolves to its bound cell and every other name as outside; if the call-depth limit is exceeded instead, that is an error at the match token *)
Theorem bindings_visible_in_body :
  forall (src : bytes) (funcs : list func) (fz : bool) f t b body s,
    (Z.ltb call_depth_limit (Z.of_nat (length (frames s))) = false ->
       case_result src funcs fz f t b body s
       = let '(r, s3) := body_result src funcs fz f body (match_state s b) in
         match pop_state s3 with Some s4 => (r, s4) | None => (Panic, s3) end) /\
    (Z.ltb call_depth_limit (Z.of_nat (length (frames s))) = true ->
       case_result src funcs fz f t b body s = rt_error src t s) /\
    (forall n pats subject s0, eval_case_match src funcs fz n subject pats s0 = (Ok (Some b), s) ->
       keys_sorted b) /\
    (keys_sorted b ->
       frames (match_state s b) = mkFrame (bs "<match>") b :: frames s /\
       hp (match_state s b) = hp s /\ rule_root (match_state s b) = rule_root s /\
       forall k, lookup_frames (frames (match_state s b)) k
                 = match assoc_get k b with
                   | Some a => Some a
                   | None => lookup_frames (frames s) k
                   end).
Proof. exact C19_bindings_visible_in_body. Qed.
Print Assumptions bindings_visible_in_body.

Example bindings_visible_in_body_ex :
  run_out "{ z = 100; print match ($) { [a, b] => a + b + z } }" "[[1,2]]" = (OOk, bs "103
") /\
  Z.ltb call_depth_limit (Z.of_nat (length (frames (fst st_arr)))) = false /\
  match ecm1 1 with
  | (Ok (Some b), s) =>
    lookup_frames (frames (match_state s b)) (bs "b") <> None /\
    lookup_frames (frames (match_state s b)) (bs "zz") = None
  | _ => False
  end.
Proof. conjs; vm_compute; try reflexivity. split; [discriminate|reflexivity]. Qed.

(* a body that is not an expression statement yields a fresh null cell when it completes; any other outcome of it is the outcome of the body *)
Theorem block_body_null :
  forall (src : bytes) (funcs : list func) (fz : bool) f body s2,
    is_block_body body = true ->
    body_result src funcs fz f body s2
    = match eval_stmt src funcs fz f body s2 with
      | (Ok _, s3) =>
        (Ok (next (hp s3)),
         mkSt (snd (alloc (hp s3) (VNil None))) (frames s3) (rule_root s3) (root s3) (retval s3) (io s3))
      | (other, s3) => (recast other, s3)
      end.
Proof. exact C19_block_body_null. Qed.
Print Assumptions block_body_null.

Example block_body_null_ex :
  run_out "{ v = match ($) { x => { print ""blk"", x } } print v }" "[5]" = (OOk, bs "blk 5
null
") /\
  is_block_body (SBlock zero_token []) = true.
Proof. conjs; vm_compute; reflexivity. Qed.

(* an expression body yields the very cell the expression evaluates to *)
Theorem expr_body_value :
  forall (src : bytes) (funcs : list func) (fz : bool) f x s2,
    body_result src funcs fz f (SExpr x) s2 = eval_expr src funcs fz f x s2.
Proof. exact C19_expr_body_value. Qed.
Print Assumptions expr_body_value.

Example expr_body_value_ex :
  run_out "{ print match ($) { x => x * 2 } }" "[5]" = (OOk, bs "10
").
Proof. vm_compute. reflexivity. Qed.

(* whatever the outcome of the body (value, error, next/exit/break/continue/return, fuel), the <match> frame is popped: unless the result is a Go panic, the final state is the state the body ended in minus its top frame, and the outcome is the body's (Props/C08_frames.v match_balanced adds that the stack of frame names is then the one before the match) *)
Theorem match_frame_popped :
  forall (src : bytes) (funcs : list func) (fz : bool) f t b body s r s',
    Z.ltb call_depth_limit (Z.of_nat (length (frames s))) = false ->
    case_result src funcs fz f t b body s = (r, s') -> r <> Panic ->
    exists s3,
      body_result src funcs fz f body (match_state s b) = (r, s3) /\
      pop_state s3 = Some s' /\
      frames s' = tl (frames s3) /\ hp s' = hp s3 /\ io s' = io s3 /\
      rule_root s' = rule_root s3 /\ root s' = root s3 /\ retval s' = retval s3.
Proof. exact C19_match_frame_popped. Qed.
Print Assumptions match_frame_popped.

(* after the match its bindings are gone (x is a new, unset variable); exit / return from
   inside a case body leave through the popped frame *)
Example match_frame_popped_ex :
  run_out "{ v = match ($) { x => x } print v, x }" "[5]" = (OOk, bs "5 <unknown>
") /\
  run_out "{ print match ($) { x => { exit } } } END { print 8 }" "[5]" = (OOk, []) /\
  run_out "function f(v) { return match (v) { x => { return 3 } } } { print f($) }" "[5]" = (OOk, bs "3
") /\
  match ecm1 1 with
  | (Ok (Some b), s) =>
    match case_result (bs P1) [] false 20 zero_token b (body_of P1 1) s with
    | (Ok _, s') => length (frames s') = length (frames s)
    | _ => False
    end
  | _ => False
  end.
Proof. conjs; vm_compute; reflexivity. Qed.

