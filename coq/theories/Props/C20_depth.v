(* C20 (call depth): "call nesting beyond a fixed limit of a few thousand frames [is refused]
   (so runaway recursion of any shape -- direct, mutual, through match bodies -- ends in an
   error) [...] Everything up to each limit works normally."

   The limit is [call_depth_limit] of Gen/Generated.v (generated from the Go source);
   [depth_ok s] (Spec/EvalInvSpec.v) = the stack holds at most call_depth_limit + 1 frames,
   <root> included; [pushed name s] = s with a fresh frame on top. *)
From Coq Require Import List String ZArith.
From JQ Require Import Base.Bytes Syntax.Token Syntax.Lexer Syntax.Ast Syntax.Parser Json.Decode.
From JQ Require Import Gen.Generated Sem.Value Sem.Eval Sem.Driver.
From JQ Require Import Spec.EvalInvSpec Proofs.EvalInv Proofs.EvalFaults Proofs.EvalDepth.
Import ListNotations.

(* pushFrame refuses exactly when the stack already holds more than call_depth_limit frames *)
Theorem push_refused_iff : forall name s,
  fst (push_frame name s) = Ok false <-> (call_depth_limit < Z.of_nat (length (frames s)))%Z.
Proof. exact push_frame_false_iff. Qed.
Print Assumptions push_refused_iff.

Theorem push_refused_unchanged : forall name s,
  (call_depth_limit < Z.of_nat (length (frames s)))%Z -> push_frame name s = (Ok false, s).
Proof. exact push_frame_refuses. Qed.
Print Assumptions push_refused_unchanged.

(* everything up to the limit works: the push succeeds *)
Theorem below_limit_ok : forall name s,
  (Z.of_nat (length (frames s)) <= call_depth_limit)%Z -> push_frame name s = (Ok true, pushed name s).
Proof. exact push_frame_succeeds. Qed.
Print Assumptions below_limit_ok.

(* the bound is an invariant of every function of the evaluator and of the driver, for
   every outcome: the stack never grows beyond it *)
Theorem depth_invariant : everywhere (fun A m => keeps depth_ok m).
Proof. exact depth_invariant_all. Qed.
Print Assumptions depth_invariant.

Theorem depth_invariant_push : forall name, keeps depth_ok (push_frame name).
Proof. exact push_frame_keeps_depth. Qed.
Print Assumptions depth_invariant_push.

Theorem depth_invariant_run : forall src prog fz sels n files r s',
  run_body src prog fz sels n files init_state = (r, s') -> depth_ok s'.
Proof. exact EvalDepth.depth_invariant_run. Qed.
Print Assumptions depth_invariant_run.

(* a refused push is a runtime error raised at the call / at the match, not a panic *)
Theorem runtime_error_shape : forall A src t s,
  exists e, @rt_error src A t s =
            (Err e, mkSt (hp s) (frames s) (rule_root s) (root s) (retval s) (IoRaise :: io s)) /\
            ekind_of e = ERuntime.
Proof. exact @rt_error_is_runtime. Qed.
Print Assumptions runtime_error_shape.

Theorem push_refused_is_runtime_error_call : forall src funcs fz n tok fc args s idx fn name,
  load (hp s) fc = VFn idx ->
  nth_error funcs idx = Some fn ->
  get_string src (fident fn) = Some name ->
  (call_depth_limit < Z.of_nat (length (frames s)))%Z ->
  call_function src funcs fz (S n) tok fc args s = rt_error src tok s.
Proof. exact call_push_refused. Qed.
Print Assumptions push_refused_is_runtime_error_call.

Theorem push_refused_is_runtime_error_match : forall src funcs fz n t sub pats body rest s bindings s1,
  eval_case_match src funcs fz n sub pats s = (Ok (Some bindings), s1) ->
  (call_depth_limit < Z.of_nat (length (frames s1)))%Z ->
  eval_match_cases src funcs fz (S n) t sub ((pats, body) :: rest) s = rt_error src t s1.
Proof. exact match_push_refused. Qed.
Print Assumptions push_refused_is_runtime_error_match.

(* ------------------------------------------------------------------ non-vacuity *)

Definition big : nat := 100000.
Definition is_runtime (o : outcome) : bool := match o with ORuntime _ => true | _ => false end.

(* 4096 nested calls work normally ... *)
Example ex_below_limit :
  let r := eval_program big
    (bs "function f(x) { if (x > 0) { return f(x-1) } return 0 } BEGIN { print f(4095) }") [] [] false in
  r_outcome r = OOk /\ output_of (io (r_state r)) = [48%N; 10%N].
Proof. vm_compute. split; reflexivity. Qed.

(* ... one more is refused with a runtime error; the stack is unwound to <root> *)
Example ex_beyond_limit :
  let r := eval_program big
    (bs "function f(x) { if (x > 0) { return f(x-1) } return 0 } BEGIN { print f(4096) }") [] [] false in
  is_runtime (r_outcome r) = true /\ io (r_state r) = [IoRaise] /\ length (frames (r_state r)) = 1.
Proof. vm_compute. repeat split. Qed.

(* runaway recursion: direct, mutual, through a match body -- a runtime error every time,
   with the output printed before it kept and nothing after it *)
Example ex_runaway_direct :
  let r := eval_program big (bs "function f(x) { return f(x+1) } BEGIN { print 1; f(1); print 2 }") [] [] false in
  is_runtime (r_outcome r) = true /\ io (r_state r) = [IoRaise; IoWrite [10%N]; IoWrite [49%N]].
Proof. vm_compute. split; reflexivity. Qed.

Example ex_runaway_mutual :
  let r := eval_program big
    (bs "function g(x) { return f(x) } function f(x) { return g(x) } BEGIN { print 1; f(1); print 2 }") [] [] false in
  is_runtime (r_outcome r) = true /\ io (r_state r) = [IoRaise; IoWrite [10%N]; IoWrite [49%N]].
Proof. vm_compute. split; reflexivity. Qed.

Example ex_runaway_match :
  let r := eval_program big
    (bs "function f(x) { return match (x) { 1 => f(1), } } BEGIN { print 1; f(1); print 2 }") [] [] false in
  is_runtime (r_outcome r) = true /\ io (r_state r) = [IoRaise; IoWrite [10%N]; IoWrite [49%N]].
Proof. vm_compute. split; reflexivity. Qed.

(* the hypotheses of the push lemmas are satisfiable on both sides of the limit *)
Definition deep (k : nat) : st := mkSt empty_heap (repeat (mkFrame (bs "f") []) k) None None None [].
Example ex_push_refused : fst (push_frame (bs "f") (deep 4097)) = Ok false /\ depth_ok (deep 4097).
Proof. vm_compute. split; [reflexivity|discriminate]. Qed.
Example ex_push_accepted :
  push_frame (bs "f") (deep 4096) = (Ok true, pushed (bs "f") (deep 4096)) /\ depth_ok (deep 4096).
Proof. split; [apply below_limit_ok; vm_compute; discriminate|vm_compute; discriminate]. Qed.
