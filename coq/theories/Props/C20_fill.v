(* Props/C20_fill.v -- C20 (part): the auto-fill of arrays is bounded by the generated
   constant [fill_limit] (Gen/Generated.v, from Value.SetMember in src/value.go).
   Statements only; proofs in Proofs/Arrays.v. *)
From Coq Require Import List ZArith Bool Lia.
From JQ Require Import Base.Bytes Num.F64 Gen.Generated.
From JQ Require Import Sem.Value Sem.Natives Sem.Eval.
From JQ Require Import Spec.IdealList Proofs.Arrays Props.C15_arrays.
Import ListNotations.
Open Scope nat_scope.

(* extending an array to an index beyond the limit is refused: an error, nothing changes *)
Theorem fill_refused_above_limit : forall s pa f cell l,
  wf_holder (hp s) pa -> abs (hp s) pa = Some l ->
  (Z.of_nat (length l) <= f_trunc_int64 f)%Z -> (fill_limit < f_trunc_int64 f)%Z ->
  set_member pa (VNum f) cell s = (Ok None, s).
Proof. exact Arrays.fill_refused_above_limit. Qed.
Print Assumptions fill_refused_above_limit.
Example fill_refused_above_limit_ex :
  wf_holder ex_h ex_pa /\ abs ex_h ex_pa = Some ex_l /\
  (Z.of_nat (length ex_l) <= f_trunc_int64 (f_of_Z (fill_limit + 1)))%Z /\
  (fill_limit < f_trunc_int64 (f_of_Z (fill_limit + 1)))%Z /\
  set_member ex_pa (VNum (f_of_Z (fill_limit + 1))) 1%positive (st_of ex_h) = (Ok None, st_of ex_h).
Proof. split; [apply ex_wf|]. vm_compute. repeat split; reflexivity || discriminate. Qed.

(* up to and including the limit the store succeeds; the array is padded with null, and at
   most (index - length + 1) new cells come into existence *)
Theorem fill_ok_at_limit : forall s pa f cell l,
  wf_holder (hp s) pa -> abs (hp s) pa = Some l ->
  cell <> pa -> (cell < next (hp s))%positive ->
  (Z.of_nat (length l) <= f_trunc_int64 f <= fill_limit)%Z ->
  exists item h',
    set_member pa (VNum f) cell s = (Ok (Some item), set_hp s h') /\
    abs h' pa = Some (l ++ repeat nil_value (Z.to_nat (f_trunc_int64 f) - length l) ++ [load (hp s) cell]) /\
    wf_holder h' pa /\
    exists news, length news <= Z.to_nat (f_trunc_int64 f) - length l + 1 /\
                 forall a, allocated h' a -> allocated (hp s) a \/ In a news.
Proof. exact Arrays.fill_ok_at_limit. Qed.
Print Assumptions fill_ok_at_limit.

(* the hypotheses are satisfiable AT the limit (an array of fill_limit + 1 elements) ... *)
Example fill_ok_at_limit_ex :
  wf_holder ex_h ex_pa /\ abs ex_h ex_pa = Some ex_l /\ 1%positive <> ex_pa /\
  (1 < next ex_h)%positive /\
  (Z.of_nat (length ex_l) <= f_trunc_int64 (f_of_Z fill_limit) <= fill_limit)%Z.
Proof. split; [apply ex_wf|]. vm_compute. repeat split; reflexivity || discriminate. Qed.
(* ... and a small run *)
Example fill_small_ex :
  abs (hp (snd (set_member ex_pa (VNum (f_of_Z 6)) 2%positive (st_of ex_h)))) ex_pa
  = Some (ex_l ++ [VNil None; VNil None; VNil None; VNum f_one]).
Proof. vm_compute. reflexivity. Qed.

Corollary fill_allocates_at_most : forall s pa f cell l,
  wf_holder (hp s) pa -> abs (hp s) pa = Some l ->
  cell <> pa -> (cell < next (hp s))%positive ->
  (Z.of_nat (length l) <= f_trunc_int64 f <= fill_limit)%Z ->
  exists news, length news <= Z.to_nat (f_trunc_int64 f) - length l + 1 /\
    forall a, allocated (hp (snd (set_member pa (VNum f) cell s))) a -> allocated (hp s) a \/ In a news.
Proof.
  intros s pa f cell l Hwf Habs Hcp Hclt Hr.
  destruct (Arrays.fill_ok_at_limit s pa f cell l Hwf Habs Hcp Hclt Hr) as (item & h' & Heq & _ & _ & news & Hlen & Hdom).
  exists news. split; [exact Hlen|]. rewrite Heq. exact Hdom.
Qed.
Print Assumptions fill_allocates_at_most.
