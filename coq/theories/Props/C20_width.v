(* C20, printf part: "a printf width beyond 65536 [is refused] ... a width of a few thousand
   works".  The limit is the generated constant [printf_width_limit] (Gen/Generated.v); no
   statement below mentions its value.  Specification: Spec/PrintfSpec.v; proofs:
   Proofs/Printf.v; the two-sided limit theorem on the grammar is C18_printf.width_limit. *)
From Coq Require Import ZArith List.
From JQ Require Import Base.Bytes Num.F64 Json.JValue Gen.Generated Sem.Value Sem.Natives.
From JQ Require Import Spec.PrintfSpec Proofs.Printf.
Open Scope Z_scope.

(* every width that survives parsing is within the limit *)
Theorem widths_within_limit : forall fmt its,
  parse_format fmt = Some its -> Forall width_ok its.
Proof. exact Printf.parse_widths_ok. Qed.
Print Assumptions widths_within_limit.

Example widths_within_limit_ex :
  parse_format (bs "%-8s %f|%05v") =
    Some [Dir (-8) 32%N DS; Lit 32%N; Dir 0 32%N DF; Lit 124%N; Dir 5 48%N DV] /\
  parse_format (bs "%65536s%-65536v") = Some [Dir 65536 32%N DS; Dir (-65536) 32%N DV] /\
  parse_format (bs "%65537s") = None.
Proof. repeat split; vm_compute; reflexivity. Qed.

(* one directive adds at most [printf_width_limit] pad bytes to the rendering of its argument *)
Theorem pad_bytes_bound : forall w p s, Z.abs w <= printf_width_limit ->
  (length s <= length (pad_to w p s) <= length s + Z.to_nat printf_width_limit)%nat.
Proof. exact Printf.fin_pad_bytes_bound. Qed.
Print Assumptions pad_bytes_bound.

Example pad_bytes_bound_ex : length (pad_to 3000 32%N (bs "ab")) = 3000%nat.
Proof. vm_compute. reflexivity. Qed.

(* any successful printf: all widths are within the limit, and the text written is the text
   of the same printf without widths ([raw]) plus at most [printf_width_limit] pad bytes for
   each directive that takes an argument *)
Theorem width_bound : forall h fmt args out,
  printf_format h fmt args = FmtOut out ->
  exists its raw,
    parse_format fmt = Some its /\ Forall width_ok its /\
    render_items h (map strip_width its) args = Some raw /\
    (length raw <= length out <= length raw + arity its * Z.to_nat printf_width_limit)%nat.
Proof. exact Printf.printf_width_bound. Qed.
Print Assumptions width_bound.

Example width_bound_ex :
  let fmt := bs "%-8s %f|%05v" in
  let args := [VStr (bs "ab"); VNum (SpecFloat.S754_finite false 7 (-1)); VBool true] in
  printf_format empty_heap fmt args = FmtOut (bs "ab       3.5|0true") /\
  (exists its, parse_format fmt = Some its /\ arity its = 3%nat /\
     render_items empty_heap (map strip_width its) args = Some (bs "ab 3.5|true")).
Proof.
  split; [vm_compute; reflexivity|].
  eexists. split; [vm_compute; reflexivity|]. split; vm_compute; reflexivity.
Qed.

(* a width within the limit, written in decimal, is accepted and honoured *)
Theorem width_below_limit_ok : forall h w s,
  Z.abs w <= printf_width_limit ->
  printf_format h (37%N :: dec_of_Z w ++ [115%N]) [VStr s] = FmtOut (pad_to w (pad_of (dec_of_Z w)) s).
Proof. exact Printf.fin_width_below_limit_ok. Qed.
Print Assumptions width_below_limit_ok.

(* "a width of a few thousand works" *)
Example width_below_limit_ok_ex :
  Z.abs 3000 <= printf_width_limit /\ 37%N :: dec_of_Z 3000 ++ [115%N] = bs "%3000s" /\
  (exists out, printf_format empty_heap (bs "%3000s") [VStr (bs "ab")] = FmtOut out /\
               length out = 3000%nat /\ skipn 2998 out = bs "ab") /\
  (exists out, printf_format empty_heap (bs "%-3000s") [VStr (bs "ab")] = FmtOut out /\
               length out = 3000%nat /\ firstn 3 out = bs "ab ").
Proof.
  split; [vm_compute; discriminate|]. split; [vm_compute; reflexivity|].
  split; eexists; (split; [vm_compute; reflexivity|]); split; vm_compute; reflexivity.
Qed.

(* a width beyond the limit, written in decimal: runtime error, nothing written *)
Theorem width_beyond_limit_refused : forall w args this s,
  printf_width_limit < Z.abs w ->
  printf_is_error (37%N :: dec_of_Z w ++ [115%N]) args this s.
Proof. exact Printf.fin_width_beyond_limit_refused. Qed.
Print Assumptions width_beyond_limit_refused.

Example width_beyond_limit_refused_ex :
  let s := mkSt empty_heap [mkFrame (bs "<root>") []] None None None [] in
  printf_width_limit < Z.abs (printf_width_limit + 1) /\
  37%N :: dec_of_Z (printf_width_limit + 1) ++ [115%N] = bs "%65537s" /\
  native_call NPrintf [VStr (bs "%65537s"); VStr (bs "ab")] None s = (Ok NError, s) /\
  native_call NPrintf [VStr (bs "%-65537s"); VStr (bs "ab")] None s = (Ok NError, s).
Proof. repeat split; vm_compute; reflexivity. Qed.
