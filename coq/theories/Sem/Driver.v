(* The driver: mirror of NewEvaluator, EvalProgram, evalExpression (root selectors) and
   GetRootJson in src/evaluator.go. *)
From JQ Require Import Base.Bytes Num.F64 Syntax.Token Syntax.Lexer Syntax.Ast Syntax.Parser.
From JQ Require Import Json.JValue Json.Decode Json.Encode.
From JQ Require Import Gen.Generated Sem.Value Sem.Natives Sem.Eval.
Open Scope nat_scope.

Inductive outcome :=
| OOk
| OSyntax (e : errinfo)
| ORuntime (e : errinfo)
| OJson
| ORaw                  (* an error value that is none of the three kinds: a leaked signal *)
| OPanic
| OFuel
| OUnsupp.

Definition syntax_error (src : bytes) (pos : nat) : errinfo :=
  let '(text, line, col) := get_line_col src pos in mkErr ESyntax line col text.

(* readRules *)
Definition rules_of_kind (k : rule_kind) (rs : list rule) : list rule :=
  filter (fun r => match rkind r, k with
                   | BeginRule, BeginRule | EndRule, EndRule | BeginFileRule, BeginFileRule
                   | EndFileRule, EndFileRule | PatternRule, PatternRule => true
                   | _, _ => false end) rs.

(* NewEvaluator: <root> frame with printf/json/num, then the program's functions *)
Fixpoint add_functions (src : bytes) (fns : list func) (idx : nat) : M unit :=
  match fns with
  | [] => ret tt
  | fn :: rest =>
    match get_string src (fident fn) with
    | None => fail Panic
    | Some name =>
      (let* c := m_alloc (VFn idx) in set_local name c) ;;;
      add_functions src rest (S idx)
    end
  end.

Definition new_evaluator (src : bytes) (fns : list func) : M unit :=
  set_frames [mkFrame (bs "<root>") []] ;;;
  (let* c := m_alloc (VNative NPrintf None) in set_local (bs "printf") c) ;;;
  (let* c := m_alloc (VNative NJson None) in set_local (bs "json") c) ;;;
  (let* c := m_alloc (VNative NNum None) in set_local (bs "num") c) ;;;
  add_functions src fns 0.

(* straySignalError: next/break/continue/return that reach the driver become runtime
   errors at [tok]; exit and everything else pass through *)
Definition stray {A} (src : bytes) (tok : option token) (r : res A) : M A :=
  match r with
  | Sig SigExit => fail (Sig SigExit)
  | Sig sg =>
    let* st0 := get_st in
    (* next/break/continue are reported where they were executed (e.signalToken);
       the caller computes the fallback token first, as Go evaluates the argument *)
    match tok with
    | None => fail Panic                  (* StatementReturn{nil}.Token() *)
    | Some t =>
      match sg, last_signal_token (io st0) with
      | SigReturn, _ | _, None => rt_error src t
      | _, Some t' => rt_error src t'
      end
    end
  | other => reraise other
  end.

(* evalExpression(exprSrc, rootValue, stdout): a root selector runs in its own evaluator
   (own frames, empty program) that shares the heap and stdout. Result: the root cell. *)
Definition eval_selector (n : nat) (sel : bytes) (doc : jvalue) : M addr := fun s0 =>
  match parse_expression_src sel with
  | PErr pos => raise_err (syntax_error sel pos) s0
  | PFuel => (Fuel, s0)
  | PPanic => (Panic, s0)
  | POk e _ =>
    let run : M addr :=
      new_evaluator sel [] ;;;
      let* rv := with_heap (new_value doc) in
      let* rc := m_alloc rv in
      set_root (Some rc) ;;;
      set_rule_root (Some rc) ;;;
      let* r := catch (eval_expr sel [] false n e) in
      match r with
      | Ok c =>
        (* the result is copied like the right-hand side of an assignment *)
        let* v := m_load c in
        match copy_value v with
        | Some v' => m_alloc v'
        | None => rt_error sel (expr_token e)
        end
      | other => stray sel (Some (expr_token e)) other
      end in
    let '(r, s1) := run (mkSt (hp s0) [] None None None (io s0)) in
    (r, mkSt (hp s1) (frames s0) (rule_root s0) (root s0) (retval s0) (io s1))
  end.

Section Run.
  Variable src : bytes.
  Variable prog : program.
  Variable fuzzing : bool.
  Variable selectors : list bytes.
  Variable n : nat.                   (* fuel for every evaluation *)

  Let ev_stmt := eval_stmt src (pfuncs prog) fuzzing n.

  (* the four kinds of special rule: body only, stray signals become errors *)
  Fixpoint run_special (rs : list rule) (mk_root : M addr) : M unit :=
    match rs with
    | [] => ret tt
    | r :: rest =>
      let* a := mk_root in
      set_rule_root (Some a) ;;;
      let* res0 := catch (ev_stmt (rbody r)) in
      match res0 with
      | Ok _ => run_special rest mk_root
      | other => stray src (stmt_token (rbody r)) other
      end
    end.

  Definition begin_rules := rules_of_kind BeginRule (prules prog).
  Definition end_rules := rules_of_kind EndRule (prules prog).
  Definition beginfile_rules := rules_of_kind BeginFileRule (prules prog).
  Definition endfile_rules := rules_of_kind EndFileRule (prules prog).
  Definition pattern_rules := rules_of_kind PatternRule (prules prog).

  (* one root cell: BEGINFILE rules, pattern rules, ENDFILE rules *)
  Definition process_root (rc : addr) : M unit :=
    let* root_val := m_load rc in
    run_special beginfile_rules (ret rc) ;;;
    set_root (Some rc) ;;;
    eval_pattern_rules src (pfuncs prog) fuzzing n pattern_rules ;;;
    run_special endfile_rules (m_alloc root_val).

  Fixpoint select_roots (doc : jvalue) (sels : list bytes) : M (list addr) :=
    match sels with
    | [] => ret []
    | s :: rest =>
      let* c := eval_selector n s doc in
      let* cs := select_roots doc rest in
      ret (c :: cs)
    end.

  Fixpoint process_roots (rcs : list addr) : M unit :=
    match rcs with
    | [] => ret tt
    | rc :: rest => process_root rc ;;; process_roots rest
    end.

  (* one decoded JSON value of a file *)
  Definition process_value (name : bytes) (doc : jvalue) : M unit :=
    (let* c := m_alloc (VStr name) in set_global (bs "$file") c) ;;;
    let* rcs :=
      match selectors with
      | [] =>
        let* rv := with_heap (new_value doc) in
        let* rc := m_alloc rv in
        ret [rc]
      | _ => select_roots doc selectors
      end in
    process_roots rcs.

  Definition io_of (e : io_ev) : io_event :=
    match e with
    | EvRead k => IoRead k
    | EvReadEOF => IoReadEOF
    | EvReadFail => IoReadFail
    end.

  (* for { d.Decode(&v); io.EOF -> break; err -> JsonError; process } *)
  Fixpoint decode_loop (k : nat) (name : bytes) (d : dstate) : M unit :=
    match k with
    | O => fail Fuel
    | S k' =>
      let '(r, d', evs) := dec_step d in
      log_io (map io_of evs) ;;;
      match r with
      | SEof => ret tt
      | SErr => raise_err (mkErr EJson 0 0 name)
      | SUnsupported => fail Unsupp
      | SValue doc => process_value name doc ;;; decode_loop k' name d'
      end
    end.

  Fixpoint run_files (files : list (bytes * reader)) : M unit :=
    match files with
    | [] => ret tt
    | (name, rd) :: rest =>
      let total := fold_left (fun a c => a + length c) (chunks rd) 0 in
      decode_loop (S (S total)) name (dec_init rd) ;;;
      run_files rest
    end.

  Definition run_body (files : list (bytes * reader)) : M unit :=
    new_evaluator src (pfuncs prog) ;;;
    run_special begin_rules (m_alloc (VNil None)) ;;;
    run_files files ;;;
    run_special end_rules (m_alloc (VNil None)).
End Run.

Record run_result := mkRun {
  r_outcome : outcome;
  r_state : st
}.

Definition init_state : st := mkSt empty_heap [] None None None [].

Definition classify (r : res unit) : outcome :=
  match r with
  | Ok _ => OOk
  | Sig SigExit => OOk                        (* exit ends the run successfully *)
  | Sig _ => ORaw
  | Err e => match ekind_of e with
             | ESyntax => OSyntax e
             | ERuntime => ORuntime e
             | EJson => OJson
             end
  | Panic => OPanic
  | Fuel => OFuel
  | Unsupp => OUnsupp
  end.

(* EvalProgram(progSrc, files, rootSelectors, stdout, fuzzing) *)
Definition eval_program (n : nat) (src : bytes) (files : list (bytes * reader))
           (selectors : list bytes) (fuzzing : bool) : run_result :=
  match parse_program src with
  | PErr pos => mkRun (OSyntax (syntax_error src pos)) init_state
  | PFuel => mkRun OFuel init_state
  | PPanic => mkRun OPanic init_state
  | POk prog _ =>
    let '(r, s) := run_body src prog fuzzing selectors n files init_state in
    mkRun (classify r) s
  end.

(* Evaluator.GetRootJson *)
Inductive json_out := JsonText (b : bytes) | JsonError | JsonFuel.
Definition get_root_json (s : st) : json_out :=
  match root s with
  | None => JsonText (bs "null")
  | Some a =>
    match to_go_value (hp s) (load (hp s) a) with
    | GoOk j => match marshal_indent j with Some b => JsonText b | None => JsonError end
    | GoErr => JsonError
    | GoFuel => JsonFuel
    end
  end.

(* the exported EvalExpression: an exit inside the expression only ends its evaluation *)
Record expr_result := mkExprRes { x_outcome : outcome; x_state : st; x_pretty : option bytes }.
Definition eval_expression_api (n : nat) (sel : bytes) (doc : jvalue) : expr_result :=
  let '(r, s) := eval_selector n sel doc init_state in
  match r with
  | Ok c =>
    mkExprRes OOk s (pretty_string (hp s) (load (hp s) c))
  | Sig SigExit => mkExprRes OOk s (Some (bs "null"))
  | other => mkExprRes (classify (match other with
                                  | Ok _ => Ok tt | Err e => Err e | Sig x => Sig x
                                  | Panic => Panic | Fuel => Fuel | Unsupp => Unsupp end)) s None
  end.
