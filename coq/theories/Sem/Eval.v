(* The tree-walking evaluator: mirror of src/evaluator.go (evalExpr, evalUnaryExpr,
   evalBinaryExpr, evalCaseMatch, callFunction, createSpeculativeObjects, evalAssignment,
   evalExprList, evalStatement, evalRules, evalPatternRules), function for function and
   branch for branch.  Recursion is on fuel; Go panic sites are explicit [Panic]. *)
From JQ Require Import Base.Bytes Num.F64 Syntax.Token Syntax.Lexer Syntax.Ast.
From JQ Require Import Json.JValue.
From JQ Require Import Oracle.Utf8.
From JQ Require Oracle.Regex.
From JQ Require Import Gen.Generated Sem.Value Sem.Ops Sem.Natives.
Open Scope nat_scope.

(* run m and hand back its outcome as a value: Go code that inspects `err` itself *)
Definition catch {A} (m : M A) : M (res A) := fun s => let '(r, s') := m s in (Ok r, s').
(* re-raise an outcome *)
Definition reraise {A B} (r : res A) : M B :=
  match r with
  | Ok _ => fail Panic   (* not used with Ok *)
  | Err e => fail (Err e)
  | Sig x => fail (Sig x)
  | Panic => fail Panic
  | Fuel => fail Fuel
  | Unsupp => fail Unsupp
  end.


Section Evaluator.
  Variable src : bytes.            (* the text the evaluator's lexer holds *)
  Variable funcs : list func.      (* Program.Functions *)
  Variable fuzzing : bool.

  (* Evaluator.error(token, msg) *)
  Definition rt_error {A} (t : token) : M A :=
    let '(text, line, col) := get_line_col src (tpos t) in
    raise_err (mkErr ERuntime line col text).

  (* Lexer.GetString: an out-of-range slice panics *)
  Definition tok_string (t : token) : M bytes :=
    match get_string src t with
    | Some s => ret s
    | None => fail Panic
    end.

  (* evalString: \n \t \\ are the only escapes; None = error *)
  Fixpoint eval_string (s : bytes) : option bytes :=
    match s with
    | [] => Some []
    | 92%N :: [] => None
    | 92%N :: c :: r =>
      let out := if N.eqb c 110 then Some 10%N
                 else if N.eqb c 92 then Some 92%N
                 else if N.eqb c 116 then Some 9%N
                 else None in
      match out, eval_string r with
      | Some b, Some rest => Some (b :: rest)
      | _, _ => None
      end
    | b :: r => match eval_string r with Some rest => Some (b :: rest) | None => None end
    end.

  (* getIdentifier *)
  Definition get_identifier (t : token) : M addr :=
    if tag_eqb (ttag t) TDollar then
      let* s := get_st in
      match rule_root s with
      | Some a => ret a
      | None => rt_error t
      end
    else
      let* name := tok_string t in
      let* r := get_variable name in
      match r with
      | Some a => ret a
      | None => rt_error t
      end.

  Definition bool_cell (b : bool) : M addr := m_alloc (VBool b).
  Definition nil_cell : M addr := m_alloc (VNil None).

  (* Value.SetMember(member, cell) on the value stored in cell [recv];
     None = error *)
  Definition set_member (recv : addr) (m : value) (cell : addr) : M (option addr) :=
    let* rv := m_load recv in
    let* h := get_heap in
    match rv with
    | VArr bid off len =>
      match m with
      | VNum f =>
        match get_member h rv m with
        | GmErr => ret None
        | GmCell item =>
          let* cv := m_load cell in
          m_store item cv ;;; ret (Some item)
        | _ =>
          (* past the end: fill with empty cells up to the index *)
          let index := f_trunc_int64 f in
          if Z.ltb fill_limit index then ret None
          else
            let count := Z.to_nat (index - Z.of_nat len + 1) in
            let fix fill (k : nat) (last : addr) : M addr :=
              match k with
              | O => ret last
              | S k' =>
                let* c := nil_cell in
                upd_heap (fun h => append_at h recv c) ;;;
                fill k' c
              end in
            let* item := fill count dummy_addr in
            let* cv := m_load cell in
            m_store item cv ;;; ret (Some item)
        end
      | _ => ret None
      end
    | VObj oid =>
      upd_heap (fun h => set_obj h oid (assoc_set (to_str m) cell (get_obj h oid))) ;;;
      ret (Some cell)
    | _ => ret None
    end.

  (* createSpeculativeObjects; None = error *)
  Fixpoint create_speculative (n : nat) (spec : addr) : M (option addr) :=
    match n with
    | O => fail Fuel
    | S f =>
      let* sv := m_load spec in
      (* a speculative nil names its parent and key; a method found through the prototype
         (a bound copy: Binding = ParentObj = the receiver, key = the method's name) is in
         the same position *)
      let target_of :=
        match sv with
        | VNil (Some (parent, key)) => Some (parent, key)
        | VNative nf (Some parent) => Some (parent, KStr (native_name nf))
        | _ => None
        end in
      match target_of with
      | Some (parent, key) =>
        let* pv := m_load parent in
        match pv with
        | VNil None => ret None                      (* could not create this object *)
        | _ =>
          let member := match key with KStr s => VStr s | KNum x => VNum x end in
          let* target :=
            match pv with
            | VNil (Some _) =>
              let* pcopy := m_alloc pv in
              let* np := create_speculative f pcopy in
              match np with
              | None => ret None
              | Some newparent =>
                let* nv := with_heap (match member with
                                      | VStr _ => new_empty_object
                                      | _ => new_empty_array end) in
                m_store newparent nv ;;; ret (Some newparent)
              end
            | _ => ret (Some parent)
            end in
          match target with
          | None => ret None
          | Some obj => set_member obj member spec
          end
        end
      | None => fail Panic                            (* speculative object has no Str or Num *)
      end
    end.

  (* evalAssignment(expr, left, right); errors are reported at [tok] = expr.Token() *)
  Definition eval_assignment (n : nat) (tok : token) (left right : addr) : M addr :=
    let* lv := m_load left in
    let* left' :=
      match lv with
      | VNil (Some _) | VNative _ (Some _) =>
        let* r := create_speculative n left in
        match r with
        | Some c => ret c
        | None => rt_error tok
        end
      | _ => ret left
      end in
    let* rv := m_load right in
    match copy_value rv with
    | Some v => m_store left' v ;;; ret left'
    | None => rt_error tok
    end.

  (* a value-level result at the tokens of the expression *)
  Definition lift_vres (r : vres) (tl top tr : token) : M addr :=
    match r with
    | VOk v => m_alloc v
    | VErrLeft => rt_error tl
    | VErrOp => rt_error top
    | VErrRight => rt_error tr
    | VUnsupp => fail Unsupp
    end.

  Definition as_float_m (v : value) : M float :=
    match as_float v with Some f => ret f | None => fail Unsupp end.

  (* writes of the print statement *)
  Definition pretty_m (v : value) : M bytes :=
    let* h := get_heap in
    match pretty_string h v with Some b => ret b | None => fail Fuel end.

  Fixpoint print_args (cells : list addr) (first : bool) : M unit :=
    match cells with
    | [] => ret tt
    | c :: r =>
      (if first then ret tt else emit (bs " ")) ;;;
      let* v := m_load c in
      let* p := pretty_m v in
      emit p ;;;
      print_args r false
    end.

  (* the value-level part of a binary operator, after both operands are evaluated *)
  Fixpoint eval_expr (n : nat) (e : expr) {struct n} : M addr :=
    match n with
    | O => fail Fuel
    | S f =>
      match e with
      | ELit t =>
        match litk_of (ttag t) with
        | LStr =>
          let* s := tok_string t in
          match eval_string s with
          | Some b => m_alloc (VStr b)
          | None => rt_error t
          end
        | LRegex => let* s := tok_string t in m_alloc (VRegex s)
        | LNum =>
          let* s := tok_string t in
          match parse_float s with
          | PFok x => m_alloc (VNum x)
          | PFunsupported => fail Unsupp
          | _ => rt_error t
          end
        | LTrue => bool_cell true
        | LFalse => bool_cell false
        | LNull => nil_cell
        | LOther => fail Panic                        (* unhandled literal type *)
        end
      | EUn x op postfix => eval_unary f x op postfix
      | EBin l r op => eval_binary f l r op
      | EId t => get_identifier t
      | ECall fn args =>
        let* fc := eval_expr f fn in
        let* cells := eval_expr_list f args true in
        let* h := get_heap in
        call_function f (expr_token e) fc (map (load h) cells)
      | EArr t items =>
        let* cells := eval_expr_list f items true in
        let* v := with_heap (fun h => new_array_of h cells) in
        m_alloc v
      | EMatch t v cases =>
        let* subject := eval_expr f v in
        eval_match_cases f t subject cases
      | EObj t items =>
        let* o := with_heap new_empty_object in
        match o with
        | VObj oid =>
          (fix fields (l : list (bytes * expr)) : M unit :=
             match l with
             | [] => ret tt
             | (k, x) :: r =>
               let* vc := eval_expr f x in
               let* v := m_load vc in
               match copy_value v with
               | None => rt_error t
               | Some v' =>
                 let* c := m_alloc v' in
                 upd_heap (fun h => set_obj h oid (assoc_set k c (get_obj h oid))) ;;;
                 fields r
               end
             end) items ;;;
          m_alloc o
        | _ => fail Panic
        end
      end
    end

  (* the cases of a match expression, in source order *)
  with eval_match_cases (n : nat) (t : token) (subject : addr)
                        (cases : list (list expr * stmt)) {struct n} : M addr :=
    match n with
    | O => fail Fuel
    | S f =>
      match cases with
      | [] => nil_cell
      | (pats, body) :: rest =>
        let* m := eval_case_match f subject pats in
        match m with
        | None => eval_match_cases f t subject rest
        | Some bindings =>
          let* ok := push_frame (bs "<match>") in
          if negb ok then rt_error t
          else
            (fix bindall (l : list (bytes * addr)) : M unit :=
               match l with
               | [] => ret tt
               | (k, a) :: r => set_local k a ;;; bindall r
               end) bindings ;;;
            let* r :=
              match body with
              | SExpr x => catch (eval_expr f x)
              | _ =>
                let* r0 := catch (eval_stmt f body) in
                match r0 with
                | Ok _ => let* c := nil_cell in ret (Ok c)
                | Err e0 => ret (Err e0)
                | Sig x => ret (Sig x)
                | Panic => ret Panic
                | Fuel => ret Fuel
                | Unsupp => ret Unsupp
                end
              end in
            pop_frame ;;;
            match r with
            | Ok c => ret c
            | other => reraise other
            end
        end
      end
    end

  (* evalCaseMatch(value, exprs): Some bindings = match *)
  with eval_case_match (n : nat) (subject : addr) (pats : list expr) {struct n}
    : M (option (list (bytes * addr))) :=
    match n with
    | O => fail Fuel
    | S f =>
      match pats with
      | [] => ret None
      | p :: rest =>
        match p with
        | ELit _ =>
          let* cv := eval_expr f p in
          let* a := m_load subject in
          let* b := m_load cv in
          match equals_values a b with
          | EqOk true => ret (Some [])
          | EqOk false => eval_case_match f subject rest
          | EqErr => rt_error (expr_token p)
          | EqUnsupp => fail Unsupp
          end
        | EArr _ items =>
          let* sv := m_load subject in
          match sv with
          | VArr bid off len =>
            if negb (Nat.eqb len (length items)) then eval_case_match f subject rest
            else
              let* h := get_heap in
              let* r :=
                (fix elems (cs : list addr) (ps : list expr) (acc : list (bytes * addr))
                   : M (option (list (bytes * addr))) :=
                   match cs, ps with
                   | c :: cs', q :: ps' =>
                     let* m := eval_case_match f c [q] in
                     match m with
                     | None => ret None
                     | Some nb =>
                       elems cs' ps' (fold_left (fun a kv => assoc_set (fst kv) (snd kv) a) nb acc)
                     end
                   | _, _ => ret (Some acc)
                   end) (arr_cells h bid off len) items [] in
              match r with
              | Some b => ret (Some b)
              | None => eval_case_match f subject rest
              end
          | _ => eval_case_match f subject rest
          end
        | EId t =>
          let* name := tok_string t in
          ret (Some [(name, subject)])
        | _ => rt_error (expr_token p)
        end
      end
    end

  (* callFunction(exp, fn, args); [tok] = exp.Token() *)
  with call_function (n : nat) (tok : token) (fc : addr) (args : list value) {struct n} : M addr :=
    match n with
    | O => fail Fuel
    | S f =>
      let* fv := m_load fc in
      match fv with
      | VNative nat_fn binding =>
        let* r := native_call nat_fn args binding in
        match r with
        | NError => rt_error tok
        | NVal v => m_alloc v
        | NNil => nil_cell
        end
      | VFn idx =>
        match nth_error funcs idx with
        | None => fail Panic
        | Some fn =>
          let* name := tok_string (fident fn) in
          let* ok := push_frame name in
          if negb ok then rt_error tok
          else
            (fix bindp (ps : list bytes) (avs : list value) : M unit :=
               match ps with
               | [] => ret tt
               | p :: ps' =>
                 match avs with
                 | [] => (let* c := nil_cell in set_local p c) ;;; bindp ps' []
                 | v :: avs' => (let* c := m_alloc v in set_local p c) ;;; bindp ps' avs'
                 end
               end) (fparams fn) args ;;;
            let* r := catch (eval_stmt f (fbody fn)) in
            pop_frame ;;;
            match r with
            | Ok _ => nil_cell
            | Sig SigReturn =>
              let* s := get_st in
              match retval s with
              | Some rc => let* v := m_load rc in m_alloc v
              | None => nil_cell
              end
            | other => reraise other
            end
        end
      | _ => rt_error tok                              (* attempted to call a ... *)
      end
    end

  (* evalUnaryExpr *)
  with eval_unary (n : nat) (x : expr) (op : token) (postfix : bool) {struct n} : M addr :=
    match n with
    | O => fail Fuel
    | S f =>
      let* vc := eval_expr f x in
      let* v := m_load vc in
      let incdec (up : bool) : M addr :=
        let* old := as_float_m v in
        let newv := if up then f_add old f_one else f_sub old f_one in
        let* nc := m_alloc (VNum newv) in
        let* stored := eval_assignment f op vc nc in
        if postfix then m_alloc (VNum old)
        else let* sv := m_load stored in m_alloc sv in
      match uop_of (ttag op) with
      | UNot | UPos | UNeg => lift_vres (unop_value (uop_of (ttag op)) v) op op op
      | UInc => incdec true
      | UDec => incdec false
      | UOther => rt_error op
      end
    end

  (* evalBinaryExpr *)
  with eval_binary (n : nat) (l r : expr) (op : token) {struct n} : M addr :=
    match n with
    | O => fail Fuel
    | S f =>
      let* lc := eval_expr f l in
      let* lv := m_load lc in
      let o := bop_of (ttag op) in
      (* the operators that need the evaluated right operand *)
      (* Go keeps the left *Cell and reads left.Value only after the right operand has been
         evaluated: side effects of the right operand on that cell are visible *)
      let with_right (k : addr -> value -> value -> M addr) : M addr :=
        let* rc := eval_expr f r in
        let* rv := m_load rc in
        let* lv2 := m_load lc in
        k rc lv2 rv in
      let by_value : M addr :=
        with_right (fun rc lv rv =>
          lift_vres (binop_value o lv rv) (expr_token l) op (expr_token r)) in
      match o with
      | BAnd =>
        if is_truthy lv then
          let* rc := eval_expr f r in
          let* rv := m_load rc in
          bool_cell (is_truthy rv)
        else bool_cell false
      | BOr =>
        if is_truthy lv then bool_cell true
        else
          let* rc := eval_expr f r in
          let* rv := m_load rc in
          bool_cell (is_truthy rv)
      | BIs =>
        match r with
        | EId t =>
          match isk_of (ttag t) with
          | IsFunction => bool_cell (match lv with VFn _ => true | _ => false end)
          | IsNull => bool_cell (match lv with VNil _ => true | _ => false end)
          | IsName =>
            let* name := tok_string t in
            bool_cell (is_type_name lv name)
          end
        | _ => rt_error (expr_token r)
        end
      | BMember =>
        with_right (fun rc lv rv =>
          (* an unset variable becomes an array or an object on first member access *)
          let* lv' :=
            match lv with
            | VUnknown =>
              let* nv := with_heap (match rv with
                                    | VNum _ => new_empty_array
                                    | _ => new_empty_object end) in
              m_store lc nv ;;; ret nv
            | _ => ret lv
            end in
          let* h := get_heap in
          match get_member h lv' rv with
          | GmErr => rt_error (expr_token l)
          | GmNone =>
            let key := match rv with VNum x => KNum x | _ => KStr (to_str rv) end in
            m_alloc (VNil (Some (lc, key)))
          | GmFresh v => m_alloc v
          | GmNative nf => m_alloc (VNative nf (Some lc))
          | GmCell c =>
            let* cv := m_load c in
            match cv with
            | VNative nf _ => m_alloc (VNative nf (Some lc))
            | _ => ret c
            end
          end)
      | BLt | BGt | BEq | BNe | BLe | BGe
      | BAdd | BSub | BMul | BDiv | BMod
      | BMatch | BNoMatch => by_value
      | BAssign => with_right (fun rc _ _ => eval_assignment f (expr_token l) lc rc)
      | BOther => with_right (fun _ _ _ => rt_error op)
      end
    end

  (* evalExprList(exprs, copy) *)
  with eval_expr_list (n : nat) (es : list expr) (copy : bool) {struct n} : M (list addr) :=
    match n with
    | O => fail Fuel
    | S f =>
      match es with
      | [] => ret []
      | x :: rest =>
        let* c := eval_expr f x in
        let* c' :=
          (if copy then
             let* v := m_load c in
             match copy_value v with
             | Some v' => m_alloc v'
             | None => rt_error (expr_token x)
             end
           else ret c) in
        let* cs := eval_expr_list f rest copy in
        ret (c' :: cs)
      end
    end

  (* evalStatement *)
  with eval_stmt (n : nat) (s : stmt) {struct n} : M unit :=
    match n with
    | O => fail Fuel
    | S f =>
      match s with
      | SBlock _ body =>
        (fix seq (l : list stmt) : M unit :=
           match l with
           | [] => ret tt
           | x :: r => eval_stmt f x ;;; seq r
           end) body
      | SPrint _ args =>
        let* cells := eval_expr_list f args false in
        match cells with
        | [] =>
          let* st0 := get_st in
          match rule_root st0 with
          | None => fail Panic                          (* e.ruleRoot is nil *)
          | Some a =>
            let* v := m_load a in
            let* p := pretty_m v in
            emit (p ++ [10%N])
          end
        | _ => print_args cells true ;;; emit [10%N]
        end
      | SExpr x => let* _ := eval_expr f x in ret tt
      | SReturn (Some x) =>
        let* c := eval_expr f x in
        set_retval (Some c) ;;; fail (Sig SigReturn)
      | SReturn None => set_retval None ;;; fail (Sig SigReturn)
      | SIf c body els =>
        let* cc := eval_expr f c in
        let* cv := m_load cc in
        if is_truthy cv then eval_stmt f body
        else match els with Some e => eval_stmt f e | None => ret tt end
      | SWhile c body => eval_while f c body 0
      | SFor pre c post body =>
        let* _ := eval_expr f pre in
        eval_for f c post body 0
      | SForIn id ix iter body =>
        let* name := tok_string id in
        let* lo := get_variable name in
        match lo with
        | None => rt_error id
        | Some local =>
          let* ixlocal :=
            match ix with
            | None => ret None
            | Some t =>
              let* iname := tok_string t in
              let* r := get_variable iname in
              match r with
              | Some a => ret (Some a)
              | None => rt_error id
              end
            end in
          let* ic := eval_expr f iter in
          let* iv := m_load ic in
          match iv with
          | VArr bid off len => eval_forin_arr f local ixlocal bid off len 0 body
          | VObj oid =>
            let* h := get_heap in
            eval_forin_obj f local ixlocal oid (map fst (get_obj h oid)) body
          | VStr str => eval_forin_str f local ixlocal (runes str) body
          | _ => rt_error (expr_token iter)
          end
        end
      | SBreak t => note_signal t ;;; fail (Sig SigBreak)
      | SContinue t => note_signal t ;;; fail (Sig SigContinue)
      | SNext t => note_signal t ;;; fail (Sig SigNext)
      | SExit _ => fail (Sig SigExit)
      end
    end

  (* one loop body execution: Ok true = go on, Ok false = break *)
  with eval_body (n : nat) (body : stmt) {struct n} : M bool :=
    match n with
    | O => fail Fuel
    | S f =>
      let* r := catch (eval_stmt f body) in
      match r with
      | Ok _ => ret true
      | Sig SigContinue => ret true
      | Sig SigBreak => ret false
      | other => reraise other
      end
    end

  with eval_while (n : nat) (c : expr) (body : stmt) (count : nat) {struct n} : M unit :=
    match n with
    | O => fail Fuel
    | S f =>
      let* cc := eval_expr f c in
      let* cv := m_load cc in
      if is_truthy cv then
        let* go := eval_body f body in
        if go then
          if (fuzzing && Z.ltb fuzzing_loop_limit (Z.of_nat count))%bool
          then rt_error (expr_token c)
          else eval_while f c body (S count)
        else ret tt
      else ret tt
    end

  with eval_for (n : nat) (c post : expr) (body : stmt) (count : nat) {struct n} : M unit :=
    match n with
    | O => fail Fuel
    | S f =>
      let* cc := eval_expr f c in
      let* cv := m_load cc in
      if is_truthy cv then
        let* go := eval_body f body in
        if go then
          let* _ := eval_expr f post in
          if (fuzzing && Z.ltb fuzzing_loop_limit (Z.of_nat count))%bool
          then rt_error (expr_token c)
          else eval_for f c post body (S count)
        else ret tt
      else ret tt
    end

  (* for index, item := range slice: the header is captured, the backing is read live *)
  with eval_forin_arr (n : nat) (local : addr) (ixlocal : option addr)
                      (bid : positive) (off len i : nat) (body : stmt) {struct n} : M unit :=
    match n with
    | O => fail Fuel
    | S f =>
      if Nat.leb len i then ret tt
      else
        let* h := get_heap in
        (* the element's CELL is taken now; its value is read after the index variable has
           been stored (they can be the same cell, through a match binding) *)
        let itemc := nth_error (get_back h bid) (off + i) in
        (match ixlocal with Some a => m_store a (num_of_nat i) | None => ret tt end) ;;;
        let* item := match itemc with Some c => m_load c | None => ret (VNil None) end in
        m_store local item ;;;
        let* go := eval_body f body in
        if go then eval_forin_arr f local ixlocal bid off len (S i) body else ret tt
    end

  with eval_forin_obj (n : nat) (local : addr) (ixlocal : option addr)
                      (oid : positive) (keys : list bytes) (body : stmt) {struct n} : M unit :=
    match n with
    | O => fail Fuel
    | S f =>
      match keys with
      | [] => ret tt
      | k :: rest =>
        let* h := get_heap in
        let v := match assoc_get k (get_obj h oid) with
                 | Some c => load h c | None => VNil None end in
        (match ixlocal with Some a => m_store a v | None => ret tt end) ;;;
        m_store local (VStr k) ;;;
        let* go := eval_body f body in
        if go then eval_forin_obj f local ixlocal oid rest body else ret tt
      end
    end

  with eval_forin_str (n : nat) (local : addr) (ixlocal : option addr)
                      (rs : list (nat * bytes)) (body : stmt) {struct n} : M unit :=
    match n with
    | O => fail Fuel
    | S f =>
      match rs with
      | [] => ret tt
      | (i, c) :: rest =>
        (match ixlocal with Some a => m_store a (num_of_nat i) | None => ret tt end) ;;;
        m_store local (VStr c) ;;;
        let* go := eval_body f body in
        if go then eval_forin_str f local ixlocal rest body else ret tt
      end
    end.

  (* evalRules: the pattern rules on one element *)
  Fixpoint eval_rules (n : nat) (rules : list rule) : M unit :=
    match rules with
    | [] => ret tt
    | r :: rest =>
      let* m :=
        match rpattern r with
        | None => ret (Some true)
        | Some p =>
          let* pr := catch (eval_expr n p) in
          match pr with
          | Ok c => let* v := m_load c in ret (Some (is_truthy v))
          | Sig SigNext => ret None
          | other => reraise other
          end
        end in
      match m with
      | None => ret tt                                  (* next inside the pattern *)
      | Some false => eval_rules n rest
      | Some true =>
        let* br := catch (eval_stmt n (rbody r)) in
        match br with
        | Ok _ => eval_rules n rest
        | Sig SigNext => ret tt
        | other => reraise other
        end
      end
    end.

  (* evalPatternRules *)
  Fixpoint eval_elements (n : nat) (rules : list rule) (bid : positive) (off len : nat)
           (k : nat) (i : nat) : M unit :=
    (* k counts down the remaining elements, i is the index *)
    match k with
    | O => ret tt
    | S k' =>
      let* h := get_heap in
      match nth_error (get_back h bid) (off + i) with
      | None => fail Panic
      | Some item =>
        set_rule_root (Some item) ;;;
        (let* c := m_alloc (num_of_nat i) in set_local (bs "$index") c) ;;;
        eval_rules n rules ;;;
        eval_elements n rules bid off len k' (S i)
      end
    end.

  Definition eval_pattern_rules (n : nat) (rules : list rule) : M unit :=
    let* s := get_st in
    match root s with
    | None => ret tt
    | Some rt =>
      let* rv := m_load rt in
      match rv with
      | VArr bid off len => eval_elements n rules bid off len len 0
      | _ => set_rule_root (Some rt) ;;; eval_rules n rules
      end
    end.

End Evaluator.
