(* Built-in functions and methods: mirror of src/prototypes.go and src/runtime.go.
   A native receives the evaluated argument values and [this] = Binding (the address of
   the cell the method was looked up on, or None). *)
From JQ Require Import Base.Bytes Num.F64 Syntax.Token Syntax.Lexer.
From JQ Require Import Json.JValue Json.Encode.
From JQ Require Import Oracle.Utf8 Oracle.Strings Oracle.Sort Oracle.Slice.
From JQ Require Import Gen.Generated Sem.Value.
Open Scope nat_scope.

(* what a NativeFn returns: a Value pointer (or nil) and an error *)
Inductive nres := NVal (v : value) | NNil | NError.

Definition nret (r : nres) : M nres := ret r.
Notation "'let*' x ':=' m 'in' k" := (bind m (fun x => k)) (at level 200, x name, right associativity).
Notation "m ';;;' k" := (bind m (fun _ => k)) (at level 199, right associativity).

Definition num_of_nat (n : nat) : value := VNum (f_of_Z (Z.of_nat n)).

(* ---------------------------------------------------------------- printf *)

Inductive fmt_res := FmtOut (b : bytes) | FmtErr | FmtFuel.

(* strconv.ParseInt(numStr, 10, 64) for a text that is '-' or a digit followed by digits;
   None = error (a lone "-", or out of the int64 range) *)
Fixpoint digits_value (ds : bytes) (acc : Z) : Z :=
  match ds with
  | [] => acc
  | d :: r => digits_value r (acc * 10 + Z.of_N (d - 48))%Z
  end.
Definition parse_width (first : byte) (rest : bytes) : option Z :=
  if N.eqb first 45 then
    match rest with
    | [] => None
    | _ => let v := (- digits_value rest 0)%Z in
           if Z.ltb v (-9223372036854775808) then None else Some v
    end
  else
    let v := digits_value (first :: rest) 0 in
    if Z.ltb 9223372036854775807 v then None else Some v.

Definition pad_to (width : Z) (pad : byte) (s : bytes) : bytes :=
  let n := Z.of_nat (length s) in
  if (Z.ltb 0 width && Z.ltb n width)%bool then repeat_byte pad (Z.to_nat (width - n)) ++ s
  else if (Z.ltb width 0 && Z.ltb n (- width))%bool then s ++ repeat_byte pad (Z.to_nat (- width - n))
  else s.

(* the loop of nativePrintf over the remaining format bytes; [args] = arguments not yet
   consumed; [acc] = the strings.Builder *)
Fixpoint printf_loop (fuel : nat) (h : heap) (fmt : bytes) (args : list value) (acc : bytes) : fmt_res :=
  match fuel with
  | O => FmtFuel
  | S fu =>
    match fmt with
    | [] => FmtOut acc
    | b :: rest =>
      if negb (N.eqb b 37) then printf_loop fu h rest args (acc ++ [b])
      else
        match rest with
        | [] => FmtErr                                  (* expected something after % *)
        | c :: rest1 =>
          (* optional width *)
          let spec :=
            if (latin1_is_digit c || N.eqb c 45)%bool then
              let '(ds, rest2) := take_while latin1_is_digit rest1 in
              match parse_width c ds with
              | None => None                            (* invalid width specifier *)
              | Some w =>
                if (Z.ltb printf_width_limit w || Z.ltb w (- printf_width_limit))%bool then None
                else
                  match rest2 with
                  | [] => None                          (* expected something after width *)
                  | d :: rest3 => Some (w, (if N.eqb c 48 then 48%N else 32%N), d, rest3)
                  end
              end
            else Some (0%Z, 32%N, c, rest1) in
          match spec with
          | None => FmtErr
          | Some (w, pad, d, rest3) =>
            if N.eqb d 37 then printf_loop fu h rest3 args (acc ++ [37%N])
            else if N.eqb d 115 then                      (* %s *)
              match args with
              | VStr s :: args' => printf_loop fu h rest3 args' (acc ++ pad_to w pad s)
              | _ => FmtErr
              end
            else if N.eqb d 102 then                      (* %f *)
              match args with
              | VNum x :: args' => printf_loop fu h rest3 args' (acc ++ pad_to w pad (format_f x))
              | _ => FmtErr
              end
            else if N.eqb d 118 then                      (* %v *)
              match args with
              | v :: args' =>
                match pretty_string h v with
                | Some s => printf_loop fu h rest3 args' (acc ++ pad_to w pad s)
                | None => FmtFuel
                end
              | [] => FmtErr
              end
            else FmtErr                                   (* unknown format code *)
          end
        end
    end
  end.

Definition printf_format (h : heap) (fmt : bytes) (args : list value) : fmt_res :=
  printf_loop (S (length fmt)) h fmt args [].

(* ---------------------------------------------------------------- the natives *)

Definition this_value (this : option addr) : M (option value) :=
  match this with
  | None => ret None
  | Some a => let* v := m_load a in ret (Some v)
  end.

Definition all_nums (h : heap) (cs : list addr) : bool :=
  forallb (fun c => match load h c with VNum _ => true | _ => false end) cs.

Definition float_of_cell (h : heap) (c : addr) : float :=
  match load h c with VNum f => f | _ => f_zero end.

Fixpoint alloc_all (vs : list value) : M (list addr) :=
  match vs with
  | [] => ret []
  | v :: r => let* a := m_alloc v in let* rest := alloc_all r in ret (a :: rest)
  end.

(* contains: None = a comparison outside the modelled fragment *)
Fixpoint contains_loop (h : heap) (x : value) (cs : list addr) : option nres :=
  match cs with
  | [] => Some (NVal (VBool false))
  | c :: r =>
    match equals_values x (load h c) with
    | EqOk true => Some (NVal (VBool true))
    | EqOk false => contains_loop h x r
    | EqErr => Some NError
    | EqUnsupp => None
    end
  end.

(* pluck: one requested key *)
Definition pluck_one (h : heap) (thisv key : value) : option value :=
  match get_member h thisv key with
  | GmErr => None
  | GmNone => Some (VNil None)
  | GmCell c => Some (load h c)
  | GmNative n =>
    (* only the object's own keys count; for another kind of receiver the prototype's method is kept *)
    match thisv with
    | VObj _ => Some (VNil None)
    | _ => Some (VNative n None)
    end
  | GmFresh v => Some v
  end.

Fixpoint pluck_loop (thisv : value) (oid : positive) (keys : list value) : M nres :=
  match keys with
  | [] => ret (NVal (VObj oid))
  | k :: r =>
    let* h := get_heap in
    match pluck_one h thisv k with
    | None => ret NError
    | Some v =>
      let* c := m_alloc v in
      upd_heap (fun h => set_obj h oid (assoc_set (to_str k) c (get_obj h oid))) ;;;
      pluck_loop thisv oid r
    end
  end.

Definition native_call (n : native) (args : list value) (this : option addr) : M nres :=
  let* tv := this_value this in
  let* h := get_heap in
  match n with
  | NArrLength =>
    match tv with
    | Some (VArr _ _ len) => ret (NVal (num_of_nat len))
    | _ => ret (NVal (num_of_nat 0))
    end
  | NPush =>
    match this, tv with
    | Some pa, Some _ =>
      match args with
      | [x] =>
        let* c := m_alloc x in
        upd_heap (fun h => append_at h pa c) ;;;
        let* v := m_load pa in
        ret (NVal v)
      | _ => ret NError
      end
    | _, _ => ret NNil
    end
  | NPop =>
    match this, tv with
    | Some pa, Some v =>
      match args with
      | [] =>
        match v with
        | VArr bid off (S len') =>
          let r := match nth_error (get_back h bid) (off + len') with
                   | Some c => load h c | None => VNil None end in
          m_store pa (VArr bid off len') ;;; ret (NVal r)
        | _ => ret (NVal (VNil None))
        end
      | _ => ret NError
      end
    | _, _ => ret NNil
    end
  | NPopFirst =>
    match this, tv with
    | Some pa, Some v =>
      match args with
      | [] =>
        match v with
        | VArr bid off (S len') =>
          let r := match nth_error (get_back h bid) off with
                   | Some c => load h c | None => VNil None end in
          m_store pa (VArr bid (S off) len') ;;; ret (NVal r)
        | _ => ret (NVal (VNil None))
        end
      | _ => ret NError
      end
    | _, _ => ret NNil
    end
  | NContains =>
    match tv with
    | None => ret NNil
    | Some v =>
      match args with
      | [x] =>
        let cs := match v with VArr bid off len => arr_cells h bid off len | _ => [] end in
        match contains_loop h x cs with Some r => ret r | None => fail Unsupp end
      | _ => ret NError
      end
    end
  | NSort =>
    match tv with
    | None => ret NNil
    | Some v =>
      let cs := match v with VArr bid off len => arr_cells h bid off len | _ => [] end in
      let vals := map (load h) cs in
      (* the clone goes through copyValue; an element that cannot be copied (a function)
         is an error *)
      if existsb (fun x => match copy_value x with None => true | Some _ => false end) vals
      then ret NError
      else
        let copies := map (fun x => match copy_value x with Some y => y | None => x end) vals in
        let sorted :=
          if forallb (fun x => match x with VNum _ => true | _ => false end) vals
          then sort_by_float (fun x => match x with VNum f => f | _ => f_zero end) copies
          else sort_by_key to_str copies in
        let* cells := alloc_all sorted in
        let* r := with_heap (fun h => new_array_of h cells) in
        ret (NVal r)
    end
  | NObjLength =>
    match tv with
    | Some (VObj oid) => ret (NVal (num_of_nat (length (get_obj h oid))))
    | _ => ret (NVal (num_of_nat 0))
    end
  | NPluck =>
    let* o := with_heap new_empty_object in
    match tv, o with
    | Some v, VObj oid => pluck_loop v oid args
    | _, _ => ret (NVal o)
    end
  | NStrLength =>
    match tv with
    | Some (VStr s) => ret (NVal (num_of_nat (length s)))
    | _ => ret (NVal (num_of_nat 0))
    end
  | NSplit =>
    match tv with
    | Some (VStr s) =>
      match args with
      | VStr sep :: _ =>
        let* cells := alloc_all (map VStr (split s sep)) in
        let* r := with_heap (fun h => new_array_of h cells) in
        ret (NVal r)
      | _ => ret NError
      end
    | _ => let* r := with_heap new_empty_array in ret (NVal r)
    end
  | NLower =>
    match tv with
    | Some (VStr s) =>
      match to_lower s with CaseOk b => ret (NVal (VStr b)) | CaseUnsupported => fail Unsupp end
    | _ => ret (NVal (num_of_nat 0))
    end
  | NUpper =>
    match tv with
    | Some (VStr s) =>
      match to_upper s with CaseOk b => ret (NVal (VStr b)) | CaseUnsupported => fail Unsupp end
    | _ => ret (NVal (num_of_nat 0))
    end
  | NFloor =>
    match tv with Some (VNum f) => ret (NVal (VNum (f_floor f))) | _ => ret (NVal (VNil None)) end
  | NCeil =>
    match tv with Some (VNum f) => ret (NVal (VNum (f_ceil f))) | _ => ret (NVal (VNil None)) end
  | NRound =>
    match tv with Some (VNum f) => ret (NVal (VNum (f_round f))) | _ => ret (NVal (VNil None)) end
  | NPrintf =>
    match args with
    | VStr fmt :: rest =>
      match printf_format h fmt rest with
      | FmtOut b => emit b ;;; ret NNil
      | FmtErr => ret NError
      | FmtFuel => fail Fuel
      end
    | _ => ret NError
    end
  | NJson =>
    match args with
    | [x] =>
      match to_go_value h x with
      | GoOk j =>
        match marshal_indent j with
        | Some b => ret (NVal (VStr b))
        | None => ret NError
        end
      | GoErr => ret NError
      | GoFuel => fail Fuel
      end
    | _ => ret NError
    end
  | NNum =>
    match args with
    | [VNum f] => ret (NVal (VNum (f_of_Z (f_trunc_int64 f))))
    | [VStr s] =>
      match parse_float s with
      | PFok f => ret (NVal (VNum f))
      | PFrange _ | PFsyntax => ret (NVal (VNil None))
      | PFunsupported => fail Unsupp
      end
    | [_] => ret (NVal (VNil None))
    | _ => ret NError
    end
  end.
