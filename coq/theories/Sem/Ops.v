(* The value-level part of the operators: what evalUnaryExpr / evalBinaryExpr compute once
   the operands are evaluated (no heap access, no evaluation order).  Eval.v threads these
   through the state; Spec/OpTable.v states the documented tables they must equal. *)
From JQ Require Import Base.Bytes Num.F64 Syntax.Token.
From JQ Require Import Sem.Value.
From JQ Require Oracle.Regex.
Open Scope nat_scope.

(* classification of operator / literal tokens: keeps the big tag matches in one place *)
Inductive bop :=
| BAnd | BOr | BIs | BMember
| BLt | BGt | BEq | BNe | BLe | BGe
| BAdd | BSub | BMul | BDiv | BMod
| BMatch | BNoMatch | BAssign | BOther.
Definition bop_of (t : tag) : bop :=
  match t with
  | TAmpAmp => BAnd | TPipePipe => BOr | TIs => BIs
  | TLSquare | TDot => BMember
  | TLessThan => BLt | TGreaterThan => BGt | TEqualEqual => BEq | TBangEqual => BNe
  | TLessEqual => BLe | TGreaterEqual => BGe
  | TPlus => BAdd | TMinus => BSub | TMultiply => BMul | TDivide => BDiv | TPercent => BMod
  | TTilde => BMatch | TBangTilde => BNoMatch
  | TEqual => BAssign
  | _ => BOther
  end.

Inductive uop := UNot | UPos | UNeg | UInc | UDec | UOther.
Definition uop_of (t : tag) : uop :=
  match t with
  | TBang => UNot | TPlus => UPos | TMinus => UNeg | TPlusPlus => UInc | TMinusMinus => UDec
  | _ => UOther
  end.

Inductive litk := LStr | LRegex | LNum | LTrue | LFalse | LNull | LOther.
Definition litk_of (t : tag) : litk :=
  match t with
  | TStr | TIdent => LStr | TRegex => LRegex | TNum => LNum
  | TTrue => LTrue | TFalse => LFalse | TNull => LNull
  | _ => LOther
  end.

Inductive isk := IsFunction | IsNull | IsName.
Definition isk_of (t : tag) : isk :=
  match t with TFunction => IsFunction | TNull => IsNull | _ => IsName end.

(* result of a value-level operator: a value, a runtime error (located by the caller at
   the left operand, the operator or the right operand), or outside the modelled fragment *)
Inductive vres := VOk (v : value) | VErrLeft | VErrOp | VErrRight | VUnsupp.

Definition cmp_to_bool (o : bop) (c : comparison) : bool :=
  match o with
  | BLt => match c with Lt => true | _ => false end
  | BGt => match c with Gt => true | _ => false end
  | BEq => match c with Eq => true | _ => false end
  | BNe => match c with Eq => false | _ => true end
  | BLe => match c with Gt => false | _ => true end
  | BGe => match c with Lt => false | _ => true end
  | _ => false
  end.

(* ! + - on a value *)
Definition unop_value (u : uop) (v : value) : vres :=
  match u with
  | UNot => VOk (VBool (negb (is_truthy v)))
  | UPos => match as_float v with Some x => VOk (VNum x) | None => VUnsupp end
  | UNeg => match as_float v with Some x => VOk (VNum (f_neg x)) | None => VUnsupp end
  | _ => VErrOp
  end.

(* < > == != <= >= *)
Definition cmp_value (o : bop) (lv rv : value) : vres :=
  match lv, rv with
  | VUnknown, _ | _, VUnknown =>
    VOk (VBool (match o with BLt | BGt => true | _ => false end))
  | _, _ =>
    match compare_values lv rv with
    | CmpOk c => VOk (VBool (cmp_to_bool o c))
    | CmpErr => VErrLeft
    | CmpUnsupp => VUnsupp
    end
  end.

(* + - * / % *)
Definition arith_value (o : bop) (lv rv : value) : vres :=
  let is_str := match lv, rv with VStr _, _ | _, VStr _ => true | _, _ => false end in
  if (match o with BAdd => true | _ => false end && is_str)%bool then
    VOk (VStr (to_str lv ++ to_str rv))
  else
    match as_float lv, as_float rv with
    | Some a, Some b =>
      match o with
      | BAdd => VOk (VNum (f_add a b))
      | BSub => VOk (VNum (f_sub a b))
      | BMul => VOk (VNum (f_mul a b))
      | BDiv => if f_is_zero b then VErrOp else VOk (VNum (f_div a b))
      | _ =>
        let ai := f_trunc_int64 a in
        let bi := f_trunc_int64 b in
        if Z.eqb bi 0 then VErrOp else VOk (VNum (f_of_Z (Z.rem ai bi)))
      end
    | _, _ => VUnsupp
    end.

(* ~ !~ *)
Definition regex_value (negate : bool) (lv rv : value) : vres :=
  match rv with
  | VStr pat | VRegex pat =>
    match Regex.regex_match pat (to_str lv) with
    | Regex.RxMatch b => VOk (VBool (if negate then negb b else b))
    | Regex.RxBadPattern => VErrRight
    | Regex.RxUnsupported => VUnsupp
    end
  | _ => VErrRight
  end.

(* the right-hand side of `is` *)
Definition is_type_name (v : value) (name : bytes) : bool :=
  if bytes_eqb name (bs "string") then match v with VStr _ => true | _ => false end
  else if bytes_eqb name (bs "bool") then match v with VBool _ => true | _ => false end
  else if bytes_eqb name (bs "number") then match v with VNum _ => true | _ => false end
  else if bytes_eqb name (bs "array") then match v with VArr _ _ _ => true | _ => false end
  else if bytes_eqb name (bs "object") then match v with VObj _ => true | _ => false end
  else if bytes_eqb name (bs "regex") then match v with VRegex _ => true | _ => false end
  else if bytes_eqb name (bs "unknown") then match v with VUnknown => true | _ => false end
  else false.

(* every binary operator that is decided by the two operand values alone *)
Definition binop_value (o : bop) (lv rv : value) : vres :=
  match o with
  | BLt | BGt | BEq | BNe | BLe | BGe => cmp_value o lv rv
  | BAdd | BSub | BMul | BDiv | BMod => arith_value o lv rv
  | BMatch => regex_value false lv rv
  | BNoMatch => regex_value true lv rv
  | _ => VErrOp
  end.
