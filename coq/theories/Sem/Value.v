(* Values, heap and evaluator state: mirror of src/value.go and the data part of
   src/evaluator.go.

   Go pointers become addresses: a *Cell is an [addr]; an array value is a Go slice
   header (backing array id, offset, length) whose capacity is the backing's length
   minus the offset -- arrays are modelled exactly as the slices they are, including
   the capacity growth of append (Oracle.Slice.grow_cap), because jqawk's aliasing
   behaviour depends on it; an object value is a pointer to a map (object id).
   The four prototypes are immutable (after fix f9274ed) and are therefore plain
   lookup tables here. *)
From Coq Require Import FMapPositive.
From JQ Require Import Base.Bytes Num.F64 Syntax.Token Syntax.Lexer Syntax.Ast.
From JQ Require Import Json.JValue Oracle.Utf8 Oracle.Slice.
From JQ Require Import Gen.Generated.
Open Scope nat_scope.

Module PM := PositiveMap.
Definition addr := positive.

Inductive native :=
| NPrintf | NJson | NNum
| NArrLength | NPush | NPop | NPopFirst | NContains | NSort
| NObjLength | NPluck
| NStrLength | NSplit | NLower | NUpper
| NFloor | NCeil | NRound.

(* the key of a speculative member: Value.Num or Value.Str of a nil with ParentObj *)
Inductive skey := KNum (f : float) | KStr (s : bytes).

Inductive value :=
| VStr (s : bytes)
| VBool (b : bool)
| VNum (f : float)
| VArr (bid : positive) (off len : nat)       (* slice header; cap = |backing| - off *)
| VObj (oid : positive)
| VNil (spec : option (addr * skey))          (* Some = speculative: (ParentObj, key) *)
| VNative (n : native) (binding : option addr)
| VFn (idx : nat)                              (* index into Program.Functions *)
| VRegex (s : bytes)
| VUnknown.

Inductive vtag := TgStr | TgBool | TgNum | TgArr | TgObj | TgNil | TgNative | TgFn | TgRegex | TgUnknown.
Definition tag_of (v : value) : vtag :=
  match v with
  | VStr _ => TgStr | VBool _ => TgBool | VNum _ => TgNum | VArr _ _ _ => TgArr
  | VObj _ => TgObj | VNil _ => TgNil | VNative _ _ => TgNative | VFn _ => TgFn
  | VRegex _ => TgRegex | VUnknown => TgUnknown
  end.

(* ---------------------------------------------------------------- heap *)

Record heap := mkHeap {
  cells : PM.t value;
  backs : PM.t (list addr);                (* backing arrays of slices *)
  objs : PM.t (list (bytes * addr));       (* maps, as key-sorted association lists *)
  next : positive
}.

Definition dummy_addr : addr := 1%positive.    (* fills unused capacity; never read *)
Definition empty_heap : heap :=
  mkHeap (PM.add 1%positive (VNil None) (PM.empty _)) (PM.empty _) (PM.empty _) 2%positive.

(* A Go pointer is never dangling, so lookups are total; the default is never observed
   on heaps built by the operations below. *)
Definition load (h : heap) (a : addr) : value :=
  match PM.find a (cells h) with Some v => v | None => VNil None end.
Definition get_back (h : heap) (b : positive) : list addr :=
  match PM.find b (backs h) with Some l => l | None => [] end.
Definition get_obj (h : heap) (o : positive) : list (bytes * addr) :=
  match PM.find o (objs h) with Some l => l | None => [] end.

Definition store (h : heap) (a : addr) (v : value) : heap :=
  mkHeap (PM.add a v (cells h)) (backs h) (objs h) (next h).
Definition alloc (h : heap) (v : value) : addr * heap :=
  (next h, mkHeap (PM.add (next h) v (cells h)) (backs h) (objs h) (Pos.succ (next h))).
Definition set_back (h : heap) (b : positive) (l : list addr) : heap :=
  mkHeap (cells h) (PM.add b l (backs h)) (objs h) (next h).
Definition new_back (h : heap) (l : list addr) : positive * heap :=
  (next h, mkHeap (cells h) (PM.add (next h) l (backs h)) (objs h) (Pos.succ (next h))).
Definition set_obj (h : heap) (o : positive) (l : list (bytes * addr)) : heap :=
  mkHeap (cells h) (backs h) (PM.add o l (objs h)) (next h).
Definition new_obj (h : heap) (l : list (bytes * addr)) : positive * heap :=
  (next h, mkHeap (cells h) (backs h) (PM.add (next h) l (objs h)) (Pos.succ (next h))).

(* slices *)
Definition arr_cap (h : heap) (bid : positive) (off : nat) : nat := length (get_back h bid) - off.
Definition arr_cells (h : heap) (bid : positive) (off len : nat) : list addr :=
  firstn len (skipn off (get_back h bid)).

Fixpoint list_set {A} (l : list A) (i : nat) (x : A) : list A :=
  match l, i with
  | [], _ => []
  | _ :: r, O => x :: r
  | y :: r, S j => y :: list_set r j x
  end.

(* NewArray / make([]*Cell, 0) *)
Definition new_empty_array (h : heap) : value * heap :=
  let '(b, h') := new_back h [] in (VArr b 0 0, h').
(* a slice of exactly these cells: len = cap *)
Definition new_array_of (h : heap) (l : list addr) : value * heap :=
  let '(b, h') := new_back h l in (VArr b 0 (length l), h').
(* NewObject *)
Definition new_empty_object (h : heap) : value * heap :=
  let '(o, h') := new_obj h [] in (VObj o, h').

(* v.Array = append(v.Array, c) where the header lives in cell [pa] *)
Definition append_at (h : heap) (pa : addr) (c : addr) : heap :=
  match load h pa with
  | VArr bid off len =>
    let back := get_back h bid in
    let cap := length back - off in
    if Nat.ltb len cap then
      store (set_back h bid (list_set back (off + len) c)) pa (VArr bid off (S len))
    else
      let newcap := grow_cap cap in
      let elems := firstn len (skipn off back) in
      let '(b', h1) := new_back h (elems ++ c :: repeat dummy_addr (newcap - S len)) in
      store h1 pa (VArr b' 0 (S len))
  | _ => h
  end.

(* ---------------------------------------------------------------- coercions *)

(* Value.String() *)
Definition to_str (v : value) : bytes :=
  match v with
  | VStr s => s
  | VNum f => format_f f
  | _ => []
  end.

(* Value.isTruthy() *)
Definition is_truthy (v : value) : bool :=
  match v with
  | VBool b => b
  | VNum f => negb (f_is_zero f)
  | VStr s => match s with [] => false | _ => true end
  | VArr _ _ _ | VObj _ | VFn _ | VNative _ _ => true
  | _ => false
  end.

(* Value.asFloat64(); None = outside the modelled fragment of ParseFloat (hex floats) *)
Definition as_float (v : value) : option float :=
  match v with
  | VNum f => Some f
  | VBool b => Some (if b then f_one else f_zero)
  | VStr s =>
    match parse_float s with
    | PFok f => Some f
    | PFrange _ | PFsyntax => Some f_zero
    | PFunsupported => None
    end
  | _ => Some f_zero
  end.

Inductive cmp_result := CmpOk (c : comparison) | CmpErr | CmpUnsupp.

(* Value.Compare(b) *)
Definition compare_values (a b : value) : cmp_result :=
  match a, b with
  | VNil _, VNil _ => CmpOk Eq
  | VNil _, _ => CmpOk Lt
  | _, VNil _ => CmpOk Gt
  | _, _ =>
    match a, b with
    | VArr _ _ _, _ | _, VArr _ _ _ | VObj _, _ | _, VObj _ => CmpErr
    | VStr x, VStr y => CmpOk (bytes_cmp x y)
    | _, _ =>
      match as_float a, as_float b with
      | Some x, Some y => CmpOk (if f_gtb x y then Gt else if f_ltb x y then Lt else Eq)
      | _, _ => CmpUnsupp
      end
    end
  end.

Inductive eq_result := EqOk (b : bool) | EqErr | EqUnsupp.
(* Value.Equals(b): the == operator *)
Definition equals_values (a b : value) : eq_result :=
  match a, b with
  | VUnknown, _ | _, VUnknown => EqOk false
  | _, _ =>
    match compare_values a b with
    | CmpOk Eq => EqOk true
    | CmpOk _ => EqOk false
    | CmpErr => EqErr
    | CmpUnsupp => EqUnsupp
    end
  end.

(* copyValue(from, to): the value stored, None = "cannot copy" error *)
Definition copy_value (v : value) : option value :=
  match v with
  | VNum _ | VBool _ | VStr _ | VRegex _ => Some v
  | VNil _ => Some (VNil None)
  | VArr _ _ _ | VObj _ | VUnknown => Some v
  | VNative _ _ | VFn _ => None
  end.

(* isSame / alias: same map, or slices with capacity that share the end of their backing *)
Definition is_same (h : heap) (a b : value) : bool :=
  match a, b with
  | VObj x, VObj y => Pos.eqb x y
  | VArr b1 o1 _, VArr b2 o2 _ =>
    (Nat.ltb 0 (arr_cap h b1 o1) && Nat.ltb 0 (arr_cap h b2 o2) && Pos.eqb b1 b2)%bool
  | _, _ => false
  end.

Definition tag_name (v : value) : bytes :=
  match v with
  | VStr _ => bs "string" | VBool _ => bs "bool" | VNum _ => bs "number" | VArr _ _ _ => bs "array"
  | VObj _ => bs "object" | VNil _ => bs "nil" | VNative _ _ => bs "nativefunction"
  | VFn _ => bs "function" | VRegex _ => bs "regex" | VUnknown => bs "unknown"
  end.

(* Value.PrettyString(quote) / prettyStringInteral. None = out of fuel. *)
Fixpoint pretty_fuel (n : nat) (h : heap) (path : list value) (quote check : bool) (v : value)
  : option bytes :=
  match n with
  | O => None
  | S f =>
    if (check && existsb (fun r => is_same h r v) path)%bool then Some (bs "<circular reference>")
    else
      match v with
      | VStr s => Some (if quote then 34%N :: s ++ [34%N] else s)
      | VNum x => Some (format_f x)
      | VBool b => Some (if b then bs "true" else bs "false")
      | VNil _ => Some (bs "null")
      | VArr bid off len =>
        let fix items (l : list addr) (first : bool) : option bytes :=
          match l with
          | [] => Some []
          | c :: r =>
            match pretty_fuel f h (path ++ [v]) true true (load h c), items r false with
            | Some a, Some b => Some ((if first then [] else bs ", ") ++ a ++ b)
            | _, _ => None
            end
          end in
        match items (arr_cells h bid off len) true with
        | Some body => Some (91%N :: body ++ [93%N])
        | None => None
        end
      | VObj oid =>
        let fix fields (l : list (bytes * addr)) (first : bool) : option bytes :=
          match l with
          | [] => Some []
          | (k, c) :: r =>
            match pretty_fuel f h (path ++ [v]) true true (load h c), fields r false with
            | Some a, Some b =>
              Some ((if first then [] else bs ", ") ++ 34%N :: k ++ 34%N :: bs ": " ++ a ++ b)
            | _, _ => None
            end
          end in
        match fields (get_obj h oid) true with
        | Some body => Some (123%N :: body ++ [125%N])
        | None => None
        end
      | _ => Some (60%N :: tag_name v ++ [62%N])
      end
  end.

(* a path of distinct containers cannot be longer than the number of allocations *)
Definition container_fuel (h : heap) : nat := S (S (Pos.to_nat (next h))).
(* Staged fuel: nesting deeper than [quick_fuel] is rare, and [container_fuel h] costs time
   linear in the heap (a unary number): it is only computed when the first attempt runs out.
   By fuel monotonicity both stages give the same answer (Proofs/Pretty.v). *)
Definition quick_fuel : nat := 100.
Definition pretty_string (h : heap) (v : value) : option bytes :=
  match pretty_fuel quick_fuel h [] false false v with
  | Some b => Some b
  | None => pretty_fuel (container_fuel h) h [] false false v
  end.

(* Value.ToGoValue(): JSON value of a heap value *)
Inductive go_result := GoOk (j : jvalue) | GoErr | GoFuel.

Fixpoint to_go_fuel (n : nat) (h : heap) (path : list value) (check : bool) (v : value) : go_result :=
  match n with
  | O => GoFuel
  | S f =>
    if (check && existsb (fun r => is_same h r v) path)%bool then GoErr
    else
      match v with
      | VStr s => GoOk (JStr s)
      | VBool b => GoOk (JBool b)
      | VNum x => GoOk (JNum x)
      | VArr bid off len =>
        let fix items (l : list addr) : option (option (list jvalue)) :=
          (* None = fuel, Some None = error *)
          match l with
          | [] => Some (Some [])
          | c :: r =>
            match to_go_fuel f h (path ++ [v]) true (load h c) with
            | GoFuel => None
            | GoErr => Some None
            | GoOk j =>
              match items r with
              | Some (Some js) => Some (Some (j :: js))
              | x => x
              end
            end
          end in
        match items (arr_cells h bid off len) with
        | None => GoFuel
        | Some None => GoErr
        | Some (Some js) => GoOk (JArr js)
        end
      | VObj oid =>
        let fix fields (l : list (bytes * addr)) : option (option (list (bytes * jvalue))) :=
          match l with
          | [] => Some (Some [])
          | (k, c) :: r =>
            match to_go_fuel f h (path ++ [v]) true (load h c) with
            | GoFuel => None
            | GoErr => Some None
            | GoOk j =>
              match fields r with
              | Some (Some js) => Some (Some ((k, j) :: js))
              | x => x
              end
            end
          end in
        match fields (get_obj h oid) with
        | None => GoFuel
        | Some None => GoErr
        | Some (Some js) => GoOk (JObj js)
        end
      | VNil _ | VUnknown => GoOk JNull
      | VNative _ _ | VFn _ | VRegex _ => GoErr
      end
  end.

Definition to_go_value (h : heap) (v : value) : go_result :=
  match to_go_fuel quick_fuel h [] false v with
  | GoFuel => to_go_fuel (container_fuel h) h [] false v
  | r => r
  end.

(* NewValue(decoded JSON): allocates the cells of arrays and objects *)
Fixpoint new_value (j : jvalue) (h : heap) : value * heap :=
  match j with
  | JNull => (VNil None, h)
  | JBool b => (VBool b, h)
  | JNum f => (VNum f, h)
  | JStr s => (VStr s, h)
  | JArr items =>
    let fix go (l : list jvalue) (h : heap) : list addr * heap :=
      match l with
      | [] => ([], h)
      | x :: r =>
        let '(v, h1) := new_value x h in
        let '(a, h2) := alloc h1 v in
        let '(rest, h3) := go r h2 in
        (a :: rest, h3)
      end in
    let '(cs, h1) := go items h in
    new_array_of h1 cs
  | JObj fields =>
    let fix go (l : list (bytes * jvalue)) (h : heap) : list (bytes * addr) * heap :=
      match l with
      | [] => ([], h)
      | (k, x) :: r =>
        let '(v, h1) := new_value x h in
        let '(a, h2) := alloc h1 v in
        let '(rest, h3) := go r h2 in
        ((k, a) :: rest, h3)
      end in
    let '(kvs, h1) := go fields h in
    let '(o, h2) := new_obj h1 kvs in
    (VObj o, h2)
  end.

(* ---------------------------------------------------------------- members *)

(* the native-function tables of the four prototypes *)
Definition array_proto (k : bytes) : option native :=
  if bytes_eqb k (bs "length") then Some NArrLength
  else if bytes_eqb k (bs "push") then Some NPush
  else if bytes_eqb k (bs "pop") then Some NPop
  else if bytes_eqb k (bs "popfirst") then Some NPopFirst
  else if bytes_eqb k (bs "contains") then Some NContains
  else if bytes_eqb k (bs "sort") then Some NSort
  else None.
Definition obj_proto (k : bytes) : option native :=
  if bytes_eqb k (bs "length") then Some NObjLength
  else if bytes_eqb k (bs "pluck") then Some NPluck
  else None.
Definition str_proto (k : bytes) : option native :=
  if bytes_eqb k (bs "length") then Some NStrLength
  else if bytes_eqb k (bs "split") then Some NSplit
  else if bytes_eqb k (bs "lower") then Some NLower
  else if bytes_eqb k (bs "upper") then Some NUpper
  else None.
Definition num_proto (k : bytes) : option native :=
  if bytes_eqb k (bs "floor") then Some NFloor
  else if bytes_eqb k (bs "ceil") then Some NCeil
  else if bytes_eqb k (bs "round") then Some NRound
  else None.

Inductive gm_result :=
| GmCell (a : addr)          (* an existing cell *)
| GmNative (n : native)      (* a method cell of a prototype (Binding nil) *)
| GmFresh (v : value)        (* NewCell(v): string indexing *)
| GmNone                     (* nil, nil *)
| GmErr.

(* the name under which a native is found in its prototype / the root frame *)
Definition native_name (n : native) : bytes :=
  match n with
  | NPrintf => bs "printf" | NJson => bs "json" | NNum => bs "num"
  | NArrLength | NObjLength | NStrLength => bs "length"
  | NPush => bs "push" | NPop => bs "pop" | NPopFirst => bs "popfirst"
  | NContains => bs "contains" | NSort => bs "sort" | NPluck => bs "pluck"
  | NSplit => bs "split" | NLower => bs "lower" | NUpper => bs "upper"
  | NFloor => bs "floor" | NCeil => bs "ceil" | NRound => bs "round"
  end.

(* prototype.GetMember(member): the prototype is an object without a prototype *)
Definition proto_get (tbl : bytes -> option native) (m : value) : gm_result :=
  match m with
  | VNum _ | VStr _ =>
    match tbl (to_str m) with
    | Some n => GmNative n
    | None => GmNone
    end
  | _ => GmErr
  end.

(* Value.GetMember(member) *)
Definition get_member (h : heap) (v m : value) : gm_result :=
  match v with
  | VArr bid off len =>
    match m with
    | VNum f =>
      let i := f_trunc_int64 f in
      let i' := if Z.ltb i 0 then (Z.of_nat len + i)%Z else i in
      if Z.ltb i' 0 then GmErr
      else if Z.leb (Z.of_nat len) i' then GmNone
      else match nth_error (get_back h bid) (off + Z.to_nat i') with
           | Some c => GmCell c
           | None => GmNone    (* unreachable: i' < len <= cap *)
           end
    | _ => proto_get array_proto m
    end
  | VObj oid =>
    match m with
    | VNum _ | VStr _ =>
      match assoc_get (to_str m) (get_obj h oid) with
      | Some c => GmCell c
      | None => proto_get obj_proto m
      end
    | _ => GmErr
    end
  | VStr s =>
    match m with
    | VNum f =>
      let i := f_trunc_int64 f in
      if (Z.ltb i 0 || Z.leb (Z.of_nat (length s)) i)%bool then GmFresh (VNil None)
      else match nth_error s (Z.to_nat i) with
           | Some b => GmFresh (VStr (utf8_encode b))     (* string(byte) is a rune conversion *)
           | None => GmFresh (VNil None)
           end
    | _ => proto_get str_proto m
    end
  | VNum _ => proto_get num_proto m
  | _ => GmNone
  end.

(* ---------------------------------------------------------------- evaluator state *)

Record frame := mkFrame { fname : bytes; locals : list (bytes * addr) }.

Inductive ekind := ESyntax | ERuntime | EJson.
Record errinfo := mkErr { ekind_of : ekind; eline : nat; ecol : Z; esrcline : bytes }.

Inductive signal := SigBreak | SigContinue | SigReturn | SigNext | SigExit.

(* IoRaise is a ghost event: it marks the point where an error was raised (C11) *)
Inductive io_event :=
| IoWrite (b : bytes) | IoRead (n : nat) | IoReadEOF | IoReadFail
| IoRaise                      (* ghost: an error was raised here *)
| IoSignalAt (t : token).      (* ghost: e.signalToken := t (the next/break/continue executed last) *)

Record st := mkSt {
  hp : heap;
  frames : list frame;             (* top first; the last one is <root> *)
  rule_root : option addr;         (* e.ruleRoot *)
  root : option addr;              (* e.root *)
  retval : option addr;            (* e.returnVal: the cell whose value is returned *)
  io : list io_event               (* reversed log of writes to stdout (and reads, C03) *)
}.

Inductive res (A : Type) :=
| Ok (a : A)
| Err (e : errinfo)
| Sig (s : signal)
| Panic                            (* a Go panic / nil dereference site *)
| Fuel                             (* out of fuel: not a behaviour of the code *)
| Unsupp.                          (* outside the modelled fragment of a library oracle *)
Arguments Ok {A}. Arguments Err {A}. Arguments Sig {A}. Arguments Panic {A}.
Arguments Fuel {A}. Arguments Unsupp {A}.

Definition M (A : Type) := st -> res A * st.
Definition ret {A} (a : A) : M A := fun s => (Ok a, s).
Definition bind {A B} (m : M A) (k : A -> M B) : M B :=
  fun s => match m s with
           | (Ok a, s') => k a s'
           | (Err e, s') => (Err e, s')
           | (Sig x, s') => (Sig x, s')
           | (Panic, s') => (Panic, s')
           | (Fuel, s') => (Fuel, s')
           | (Unsupp, s') => (Unsupp, s')
           end.
Definition fail {A} (r : res A) : M A := fun s => (r, s).
(* every error of the run is raised here *)

Definition with_heap {A} (f : heap -> A * heap) : M A := fun s =>
  let '(a, h') := f (hp s) in
  (Ok a, mkSt h' (frames s) (rule_root s) (root s) (retval s) (io s)).
Definition upd_heap (f : heap -> heap) : M unit := fun s =>
  (Ok tt, mkSt (f (hp s)) (frames s) (rule_root s) (root s) (retval s) (io s)).
Definition get_heap : M heap := fun s => (Ok (hp s), s).
Definition get_st : M st := fun s => (Ok s, s).
Definition m_load (a : addr) : M value := fun s => (Ok (load (hp s) a), s).
Definition m_store (a : addr) (v : value) : M unit := upd_heap (fun h => store h a v).
Definition m_alloc (v : value) : M addr := with_heap (fun h => alloc h v).     (* NewCell *)
Definition set_frames (fs : list frame) : M unit := fun s =>
  (Ok tt, mkSt (hp s) fs (rule_root s) (root s) (retval s) (io s)).
Definition set_rule_root (a : option addr) : M unit := fun s =>
  (Ok tt, mkSt (hp s) (frames s) a (root s) (retval s) (io s)).
Definition set_root (a : option addr) : M unit := fun s =>
  (Ok tt, mkSt (hp s) (frames s) (rule_root s) a (retval s) (io s)).
Definition set_retval (a : option addr) : M unit := fun s =>
  (Ok tt, mkSt (hp s) (frames s) (rule_root s) (root s) a (io s)).
(* one Write call on stdout *)
Definition emit (b : bytes) : M unit := fun s =>
  (Ok tt, mkSt (hp s) (frames s) (rule_root s) (root s) (retval s) (IoWrite b :: io s)).
Definition log_io (evs : list io_event) : M unit := fun s =>
  (Ok tt, mkSt (hp s) (frames s) (rule_root s) (root s) (retval s) (rev evs ++ io s)).

Definition raise_err {A} (e : errinfo) : M A := fun s =>
  (Err e, mkSt (hp s) (frames s) (rule_root s) (root s) (retval s) (IoRaise :: io s)).

(* e.signalToken: the token of the most recent next/break/continue statement *)
Definition note_signal (t : token) : M unit := fun s =>
  (Ok tt, mkSt (hp s) (frames s) (rule_root s) (root s) (retval s) (IoSignalAt t :: io s)).
Fixpoint last_signal_token (l : list io_event) : option token :=
  match l with
  | [] => None
  | IoSignalAt t :: _ => Some t
  | _ :: r => last_signal_token r
  end.

(* all bytes written so far *)
Definition output_of (l : list io_event) : bytes :=
  concat (map (fun e => match e with IoWrite b => b | _ => [] end) (rev l)).

(* ---------------------------------------------------------------- frames *)

Definition frame_depth (s : st) : nat := length (frames s) - 1.

(* pushFrame: false = "call depth limit exceeded" *)
Definition push_frame (name : bytes) : M bool := fun s =>
  if Z.ltb call_depth_limit (Z.of_nat (length (frames s))) then (Ok false, s)
  else (Ok true, mkSt (hp s) (mkFrame name [] :: frames s) (rule_root s) (root s) (retval s) (io s)).

(* popFrame: popping <root> panics *)
Definition pop_frame : M unit := fun s =>
  match frames s with
  | _ :: (_ :: _) as rest => (Ok tt, mkSt (hp s) rest (rule_root s) (root s) (retval s) (io s))
  | _ => (Panic, s)
  end.

Fixpoint lookup_frames (fs : list frame) (name : bytes) : option addr :=
  match fs with
  | [] => None
  | f :: r => match assoc_get name (locals f) with
              | Some a => Some a
              | None => lookup_frames r name
              end
  end.

(* frame.locals[name] = cell on the top frame *)
Definition set_local (name : bytes) (a : addr) : M unit := fun s =>
  match frames s with
  | f :: r => (Ok tt, mkSt (hp s) (mkFrame (fname f) (assoc_set name a (locals f)) :: r)
                             (rule_root s) (root s) (retval s) (io s))
  | [] => (Panic, s)      (* e.stackTop is never nil *)
  end.

Fixpoint set_in_last (fs : list frame) (name : bytes) (a : addr) : list frame :=
  match fs with
  | [] => []
  | [f] => [mkFrame (fname f) (assoc_set name a (locals f))]
  | f :: r => f :: set_in_last r name a
  end.
(* setGlobal *)
Definition set_global (name : bytes) (a : addr) : M unit := fun s =>
  (Ok tt, mkSt (hp s) (set_in_last (frames s) name a) (rule_root s) (root s) (retval s) (io s)).

(* getVariable: None = "unknown variable $x" *)
Definition get_variable (name : bytes) : M (option addr) := fun s =>
  match lookup_frames (frames s) name with
  | Some a => (Ok (Some a), s)
  | None =>
    match name with
    | 36%N :: _ => (Ok None, s)
    | _ => bind (m_alloc VUnknown) (fun a => bind (set_local name a) (fun _ => ret (Some a))) s
    end
  end.
