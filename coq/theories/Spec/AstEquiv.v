(* Spec for the semantic half of C06 / C13: "the two texts evaluate identically".
   Definitions only.

   Two ASTs over two (possibly different) source texts are EQUIVALENT when they have the
   same constructor shape and corresponding tokens agree on what the evaluator reads from
   them: the token TAG, and -- where the evaluator resolves a token against the source
   (literals, identifiers, for-in variables, function names) -- the token TEXT
   [get_string src t].  Token positions and lengths are NOT compared: the evaluator uses
   them only to locate runtime errors.

   Outcomes are compared up to the location of an error ([res_equiv]), states up to the
   tokens recorded by the ghost [IoSignalAt] events ([state_equiv]). *)
From JQ Require Import Base.Bytes Syntax.Token Syntax.Ast.
From JQ Require Import Sem.Value Sem.Ops Sem.Driver.
Open Scope nat_scope.

(* ------------------------------------------------------------------ ASTs *)

Section AstEquiv.
  Variables src1 src2 : bytes.      (* the texts the two ASTs point into *)

  Definition tag_eq (t1 t2 : token) : Prop := ttag t1 = ttag t2.
  (* the same text: [get_string] answers alike (in particular both [Some] of the same bytes
     for tokens that lie inside their sources, as the tokens of a parser always do) *)
  Definition txt_eq (t1 t2 : token) : Prop := get_string src1 t1 = get_string src2 t2.

  (* string, regex and number literals are resolved against the source; true/false/null are not *)
  Definition lit_needs_text (tg : tag) : bool :=
    match litk_of tg with LStr | LRegex | LNum => true | _ => false end.

  Definition lit_equiv (t1 t2 : token) : Prop :=
    tag_eq t1 t2 /\ (lit_needs_text (ttag t1) = true -> txt_eq t1 t2).
  (* `$` is looked up by tag, every other identifier by its text *)
  Definition id_equiv (t1 t2 : token) : Prop :=
    tag_eq t1 t2 /\ (ttag t1 <> TDollar -> txt_eq t1 t2).
  (* a token that is always resolved: for-in variables, function names *)
  Definition name_equiv (t1 t2 : token) : Prop := tag_eq t1 t2 /\ txt_eq t1 t2.

  Inductive opt_rel {A} (R : A -> A -> Prop) : option A -> option A -> Prop :=
  | opt_none : opt_rel R None None
  | opt_some a b : R a b -> opt_rel R (Some a) (Some b).

  (* In two positions an identifier token is resolved by its text whatever its tag is:
     as a match PATTERN (it is the name that gets bound; array patterns nest), and as the
     right operand of `is` when it is neither `function` nor `null`. *)
  Fixpoint pat_txt (p1 p2 : expr) {struct p1} : Prop :=
    match p1, p2 with
    | EId t1, EId t2 => txt_eq t1 t2
    | EArr _ l1, EArr _ l2 =>
      (fix go (a b : list expr) {struct a} : Prop :=
         match a, b with
         | x :: r, y :: s => pat_txt x y /\ go r s
         | _, _ => True
         end) l1 l2
    | _, _ => True
    end.
  Fixpoint pats_txt (a b : list expr) {struct a} : Prop :=
    match a, b with
    | x :: r, y :: s => pat_txt x y /\ pats_txt r s
    | _, _ => True
    end.

  (* the right operand of `is` is not evaluated but inspected as syntax: an identifier token
     (`function`, `null`, or a type name that is resolved by its text); anything else is a
     runtime error *)
  Definition is_rhs_equiv (r1 r2 : expr) : Prop :=
    match r1, r2 with
    | EId t1, EId t2 => tag_eq t1 t2 /\ (isk_of (ttag t1) = IsName -> txt_eq t1 t2)
    | EId _, _ | _, EId _ => False
    | _, _ => True
    end.

  (* one case of a match expression: patterns (related as expressions AND as patterns), body *)
  Definition case_rel (E : expr -> expr -> Prop) (S : stmt -> stmt -> Prop)
             (k1 k2 : list expr * stmt) : Prop :=
    Forall2 E (fst k1) (fst k2) /\ pats_txt (fst k1) (fst k2) /\ S (snd k1) (snd k2).

  Inductive expr_equiv : expr -> expr -> Prop :=
  | EqLit t1 t2 : lit_equiv t1 t2 -> expr_equiv (ELit t1) (ELit t2)
  | EqId t1 t2 : id_equiv t1 t2 -> expr_equiv (EId t1) (EId t2)
  | EqArr t1 t2 l1 l2 :
      tag_eq t1 t2 -> Forall2 expr_equiv l1 l2 -> expr_equiv (EArr t1 l1) (EArr t2 l2)
  | EqObj t1 t2 l1 l2 :
      tag_eq t1 t2 ->
      Forall2 (fun kv1 kv2 => fst kv1 = fst kv2 /\ expr_equiv (snd kv1) (snd kv2)) l1 l2 ->
      expr_equiv (EObj t1 l1) (EObj t2 l2)
  | EqUn x1 x2 op1 op2 pf :
      expr_equiv x1 x2 -> tag_eq op1 op2 -> expr_equiv (EUn x1 op1 pf) (EUn x2 op2 pf)
  | EqBin l1 l2 r1 r2 op1 op2 :
      expr_equiv l1 l2 -> tag_eq op1 op2 ->
      (ttag op1 <> TIs -> expr_equiv r1 r2) ->
      (ttag op1 = TIs -> is_rhs_equiv r1 r2) ->
      expr_equiv (EBin l1 r1 op1) (EBin l2 r2 op2)
  | EqCall f1 f2 a1 a2 :
      expr_equiv f1 f2 -> Forall2 expr_equiv a1 a2 -> expr_equiv (ECall f1 a1) (ECall f2 a2)
  | EqMatch t1 t2 v1 v2 c1 c2 :
      tag_eq t1 t2 -> expr_equiv v1 v2 ->
      Forall2 (case_rel expr_equiv stmt_equiv) c1 c2 ->
      expr_equiv (EMatch t1 v1 c1) (EMatch t2 v2 c2)
  with stmt_equiv : stmt -> stmt -> Prop :=
  | SqBlock t1 t2 b1 b2 :
      tag_eq t1 t2 -> Forall2 stmt_equiv b1 b2 -> stmt_equiv (SBlock t1 b1) (SBlock t2 b2)
  | SqPrint t1 t2 a1 a2 :
      tag_eq t1 t2 -> Forall2 expr_equiv a1 a2 -> stmt_equiv (SPrint t1 a1) (SPrint t2 a2)
  | SqExpr e1 e2 : expr_equiv e1 e2 -> stmt_equiv (SExpr e1) (SExpr e2)
  | SqReturnS e1 e2 : expr_equiv e1 e2 -> stmt_equiv (SReturn (Some e1)) (SReturn (Some e2))
  | SqReturnN : stmt_equiv (SReturn None) (SReturn None)
  | SqBreak t1 t2 : tag_eq t1 t2 -> stmt_equiv (SBreak t1) (SBreak t2)
  | SqContinue t1 t2 : tag_eq t1 t2 -> stmt_equiv (SContinue t1) (SContinue t2)
  | SqNext t1 t2 : tag_eq t1 t2 -> stmt_equiv (SNext t1) (SNext t2)
  | SqExit t1 t2 : tag_eq t1 t2 -> stmt_equiv (SExit t1) (SExit t2)
  | SqIfS c1 c2 b1 b2 e1 e2 :
      expr_equiv c1 c2 -> stmt_equiv b1 b2 -> stmt_equiv e1 e2 ->
      stmt_equiv (SIf c1 b1 (Some e1)) (SIf c2 b2 (Some e2))
  | SqIfN c1 c2 b1 b2 :
      expr_equiv c1 c2 -> stmt_equiv b1 b2 -> stmt_equiv (SIf c1 b1 None) (SIf c2 b2 None)
  | SqWhile c1 c2 b1 b2 :
      expr_equiv c1 c2 -> stmt_equiv b1 b2 -> stmt_equiv (SWhile c1 b1) (SWhile c2 b2)
  | SqFor a1 a2 c1 c2 p1 p2 b1 b2 :
      expr_equiv a1 a2 -> expr_equiv c1 c2 -> expr_equiv p1 p2 -> stmt_equiv b1 b2 ->
      stmt_equiv (SFor a1 c1 p1 b1) (SFor a2 c2 p2 b2)
  | SqForIn id1 id2 ix1 ix2 it1 it2 b1 b2 :
      name_equiv id1 id2 -> opt_rel name_equiv ix1 ix2 -> expr_equiv it1 it2 -> stmt_equiv b1 b2 ->
      stmt_equiv (SForIn id1 ix1 it1 b1) (SForIn id2 ix2 it2 b2).

  Definition case_equiv : list expr * stmt -> list expr * stmt -> Prop := case_rel expr_equiv stmt_equiv.

  Definition func_equiv (f1 f2 : func) : Prop :=
    name_equiv (fident f1) (fident f2) /\ fparams f1 = fparams f2 /\ stmt_equiv (fbody f1) (fbody f2).
  Definition funcs_equiv : list func -> list func -> Prop := Forall2 func_equiv.

  Definition rule_equiv (r1 r2 : rule) : Prop :=
    rkind r1 = rkind r2 /\ opt_rel expr_equiv (rpattern r1) (rpattern r2) /\
    stmt_equiv (rbody r1) (rbody r2).

  Definition program_equiv (p1 p2 : program) : Prop :=
    Forall2 rule_equiv (prules p1) (prules p2) /\ funcs_equiv (pfuncs p1) (pfuncs p2).
End AstEquiv.

(* ------------------------------------------------------------------ outcomes and states *)

(* two errors are identified when they are of the same kind (their line, column and source
   line may differ); every other outcome must be the same *)
Definition res_equiv {A} (r1 r2 : res A) : Prop :=
  match r1, r2 with
  | Err e1, Err e2 => ekind_of e1 = ekind_of e2
  | Err _, _ | _, Err _ => False
  | _, _ => r1 = r2
  end.

(* the ghost event [IoSignalAt t] records a token: compared by tag *)
Definition io_event_equiv (a b : io_event) : Prop :=
  match a, b with
  | IoSignalAt t1, IoSignalAt t2 => ttag t1 = ttag t2
  | IoSignalAt _, _ | _, IoSignalAt _ => False
  | _, _ => a = b
  end.
Definition io_equiv : list io_event -> list io_event -> Prop := Forall2 io_event_equiv.

Record state_equiv (s1 s2 : st) : Prop := mkStEq {
  se_hp : hp s1 = hp s2;
  se_frames : frames s1 = frames s2;
  se_rule_root : rule_root s1 = rule_root s2;
  se_root : root s1 = root s2;
  se_retval : retval s1 = retval s2;
  se_io : io_equiv (io s1) (io s2)
}.

(* the results of running two computations of the evaluator monad *)
Definition runs_equiv {A} (p1 p2 : res A * st) : Prop :=
  res_equiv (fst p1) (fst p2) /\ state_equiv (snd p1) (snd p2).

(* two computations that cannot be told apart: from equivalent states, equivalent results *)
Definition M_equiv {A} (m1 m2 : M A) : Prop :=
  forall s1 s2, state_equiv s1 s2 -> runs_equiv (m1 s1) (m2 s2).

(* the outcome class of a run: errors up to their location *)
Definition outcome_equiv (o1 o2 : outcome) : Prop :=
  match o1, o2 with
  | OSyntax _, OSyntax _ => True
  | ORuntime _, ORuntime _ => True
  | OSyntax _, _ | _, OSyntax _ | ORuntime _, _ | _, ORuntime _ => False
  | _, _ => o1 = o2
  end.

(* what the exported EvalExpression reports *)
Definition expr_result_equiv (x1 x2 : expr_result) : Prop :=
  outcome_equiv (x_outcome x1) (x_outcome x2) /\ x_pretty x1 = x_pretty x2 /\
  state_equiv (x_state x1) (x_state x2).

(* what a run of a program reports *)
Definition run_result_equiv (r1 r2 : run_result) : Prop :=
  outcome_equiv (r_outcome r1) (r_outcome r2) /\ state_equiv (r_state r1) (r_state r2).
