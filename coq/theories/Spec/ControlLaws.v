(* Spec/ControlLaws.v -- the vocabulary in which the control-flow laws of C07 are stated
   (README "Statements"): equality of computations, the outcome of one loop-body
   execution, the generic for-in fold over an abstract body executor, the run relation
   that counts body executions, propagation paths through nested statements, and the
   syntactic notion "ends in an if without else".  DEFINITIONS ONLY. *)
From JQ Require Import Base.Bytes Num.F64 Syntax.Token Syntax.Lexer Syntax.Ast Syntax.Parser.
From JQ Require Import Json.JValue Oracle.Utf8.
From JQ Require Import Gen.Generated Sem.Value Sem.Ops Sem.Natives Sem.Eval.
Open Scope nat_scope.

(* ------------------------------------------------------------------ computations *)

(* equality of two computations: the same outcome and the same final state from every
   state (functions [st -> res A * st], compared pointwise) *)
Definition meq {A} (m1 m2 : M A) : Prop := forall s, m1 s = m2 s.
Infix "=m=" := meq (at level 70, no associativity).

(* the truth value of a condition: evaluate, read the cell, isTruthy *)
Definition truth_of (m : M addr) : M bool :=
  let* c := m in let* v := m_load c in ret (is_truthy v).

(* an outcome other than Ok, at another result type *)
Definition cast_res {A B} (r : res A) : res B :=
  match r with
  | Ok _ => Panic | Err e => Err e | Sig x => Sig x | Panic => Panic | Fuel => Fuel | Unsupp => Unsupp
  end.

(* outcomes a loop hands on unchanged: everything except normal completion, break, continue *)
Definition escapes (r : res unit) : Prop :=
  match r with
  | Ok _ | Sig SigBreak | Sig SigContinue => False
  | _ => True
  end.

(* one execution of a loop body [m]: true = go on with the next iteration (the body
   completed or executed `continue`), false = the loop ends (`break`); every other
   outcome leaves the loop unchanged *)
Definition run_body (m : M unit) : M bool := fun s =>
  match m s with
  | (Ok _, s') => (Ok true, s')
  | (Sig SigContinue, s') => (Ok true, s')
  | (Sig SigBreak, s') => (Ok false, s')
  | (r, s') => (cast_res r, s')
  end.

(* the --fuzz iteration cap (not a documented behaviour: only under fuzzing) *)
Definition loop_limit_hit (fuzzing : bool) (count : nat) : bool :=
  (fuzzing && Z.ltb fuzzing_loop_limit (Z.of_nat count))%bool.

(* ------------------------------------------------------------------ the for-in fold *)

Section Fold.
  Context {A : Type}.
  Variable setup : A -> M unit.        (* bind the loop variable(s) to an item *)
  Variable exec : nat -> M bool.       (* run the body once, with the given fuel *)

  (* for x in items { setup x; body }: left to right, until the body says stop *)
  Fixpoint forin_fold (n : nat) (items : list A) : M unit :=
    match n with
    | O => fail Fuel
    | S f =>
      match items with
      | [] => ret tt
      | x :: rest =>
        setup x ;;;
        let* go := exec f in
        if go then forin_fold f rest else ret tt
      end
    end.

  (* The counting instrument.  [loop_run n items s visited why out]: started in state [s]
     with fuel [n], the loop executes the body on exactly the items [visited], in this
     order, then ends for the reason [why] with outcome and state [out]. *)
  Inductive stop_reason := Completed | Broke | Aborted | OutOfFuel.

  Definition iteration (f : nat) (x : A) : M bool := setup x ;;; exec f.

  Inductive loop_run : nat -> list A -> st -> list A -> stop_reason -> res unit * st -> Prop :=
  | LR_fuel : forall items s, loop_run O items s [] OutOfFuel (Fuel, s)
  | LR_end : forall f s, loop_run (S f) [] s [] Completed (Ok tt, s)
  | LR_next : forall f x xs s s1 vis why out,
      iteration f x s = (Ok true, s1) ->
      loop_run f xs s1 vis why out ->
      loop_run (S f) (x :: xs) s (x :: vis) why out
  | LR_break : forall f x xs s s1,
      iteration f x s = (Ok false, s1) ->
      loop_run (S f) (x :: xs) s [x] Broke (Ok tt, s1)
  | LR_abort : forall f x xs s s1 r,
      iteration f x s = (r, s1) -> (forall b, r <> Ok b) ->
      loop_run (S f) (x :: xs) s [x] Aborted (cast_res r, s1).
End Fold.

Definition set_index (ixlocal : option addr) (v : value) : M unit :=
  match ixlocal with Some a => m_store a v | None => ret tt end.

(* array: the i-th cell of the backing array of the slice is taken, the index variable
   := i, then the loop variable := the VALUE of that cell, read at that moment *)
Definition arr_setup (local : addr) (ixlocal : option addr) (bid : positive) (off : nat)
           (i : nat) : M unit :=
  let* h := get_heap in
  let itemc := nth_error (get_back h bid) (off + i) in
  set_index ixlocal (num_of_nat i) ;;;
  let* item := match itemc with Some c => m_load c | None => ret (VNil None) end in
  m_store local item.

(* object: second variable := the value stored under the key now, loop variable := key *)
Definition obj_setup (local : addr) (ixlocal : option addr) (oid : positive)
           (k : bytes) : M unit :=
  let* h := get_heap in
  let v := match assoc_get k (get_obj h oid) with
           | Some c => load h c | None => VNil None end in
  set_index ixlocal v ;;;
  m_store local (VStr k).

(* string: second variable := byte offset, loop variable := the character *)
Definition str_setup (local : addr) (ixlocal : option addr) (oc : nat * bytes) : M unit :=
  set_index ixlocal (num_of_nat (fst oc)) ;;;
  m_store local (VStr (snd oc)).

(* keys of an association list are strictly ascending in byte order *)
Fixpoint keys_ascending (ks : list bytes) : Prop :=
  match ks with
  | [] => True
  | k :: rest =>
    match rest with
    | [] => True
    | k' :: _ => bytes_cmp k k' = Lt /\ keys_ascending rest
    end
  end.

(* every object of the heap has its keys in ascending order *)
Definition heap_objs_sorted (h : heap) : Prop :=
  forall oid, keys_ascending (map fst (get_obj h oid)).

Section Laws.
  Variable src : bytes.
  Variable funcs : list func.
  Variable fuzzing : bool.

  Let ES := eval_stmt src funcs fuzzing.
  Let EE := eval_expr src funcs fuzzing.
  Let EB := eval_body src funcs fuzzing.

  (* resolving a for-in variable: getVariable; the error is reported at the loop variable *)
  Definition resolve_var (t errtok : token) : M addr :=
    let* name := tok_string src t in
    let* r := get_variable name in
    match r with
    | Some a => ret a
    | None => rt_error src errtok
    end.

  (* the head of a for-in statement: both variables are resolved, THEN the iterable is
     evaluated; the result is the list of per-item variable bindings, in visiting order *)
  Definition resolve_index (ix : option token) (id : token) : M (option addr) :=
    match ix with
    | None => ret None
    | Some t => let* a := resolve_var t id in ret (Some a)
    end.

  Definition forin_header (n : nat) (id : token) (ix : option token) (iter : expr)
    : M (list (M unit)) :=
    let* local := resolve_var id id in
    let* ixlocal := resolve_index ix id in
    let* ic := EE n iter in
    let* iv := m_load ic in
    match iv with
    | VArr bid off len => ret (map (arr_setup local ixlocal bid off) (seq 0 len))
    | VObj oid =>
      let* h := get_heap in
      ret (map (obj_setup local ixlocal oid) (map fst (get_obj h oid)))
    | VStr s => ret (map (str_setup local ixlocal) (runes s))
    | _ => rt_error src (expr_token iter)
    end.

  (* the for-in statement *)
  Definition forin_spec (n : nat) (id : token) (ix : option token) (iter : expr) (body : stmt)
    : M unit :=
    let* bindings := forin_header n id ix iter in
    forin_fold (fun b => b) (fun k => EB k body) n bindings.

  (* the header expressions of a loop statement: what it evaluates besides its body *)
  Definition loop_headers (s : stmt) : list expr :=
    match s with
    | SWhile c _ => [c]
    | SFor pre c post _ => [pre; c; post]
    | SForIn _ _ iter _ => [iter]
    | _ => []
    end.
  Definition is_loop (s : stmt) : Prop :=
    match s with SWhile _ _ | SFor _ _ _ _ | SForIn _ _ _ _ => True | _ => False end.

  (* ---------------------------------------------------------------- function calls *)

  (* parameters are bound to fresh cells holding the arguments (null when missing) *)
  Fixpoint bind_params (ps : list bytes) (avs : list value) : M unit :=
    match ps with
    | [] => ret tt
    | p :: ps' =>
      match avs with
      | [] => (let* c := nil_cell in set_local p c) ;;; bind_params ps' []
      | v :: avs' => (let* c := m_alloc v in set_local p c) ;;; bind_params ps' avs'
      end
    end.

  (* entering a user function: a new frame named after it; false = call depth exceeded *)
  Definition enter_call (fn : func) (args : list value) : M bool :=
    let* name := tok_string src (fident fn) in
    let* ok := push_frame name in
    if ok then bind_params (fparams fn) args ;;; ret true else ret false.

  (* the value of a call that ended in `return`: a fresh cell with the value of the
     returned cell, or null for a bare `return` *)
  Definition return_value : M addr :=
    let* s := get_st in
    match retval s with
    | Some rc => let* v := m_load rc in m_alloc v
    | None => nil_cell
    end.

  Definition call_user_spec (n : nat) (tok : token) (fn : func) (args : list value) : M addr :=
    let* entered := enter_call fn args in
    if entered then
      let* r := catch (ES n (fbody fn)) in
      pop_frame ;;;
      match r with
      | Ok _ => nil_cell                         (* fell off the end: null *)
      | Sig SigReturn => return_value            (* `return` ends here *)
      | other => fail (cast_res other)           (* errors, next, exit, ... go on *)
      end
    else rt_error src tok.

  (* ---------------------------------------------------------------- propagation paths *)

  (* a condition evaluates to a given truth value, from s to s1 *)
  Definition cond_is (n : nat) (c : expr) (b : bool) (s s1 : st) : Prop :=
    truth_of (EE n c) s = (Ok b, s1).

  (* a loop body runs to the point where the loop goes on with its next iteration *)
  Definition body_goes_on (n : nat) (body : stmt) (s s1 : st) : Prop :=
    EB n body s = (Ok true, s1).

  (* [escape_path n s st r st']: the execution of statement [s] with fuel [n] from [st]
     reaches -- through statements of blocks that complete, conditions, and loop iterations
     that go on -- a sub-statement nested in blocks, conditionals and loops whose outcome
     is [r] in state [st'].  The base case is an arbitrary statement (e.g. `return e`). *)
  Inductive escape_path : nat -> stmt -> st -> res unit -> st -> Prop :=
  | EP_here : forall n s st r st',
      ES n s st = (r, st') -> escape_path n s st r st'
  | EP_block_here : forall n t x rest st r st',
      escape_path n x st r st' ->
      escape_path (S n) (SBlock t (x :: rest)) st r st'
  | EP_block_later : forall n t x rest st st1 r st',
      ES n x st = (Ok tt, st1) ->
      escape_path (S n) (SBlock t rest) st1 r st' ->
      escape_path (S n) (SBlock t (x :: rest)) st r st'
  | EP_if_then : forall n c body els st st1 r st',
      cond_is n c true st st1 ->
      escape_path n body st1 r st' ->
      escape_path (S n) (SIf c body els) st r st'
  | EP_if_else : forall n c body e st st1 r st',
      cond_is n c false st st1 ->
      escape_path n e st1 r st' ->
      escape_path (S n) (SIf c body (Some e)) st r st'
  | EP_while : forall n c body st r st',
      while_path n c body 0 st r st' ->
      escape_path (S n) (SWhile c body) st r st'
  | EP_for : forall n pre c post body st pc st1 r st',
      EE n pre st = (Ok pc, st1) ->
      for_path n c post body 0 st1 r st' ->
      escape_path (S n) (SFor pre c post body) st r st'
  | EP_forin : forall n id ix iter body st bindings st1 r st',
      forin_header n id ix iter st = (Ok bindings, st1) ->
      fold_path body n bindings st1 r st' ->
      escape_path (S n) (SForIn id ix iter body) st r st'

  (* inside the body of a loop: the body is run by eval_body with fuel n, i.e. by
     eval_stmt with fuel n-1 *)
  with body_path : nat -> stmt -> st -> res unit -> st -> Prop :=
  | BP : forall n body st r st',
      escape_path n body st r st' -> body_path (S n) body st r st'

  with while_path : nat -> expr -> stmt -> nat -> st -> res unit -> st -> Prop :=
  | WP_here : forall n c body k st st1 r st',
      cond_is n c true st st1 ->
      body_path n body st1 r st' ->
      while_path (S n) c body k st r st'
  | WP_later : forall n c body k st st1 st2 r st',
      cond_is n c true st st1 ->
      body_goes_on n body st1 st2 ->
      loop_limit_hit fuzzing k = false ->
      while_path n c body (S k) st2 r st' ->
      while_path (S n) c body k st r st'

  with for_path : nat -> expr -> expr -> stmt -> nat -> st -> res unit -> st -> Prop :=
  | FP_here : forall n c post body k st st1 r st',
      cond_is n c true st st1 ->
      body_path n body st1 r st' ->
      for_path (S n) c post body k st r st'
  | FP_later : forall n c post body k st st1 st2 pc st3 r st',
      cond_is n c true st st1 ->
      body_goes_on n body st1 st2 ->
      EE n post st2 = (Ok pc, st3) ->
      loop_limit_hit fuzzing k = false ->
      for_path n c post body (S k) st3 r st' ->
      for_path (S n) c post body k st r st'

  with fold_path : stmt -> nat -> list (M unit) -> st -> res unit -> st -> Prop :=
  | DP_here : forall body n (b : M unit) rest st st1 r st',
      b st = (Ok tt, st1) ->
      body_path n body st1 r st' ->
      fold_path body (S n) (b :: rest) st r st'
  | DP_later : forall body n (b : M unit) rest st st1 st2 r st',
      b st = (Ok tt, st1) ->
      body_goes_on n body st1 st2 ->
      fold_path body n rest st2 r st' ->
      fold_path body (S n) (b :: rest) st r st'.

End Laws.

(* ------------------------------------------------------------------ parser side *)

(* the statement ends in an `if` that has no `else` (so that a following `else` token
   could syntactically belong to it) *)
Fixpoint ends_in_open_if (s : stmt) : bool :=
  match s with
  | SIf _ _ None => true
  | SIf _ _ (Some e) => ends_in_open_if e
  | SWhile _ b => ends_in_open_if b
  | SFor _ _ _ b => ends_in_open_if b
  | SForIn _ _ _ b => ends_in_open_if b
  | _ => false
  end.

(* the statement contains, somewhere, an `else` attached to an `if` whose then-branch
   ends in an open `if`: the shape a wrong dangling-else resolution would produce *)
Fixpoint misattached_else (s : stmt) : bool :=
  match s with
  | SIf _ b None => misattached_else b
  | SIf _ b (Some e) => (ends_in_open_if b || misattached_else b || misattached_else e)%bool
  | SWhile _ b => misattached_else b
  | SFor _ _ _ b => misattached_else b
  | SForIn _ _ _ b => misattached_else b
  | SBlock _ body => existsb misattached_else body
  | _ => false
  end.

(* `for (` and the first expression: the point where `for` and `for-in` are told apart *)
Definition for_head (n : nat) : P expr :=
  set_end false ;; consume [TFor] ;; consume [TLParen] ;; parse_expr_prec n (prec_index PrecAssign).

(* an identifier followed by `in` or `,` *)
Definition forin_head (pre : expr) (next : tag) : bool :=
  match is_eid pre with
  | Some _ => (tag_eqb next TIn || tag_eqb next TComma)%bool
  | None => false
  end.

(* no statement of the program (rule bodies, function bodies; nested blocks included,
   statements inside match-expression arms not included) has a misattached else *)
Definition program_else_ok (prog : program) : bool :=
  (forallb (fun r => negb (misattached_else (rbody r))) (prules prog) &&
   forallb (fun f => negb (misattached_else (fbody f))) (pfuncs prog))%bool.
