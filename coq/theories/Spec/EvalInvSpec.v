(* Specification vocabulary for the global invariants of the evaluator
   (C11 faults, C08 frames, C20 depth, C01 signals). Definitions only. *)
From Coq Require Import List ZArith.
From JQ Require Import Base.Bytes Syntax.Token Syntax.Ast.
From JQ Require Import Gen.Generated Sem.Value.
Import ListNotations.
Open Scope nat_scope.

(* a computation relates every start state to its end state by R, whatever the outcome *)
Definition preserves (R : st -> st -> Prop) {A} (m : M A) : Prop :=
  forall s r s', m s = (r, s') -> R s s'.

(* ... whatever the outcome other than a Go panic, from start states satisfying P *)
Definition preserves_unless_panic (P : st -> Prop) (R : st -> st -> Prop) {A} (m : M A) : Prop :=
  forall s r s', P s -> m s = (r, s') -> r <> Panic -> R s s'.

(* a state predicate kept by a computation, whatever the outcome *)
Definition keeps (P : st -> Prop) {A} (m : M A) : Prop :=
  forall s r s', P s -> m s = (r, s') -> P s'.

(* C11: the log of the run only grows *)
Definition log_grows (s s' : st) : Prop := exists l, io s' = l ++ io s.

(* C11: when a computation ends in an error, the most recent event of the log is the
   raise of that error: nothing was written after the failure *)
Definition err_last {A} (m : M A) : Prop :=
  forall s r s', m s = (r, s') ->
    match r with Err _ => exists l, io s' = IoRaise :: l | _ => True end.

(* C11: no raise among these events *)
Definition quiet (l : list io_event) : Prop := ~ In IoRaise l.

(* C11: a failure is never silently ignored.  A computation that comes back with a value or
   a control-flow signal has raised nothing on the way; one that comes back with an error
   has raised exactly once, and that is the most recent event *)
Definition raises_surface {A} (m : M A) : Prop :=
  forall s r s', m s = (r, s') ->
    match r with
    | Ok _ | Sig _ => exists l, io s' = l ++ io s /\ quiet l
    | Err _ => exists l, io s' = IoRaise :: l ++ io s /\ quiet l
    | Panic | Fuel | Unsupp => True
    end.

(* C08: the stack of frame NAMES (hence the depth) *)
Definition frame_names (s : st) : list bytes := map fname (frames s).
Definition same_frames (s s' : st) : Prop := frame_names s' = frame_names s.
Definition has_frame (s : st) : Prop := frames s <> [].

(* C20: the stack never holds more than call_depth_limit + 1 frames besides <root> *)
Definition depth_ok (s : st) : Prop := (Z.of_nat (length (frames s)) <= call_depth_limit + 1)%Z.

(* C01: outcomes *)
Definition is_loop_signal {A} (r : res A) : Prop := r = Sig SigBreak \/ r = Sig SigContinue.
