(* Spec/IdealList.v -- the ideal list that a jqawk array is measured against (C15, C09).
   DEFINITIONS ONLY.  The proofs are in Proofs/Arrays.v, the theorems in Props/C15_arrays.v,
   Props/C09_stores.v, Props/C20_fill.v.

   An array is used "through the name that holds it": the cell [pa] that contains the slice
   header.  [abs h pa] is the list of element values seen through that cell; the operations
   of the language are compared with [ideal_step] on that list. *)
From Coq Require Import List ZArith Bool Permutation Sorted.
From JQ Require Import Base.Bytes Num.F64 Oracle.Sort Gen.Generated.
From JQ Require Import Sem.Value Sem.Natives Sem.Eval.
Import ListNotations.
Open Scope nat_scope.

(* ---------------------------------------------------------------- operations and results *)

Inductive op :=
| Push (x : value)                 (* a.push(x) *)
| Pop                              (* a.pop() *)
| PopFirst                         (* a.popfirst() *)
| Get (f : float)                  (* a[f]            (read) *)
| SetAt (f : float) (v : value)    (* a[f] = v        (Value.SetMember with a cell holding v) *)
| Length                           (* a.length() *)
| Contains (x : value)             (* a.contains(x) *)
| Sort.                            (* a.sort() *)

Inductive result :=
| RVal (v : value)         (* a plain value: an element, a number, a boolean, null *)
| RList (l : list value)   (* an array, given by its contents *)
| RAbsent                  (* a read past the end: there is no such element *)
| RDone                    (* a store was performed *)
| RErr                     (* runtime error (also: sort on an array that holds a function) *)
| RPanic                   (* a crash; never produced by the ideal list nor (Props/C16 methods_total) by a native *)
| RUnsupp                  (* a comparison outside the modelled fragment of ParseFloat *)
| ROther.                  (* anything else; never produced by the ideal list *)

(* ---------------------------------------------------------------- index rules *)

(* Go's index rules of GetMember: a negative index counts from the end, an index before
   the start is an error (None); the result may lie past the end. *)
Definition resolve_index (len : nat) (i : Z) : option Z :=
  let k := if Z.ltb i 0 then (Z.of_nat len + i)%Z else i in
  if Z.ltb k 0 then None else Some k.

Definition ideal_get (l : list value) (i : Z) : result :=
  match resolve_index (length l) i with
  | None => RErr
  | Some k => match nth_error l (Z.to_nat k) with Some v => RVal v | None => RAbsent end
  end.

Definition nil_value : value := VNil None.

(* a[i] = v: replace in range; past the end pad with null, refused above fill_limit *)
Definition ideal_set (l : list value) (i : Z) (v : value) : list value * result :=
  match resolve_index (length l) i with
  | None => (l, RErr)
  | Some k =>
    if Z.ltb k (Z.of_nat (length l)) then (list_set l (Z.to_nat k) v, RDone)
    else if Z.ltb fill_limit k then (l, RErr)
    else (l ++ repeat nil_value (Z.to_nat k - length l) ++ [v], RDone)
  end.

(* ---------------------------------------------------------------- contains *)

(* == applied to each element in order; the first decisive comparison wins *)
Fixpoint ideal_contains (x : value) (l : list value) : result :=
  match l with
  | [] => RVal (VBool false)
  | y :: r =>
    match equals_values x y with
    | EqOk true => RVal (VBool true)
    | EqOk false => ideal_contains x r
    | EqErr => RErr
    | EqUnsupp => RUnsupp
    end
  end.

(* ---------------------------------------------------------------- sort *)

Definition copyable (v : value) : bool :=
  match copy_value v with Some _ => true | None => false end.
Definition copy_of (v : value) : value :=
  match copy_value v with Some y => y | None => v end.
Definition is_num (v : value) : bool := match v with VNum _ => true | _ => false end.
Definition num_key (v : value) : float := match v with VNum f => f | _ => f_zero end.

(* the two orders of sort *)
Definition le_num (a b : value) : bool := le_of_cmp cmp_float (num_key a) (num_key b).
Definition le_str (a b : value) : bool := le_of_cmp bytes_cmp (to_str a) (to_str b).
Definition sort_le (l : list value) : value -> value -> bool :=
  if forallb is_num l then le_num else le_str.

Definition ideal_sort (l : list value) : list value :=
  stable_sort (sort_le l) (map copy_of l).

(* what "stably sorted" means, declaratively: a permutation, ordered, and elements that
   compare equal keep their relative order *)
Definition equiv_by {A} (le : A -> A -> bool) (a b : A) : bool := le a b && le b a.
Definition is_stable_sort {A} (le : A -> A -> bool) (l l' : list A) : Prop :=
  Permutation l' l /\
  StronglySorted (fun a b => le a b = true) l' /\
  forall a, filter (equiv_by le a) l' = filter (equiv_by le a) l.

(* ---------------------------------------------------------------- one step of the ideal list *)

Definition ideal_step (l : list value) (o : op) : list value * result :=
  match o with
  | Push x => (l ++ [x], RList (l ++ [x]))
  | Pop =>
    match l with
    | [] => ([], RVal nil_value)
    | _ :: _ => (removelast l, RVal (last l nil_value))
    end
  | PopFirst =>
    match l with
    | [] => ([], RVal nil_value)
    | y :: r => (r, RVal y)
    end
  | Get f => (l, ideal_get l (f_trunc_int64 f))
  | SetAt f v => ideal_set l (f_trunc_int64 f) v
  | Length => (l, RVal (VNum (f_of_Z (Z.of_nat (length l)))))
  | Contains x => (l, ideal_contains x l)
  | Sort => (l, if forallb copyable l then RList (ideal_sort l) else RErr)
  end.

Fixpoint ideal_run (l : list value) (os : list op) : list value * list result :=
  match os with
  | [] => (l, [])
  | o :: r =>
    let '(l1, x) := ideal_step l o in
    let '(l2, xs) := ideal_run l1 r in
    (l2, x :: xs)
  end.

(* ---------------------------------------------------------------- the model side *)

(* the contents seen through the holder cell *)
Definition abs (h : heap) (pa : addr) : option (list value) :=
  match load h pa with
  | VArr bid off len => Some (map (load h) (arr_cells h bid off len))
  | _ => None
  end.

(* the contents of an array VALUE (used for results that are arrays) *)
Definition contents (h : heap) (v : value) : list value :=
  match v with
  | VArr bid off len => map (load h) (arr_cells h bid off len)
  | _ => []
  end.

(* a well-formed holder: the window lies inside the backing, everything is allocated, the
   element cells are pairwise distinct and none of them is the holder itself *)
Definition wf_holder (h : heap) (pa : addr) : Prop :=
  exists bid off len,
    load h pa = VArr bid off len /\
    off + len <= length (get_back h bid) /\
    (pa < next h)%positive /\ (bid < next h)%positive /\
    Forall (fun c => (c < next h)%positive) (arr_cells h bid off len) /\
    ~ In pa (arr_cells h bid off len) /\
    NoDup (arr_cells h bid off len).

(* observation of what a native returned *)
Definition obs_plain (r : res nres) : result :=
  match r with
  | Ok (NVal v) => RVal v
  | Ok NNil => ROther
  | Ok NError => RErr
  | Panic => RPanic
  | Unsupp => RUnsupp
  | _ => ROther
  end.
Definition obs_array (h : heap) (r : res nres) : result :=
  match r with
  | Ok (NVal v) => RList (contents h v)
  | Ok NNil => ROther
  | Ok NError => RErr
  | Panic => RPanic
  | Unsupp => RUnsupp
  | _ => ROther
  end.

(* one operation applied through the holder cell [pa] *)
Definition run_step (pa : addr) (s : st) (o : op) : result * st :=
  match o with
  | Push x => let '(r, s') := native_call NPush [x] (Some pa) s in (obs_array (hp s') r, s')
  | Pop => let '(r, s') := native_call NPop [] (Some pa) s in (obs_plain r, s')
  | PopFirst => let '(r, s') := native_call NPopFirst [] (Some pa) s in (obs_plain r, s')
  | Length => let '(r, s') := native_call NArrLength [] (Some pa) s in (obs_plain r, s')
  | Contains x => let '(r, s') := native_call NContains [x] (Some pa) s in (obs_plain r, s')
  | Sort => let '(r, s') := native_call NSort [] (Some pa) s in (obs_array (hp s') r, s')
  | Get f =>
    (match get_member (hp s) (load (hp s) pa) (VNum f) with
     | GmCell c => RVal (load (hp s) c)
     | GmNone => RAbsent
     | GmErr => RErr
     | _ => ROther
     end, s)
  | SetAt f v =>
    let '(r, s') := bind (m_alloc v) (fun c => set_member pa (VNum f) c) s in
    (match r with Ok (Some _) => RDone | Ok None => RErr | _ => ROther end, s')
  end.

Fixpoint run_ops (pa : addr) (s : st) (os : list op) : list result * st :=
  match os with
  | [] => ([], s)
  | o :: r =>
    let '(x, s1) := run_step pa s o in
    let '(xs, s2) := run_ops pa s1 r in
    (x :: xs, s2)
  end.
