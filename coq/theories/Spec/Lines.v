(* Spec/Lines.v -- declarative vocabulary for source positions (property C12).
   A program text is a list of bytes; lines are separated by the byte 10 ('\n').
   Nothing else (CR, UTF-8 continuation bytes, invalid bytes) is special. *)
From JQ Require Import Base.Bytes.
Open Scope nat_scope.

Notation NL := 10%N (only parsing).

(* number of newline bytes in s *)
Fixpoint count_nl (s : bytes) : nat :=
  match s with
  | [] => 0
  | c :: s' => if N.eqb c NL then S (count_nl s') else count_nl s'
  end.

(* split at every newline byte: [lines s] always has [1 + count_nl s] elements,
   the newline bytes themselves are dropped, a trailing newline yields a final empty line *)
Fixpoint lines (s : bytes) : list bytes :=
  match s with
  | [] => [[]]
  | c :: s' =>
    if N.eqb c NL then [] :: lines s'
    else (c :: hd [] (lines s')) :: tl (lines s')
  end.

(* the inverse of [lines]: join with newline bytes *)
Fixpoint unlines (ls : list bytes) : bytes :=
  match ls with
  | [] => []
  | [l] => l
  | l :: r => l ++ NL :: unlines r
  end.

(* 0-based index of the line that byte offset [pos] belongs to: the number of newline
   bytes strictly before [pos] (a newline byte belongs to the line it terminates) *)
Definition line_of_pos (src : bytes) (pos : nat) : nat := count_nl (firstn pos src).

(* byte offset of the first byte of (0-based) line k: every earlier line contributes its
   length plus one newline byte *)
Definition line_start (src : bytes) (k : nat) : nat :=
  list_sum (map (fun l => S (length l)) (firstn k (lines src))).

(* 0-based column of [pos] inside its own line *)
Definition col_of_pos (src : bytes) (pos : nat) : nat := pos - line_start src (line_of_pos src pos).
