(* C19: what `match (v) { p1, p2 => body ... }` means, written by structural recursion on the
   patterns (no fuel), as the property reads:

   - the alternatives of a case are tried left to right, the first that matches wins;
   - a literal matches when  subject == literal  (an incomparable pair is an error);
   - an identifier always matches and binds the subject CELL under its name;
   - [q1, ..., qn] matches an array of exactly n elements whose i-th cell matches qi, for
     all i in order; the bindings are merged left to right (a later binding of the same
     name replaces an earlier one); an array alternative that does not match just fails,
     so the next alternative is tried;
   - anything else in pattern position is an error.

   The matcher lives in the evaluator's monad only because evaluating a literal allocates
   its cell and can fail (bad escape, number out of range).

   Definitions only; laws in Proofs/Match.v, statements in Props/C19_match.v. *)
From JQ Require Import Base.Bytes Num.F64 Syntax.Token Syntax.Lexer Syntax.Ast.
From JQ Require Import Json.JValue.
From JQ Require Import Gen.Generated Sem.Value Sem.Ops Sem.Natives Sem.Eval.
Open Scope nat_scope.

Definition bindings := list (bytes * addr).

(* left-to-right merge of new bindings into the accumulated ones *)
Definition merge (nb acc : bindings) : bindings :=
  fold_left (fun a kv => assoc_set (fst kv) (snd kv) a) nb acc.

Section MatchSpec.
  Variable src : bytes.

  (* the cell of a literal (evalExpr on an ExprLiteral) *)
  Definition lit_cell (t : token) : M addr :=
    match litk_of (ttag t) with
    | LStr =>
      let* s := tok_string src t in
      match eval_string s with
      | Some b => m_alloc (VStr b)
      | None => rt_error src t
      end
    | LRegex => let* s := tok_string src t in m_alloc (VRegex s)
    | LNum =>
      let* s := tok_string src t in
      match parse_float s with
      | PFok x => m_alloc (VNum x)
      | PFunsupported => fail Unsupp
      | _ => rt_error src t
      end
    | LTrue => bool_cell true
    | LFalse => bool_cell false
    | LNull => nil_cell
    | LOther => fail Panic
    end.

  (* one alternative against one cell: Some bindings = match *)
  Fixpoint pm_alt (p : expr) (subject : addr) {struct p} : M (option bindings) :=
    match p with
    | ELit t =>
      let* cv := lit_cell t in
      let* a := m_load subject in
      let* b := m_load cv in
      match equals_values a b with
      | EqOk true => ret (Some [])
      | EqOk false => ret None
      | EqErr => rt_error src t
      | EqUnsupp => fail Unsupp
      end
    | EId t =>
      let* name := tok_string src t in
      ret (Some [(name, subject)])
    | EArr _ items =>
      let* sv := m_load subject in
      match sv with
      | VArr bid off len =>
        if Nat.eqb len (length items) then
          let* h := get_heap in
          (fix elems (ps : list expr) (cs : list addr) (acc : bindings) {struct ps}
             : M (option bindings) :=
             match ps, cs with
             | q :: ps', c :: cs' =>
               let* m := pm_alt q c in
               match m with
               | None => ret None
               | Some nb => elems ps' cs' (merge nb acc)
               end
             | _, _ => ret (Some acc)
             end) items (arr_cells h bid off len) []
        else ret None
      | _ => ret None
      end
    | _ => rt_error src (expr_token p)
    end.

  (* the element-by-element part of an array pattern, named *)
  Fixpoint pm_elems (ps : list expr) (cs : list addr) (acc : bindings) : M (option bindings) :=
    match ps, cs with
    | q :: ps', c :: cs' =>
      let* m := pm_alt q c in
      match m with
      | None => ret None
      | Some nb => pm_elems ps' cs' (merge nb acc)
      end
    | _, _ => ret (Some acc)
    end.

  (* the comma-separated alternatives of one case *)
  Fixpoint pm_alts (pats : list expr) (subject : addr) : M (option bindings) :=
    match pats with
    | [] => ret None
    | p :: rest =>
      let* m := pm_alt p subject in
      match m with
      | Some b => ret (Some b)
      | None => pm_alts rest subject
      end
    end.

  (* fuel that is enough for the model's evalCaseMatch on these patterns *)
  Fixpoint pat_fuel (p : expr) : nat :=
    match p with
    | ELit _ => 1
    | EArr _ items =>
      (fix go (l : list expr) : nat :=
         match l with [] => 0 | q :: r => Nat.max (S (Nat.max (pat_fuel q) 1)) (go r) end) items
    | _ => 0
    end.
  Fixpoint alts_fuel (pats : list expr) : nat :=
    match pats with
    | [] => 1
    | p :: rest => S (Nat.max (pat_fuel p) (alts_fuel rest))
    end.

  (* ---- the body of the case that matched ---- *)

  Variable funcs : list func.
  Variable fuzzing : bool.

  Fixpoint bind_all (l : bindings) : M unit :=
    match l with
    | [] => ret tt
    | (k, a) :: r => set_local k a ;;; bind_all r
    end.

  (* an expression body yields its value, any other body yields null when it completes *)
  Definition run_case_body (f : nat) (body : stmt) : M (res addr) :=
    match body with
    | SExpr x => catch (eval_expr src funcs fuzzing f x)
    | _ =>
      let* r0 := catch (eval_stmt src funcs fuzzing f body) in
      match r0 with
      | Ok _ => let* c := nil_cell in ret (Ok c)
      | Err e0 => ret (Err e0)
      | Sig x => ret (Sig x)
      | Panic => ret Panic
      | Fuel => ret Fuel
      | Unsupp => ret Unsupp
      end
    end.

  (* push <match>, bind, run the body, pop -- however the body ended *)
  Definition run_case (f : nat) (t : token) (b : bindings) (body : stmt) : M addr :=
    let* ok := push_frame (bs "<match>") in
    if negb ok then rt_error src t
    else
      bind_all b ;;;
      let* r := run_case_body f body in
      pop_frame ;;;
      match r with
      | Ok c => ret c
      | other => reraise other
      end.

  (* the state in which the body of the matched case starts *)
  Definition match_state (s : st) (b : bindings) : st :=
    mkSt (hp s) (mkFrame (bs "<match>") (merge b []) :: frames s)
         (rule_root s) (root s) (retval s) (io s).

  Definition pop_state (s : st) : option st :=
    match frames s with
    | _ :: (_ :: _) as rest => Some (mkSt (hp s) rest (rule_root s) (root s) (retval s) (io s))
    | _ => None
    end.

  (* outcome of the body of the matched case, started in state [s2] *)
  Definition body_result (f : nat) (body : stmt) (s2 : st) : res addr * st :=
    match body with
    | SExpr x => eval_expr src funcs fuzzing f x s2
    | _ =>
      match eval_stmt src funcs fuzzing f body s2 with
      | (Ok _, s3) => nil_cell s3
      | (Err e, s3) => (Err e, s3)
      | (Sig x, s3) => (Sig x, s3)
      | (Panic, s3) => (Panic, s3)
      | (Fuel, s3) => (Fuel, s3)
      | (Unsupp, s3) => (Unsupp, s3)
      end
    end.

  (* the whole case: too deep -> error at the match token; else body in the pushed frame,
     then the frame is popped whatever the body's outcome was *)
  Definition case_result (f : nat) (t : token) (b : bindings) (body : stmt) (s : st)
    : res addr * st :=
    if Z.ltb call_depth_limit (Z.of_nat (length (frames s))) then rt_error src t s
    else
      let '(r, s3) := body_result f body (match_state s b) in
      match pop_state s3 with
      | Some s4 => (r, s4)
      | None => (Panic, s3)
      end.

  Definition is_block_body (body : stmt) : bool :=
    match body with SExpr _ => false | _ => true end.
End MatchSpec.
