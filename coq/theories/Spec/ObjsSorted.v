(* Spec/ObjsSorted.v -- the vocabulary of the GLOBAL form of "objects are canonical"
   (C07 for-in order, C10 determinism, C17 print order): every object of the heap keeps its
   keys strictly ascending in byte order, in every state of every run.  DEFINITIONS ONLY.
   The proofs are in Proofs/ObjsSorted.v, the theorems in Props/C10_objects_sorted.v.

   [heap_objs_sorted] (Spec/ControlLaws.v) is the invariant; [wf_jvalue] (Json/JsonProofs.v)
   is the same thing for a decoded JSON document. *)
From Coq Require Import List.
From JQ Require Import Base.Bytes Num.F64 Syntax.Token Syntax.Lexer Syntax.Ast Syntax.Parser.
From JQ Require Import Json.JValue Json.Decode Json.JsonProofs.
From JQ Require Import Gen.Generated Sem.Value Sem.Natives Sem.Eval Sem.Driver.
From JQ Require Import Spec.ControlLaws.
Import ListNotations.
Open Scope nat_scope.

(* the state invariant *)
Definition sorted_state (s : st) : Prop := heap_objs_sorted (hp s).

(* a computation keeps it, whatever its outcome (value, error, signal, panic, fuel, unsupported) *)
Definition keeps_sorted {A} (m : M A) : Prop :=
  forall s r s', sorted_state s -> m s = (r, s') -> sorted_state s'.

(* "strictly ascending" spelled out: ANY two positions, not only neighbours *)
Definition strictly_ascending (ks : list bytes) : Prop :=
  forall i j a b, i < j -> nth_error ks i = Some a -> nth_error ks j = Some b -> bytes_cmp a b = Lt.

(* what the decoder hands to the evaluator *)
Definition step_result_sorted (r : step_result) : Prop :=
  match r with SValue doc => wf_jvalue doc | _ => True end.
Definition dec_result_sorted (r : dec_result) : Prop :=
  match r with DValue doc _ => wf_jvalue doc | _ => True end.

(* every function of the evaluator and of the driver keeps the invariant.  The three
   functions that receive a decoded document need it canonical ([wf_jvalue]): that is what
   the decoder delivers ([decoded_objects_sorted]), and [decode_loop] / [run_files] /
   [run_body], which call the decoder themselves, need nothing. *)
Record all_keep_sorted : Prop := {
  ks_expr : forall src funcs fz n e, keeps_sorted (eval_expr src funcs fz n e);
  ks_match_cases : forall src funcs fz n t sub cs, keeps_sorted (eval_match_cases src funcs fz n t sub cs);
  ks_case_match : forall src funcs fz n sub ps, keeps_sorted (eval_case_match src funcs fz n sub ps);
  ks_call : forall src funcs fz n tok fc args, keeps_sorted (call_function src funcs fz n tok fc args);
  ks_unary : forall src funcs fz n x op pf, keeps_sorted (eval_unary src funcs fz n x op pf);
  ks_binary : forall src funcs fz n l r op, keeps_sorted (eval_binary src funcs fz n l r op);
  ks_expr_list : forall src funcs fz n es c, keeps_sorted (eval_expr_list src funcs fz n es c);
  ks_stmt : forall src funcs fz n s, keeps_sorted (eval_stmt src funcs fz n s);
  ks_body : forall src funcs fz n b, keeps_sorted (eval_body src funcs fz n b);
  ks_while : forall src funcs fz n c b k, keeps_sorted (eval_while src funcs fz n c b k);
  ks_for : forall src funcs fz n c p b k, keeps_sorted (eval_for src funcs fz n c p b k);
  ks_forin_arr : forall src funcs fz n lo ix bid off len i b,
      keeps_sorted (eval_forin_arr src funcs fz n lo ix bid off len i b);
  ks_forin_obj : forall src funcs fz n lo ix oid keys b,
      keeps_sorted (eval_forin_obj src funcs fz n lo ix oid keys b);
  ks_forin_str : forall src funcs fz n lo ix rs b, keeps_sorted (eval_forin_str src funcs fz n lo ix rs b);
  ks_set_member : forall recv m cell, keeps_sorted (set_member recv m cell);
  ks_create_speculative : forall n spec, keeps_sorted (create_speculative n spec);
  ks_assignment : forall src n tok l r, keeps_sorted (eval_assignment src n tok l r);
  ks_native : forall nf args this, keeps_sorted (native_call nf args this);
  ks_rules : forall src funcs fz n rules, keeps_sorted (eval_rules src funcs fz n rules);
  ks_elements : forall src funcs fz n rules bid off len k i,
      keeps_sorted (eval_elements src funcs fz n rules bid off len k i);
  ks_pattern_rules : forall src funcs fz n rules, keeps_sorted (eval_pattern_rules src funcs fz n rules);
  ks_new_evaluator : forall src fns, keeps_sorted (new_evaluator src fns);
  ks_selector : forall n sel doc, wf_jvalue doc -> keeps_sorted (eval_selector n sel doc);
  ks_run_special : forall src prog fz n rs mk, keeps_sorted mk -> keeps_sorted (run_special src prog fz n rs mk);
  ks_process_root : forall src prog fz n rc, keeps_sorted (process_root src prog fz n rc);
  ks_select_roots : forall n doc sels, wf_jvalue doc -> keeps_sorted (select_roots n doc sels);
  ks_process_value : forall src prog fz sels n name doc, wf_jvalue doc ->
      keeps_sorted (process_value src prog fz sels n name doc);
  ks_decode_loop : forall src prog fz sels n k name d, keeps_sorted (decode_loop src prog fz sels n k name d);
  ks_run_files : forall src prog fz sels n files, keeps_sorted (run_files src prog fz sels n files);
  ks_run_body : forall src prog fz sels n files, keeps_sorted (Driver.run_body src prog fz sels n files)
}.

(* ------------------------------------------------------------------ rendering of an object *)

(* the text between the braces: "k1": p1, "k2": p2, ... *)
Fixpoint render_fields (kps : list (bytes * bytes)) (first : bool) : bytes :=
  match kps with
  | [] => []
  | (k, p) :: r =>
    (if first then [] else bs ", ") ++ 34%N :: k ++ 34%N :: bs ": " ++ p ++ render_fields r false
  end.

Definition render_object (kps : list (bytes * bytes)) : bytes :=
  123%N :: render_fields kps true ++ [125%N].

(* the key of the i-th member of a JSON object value *)
Definition jobj_keys (j : jvalue) : list bytes :=
  match j with JObj l => map fst l | _ => [] end.
