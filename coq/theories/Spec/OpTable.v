(* Spec/OpTable.v -- property C05: the language's coercion rules and operator tables,
   DESIGN.md section 3.1-3.4, written as FLAT TABLES over operand kinds.

   DEFINITIONS ONLY.  Nothing here refers to the nested case structure of Sem/Ops.v
   (compare_values, equals_values, arith_value, cmp_value ...): the only things shared
   with the model are the data types (value, bop, uop, vres), the number library
   (Num/F64: IEEE arithmetic, ParseFloat, FormatFloat, int(x)) and the RE2 oracle
   (Oracle/Regex.regex_match).  Proofs/Ops.v proves that the model equals these tables
   for every pair of operands.

   NOTE: the constructors KNum / KStr of [kind] shadow the constructors of
   Sem.Value.skey of the same name (write Value.KNum / Value.KStr for those). *)
From Coq Require Import ZArith List Bool.
From JQ Require Import Base.Bytes Num.F64 Sem.Value Sem.Ops.
From JQ Require Oracle.Regex.
Import ListNotations.

(* ------------------------------------------------------------------ 3.1 kinds *)

Inductive kind := KNum | KStr | KBool | KNull | KUnset | KArr | KObj | KRegex | KFn | KNative.

Definition kind_of (v : value) : kind :=
  match v with
  | VNum _ => KNum
  | VStr _ => KStr
  | VBool _ => KBool
  | VNil _ => KNull              (* a plain null and an absent member alike *)
  | VUnknown => KUnset
  | VArr _ _ _ => KArr
  | VObj _ => KObj
  | VRegex _ => KRegex
  | VFn _ => KFn
  | VNative _ _ => KNative
  end.

Definition kind_eqb (a b : kind) : bool :=
  match a, b with
  | KNum, KNum | KStr, KStr | KBool, KBool | KNull, KNull | KUnset, KUnset
  | KArr, KArr | KObj, KObj | KRegex, KRegex | KFn, KFn | KNative, KNative => true
  | _, _ => false
  end.

(* ------------------------------------------------------------------ 3.2 coercions *)

(* coN = N(v): the numeric coercion.  None = the text is a hexadecimal float, which Go's
   ParseFloat accepts but Num/F64.parse_float does not model. *)
Definition coN (v : value) : option float :=
  match v with
  | VNum x => Some x
  | VStr s =>
    match parse_float s with
    | PFok x => Some x                          (* ParseFloat succeeded without error *)
    | PFrange _ | PFsyntax => Some f_zero       (* any error: 0 *)
    | PFunsupported => None
    end
  | VBool true => Some f_one
  | VBool false => Some f_zero
  | VNil _ | VUnknown | VArr _ _ _ | VObj _ | VRegex _ | VFn _ | VNative _ _ => Some f_zero
  end.

(* coS = S(v): the string form *)
Definition coS (v : value) : bytes :=
  match v with
  | VNum x => format_f x
  | VStr s => s
  | VBool _ | VNil _ | VUnknown | VArr _ _ _ | VObj _ | VRegex _ | VFn _ | VNative _ _ => []
  end.

(* coT = T(v): truthiness *)
Definition coT (v : value) : bool :=
  match v with
  | VNum x => negb (f_is_zero x)                (* x <> +-0; NaN is truthy *)
  | VStr s => negb (Nat.eqb (length s) 0)
  | VBool b => b
  | VNil _ | VUnknown | VRegex _ => false
  | VArr _ _ _ | VObj _ | VFn _ | VNative _ _ => true
  end.

(* coI = I(x): Go int(x) on amd64 (the names N, S, I are taken by the standard library) *)
Definition coI (x : float) : Z := f_trunc_int64 x.

(* ------------------------------------------------------------------ results *)

Definition ok_num (x : float) : vres := VOk (VNum x).
Definition ok_str (s : bytes) : vres := VOk (VStr s).
Definition ok_bool (b : bool) : vres := VOk (VBool b).

(* numeric operation on the coercions of both operands *)
Definition on_N2 (l r : value) (k : float -> float -> vres) : vres :=
  match coN l, coN r with
  | Some a, Some b => k a b
  | _, _ => VUnsupp
  end.

(* ------------------------------------------------------------------ 3.3 unary *)

(* the operators decided by the operand value alone: ! + -  (++ -- are stores, 3.6) *)
Definition value_uop (u : uop) : bool :=
  match u with UNot | UPos | UNeg => true | _ => false end.

Definition spec_unop (u : uop) (v : value) : vres :=
  match u with
  | UNot => ok_bool (negb (coT v))
  | UPos => match coN v with Some x => ok_num x | None => VUnsupp end
  | UNeg => match coN v with Some x => ok_num (f_neg x) | None => VUnsupp end
  | UInc | UDec | UOther => VErrOp              (* not a value-level operator *)
  end.

(* ------------------------------------------------------------------ 3.4 arithmetic *)

(* l + r: concatenation iff a string is involved *)
Definition spec_add (l r : value) : vres :=
  match kind_of l, kind_of r with
  | KStr, _ | _, KStr => ok_str (coS l ++ coS r)
  | _, _ => on_N2 l r (fun a b => ok_num (f_add a b))
  end.

Definition spec_sub (l r : value) : vres := on_N2 l r (fun a b => ok_num (f_sub a b)).
Definition spec_mul (l r : value) : vres := on_N2 l r (fun a b => ok_num (f_mul a b)).

(* l / r: "divide by zero" (reported at the operator) iff N(r) = +-0 *)
Definition spec_div (l r : value) : vres :=
  on_N2 l r (fun a b =>
    match b with
    | S754_zero _ => VErrOp
    | _ => ok_num (f_div a b)
    end).

(* l % r on the truncated operands: error iff I(N r) = 0; sign of the dividend *)
Definition spec_mod (l r : value) : vres :=
  on_N2 l r (fun a b =>
    if Z.eqb (coI b) 0 then VErrOp
    else ok_num (f_of_Z (Z.rem (coI a) (coI b)))).

(* ------------------------------------------------------------------ 3.4 comparison *)

(* c<0, c>0, c=0, not(c=0), c<=0, c>=0 *)
Definition sat (o : bop) (c : comparison) : bool :=
  match o, c with
  | BLt, Lt | BGt, Gt | BEq, Eq => true
  | BNe, Lt | BNe, Gt => true
  | BLe, Lt | BLe, Eq => true
  | BGe, Gt | BGe, Eq => true
  | _, _ => false
  end.

(* (d): +1 if x > y, -1 if x < y, else 0 -- NaN compares "equal" to everything *)
Definition num_cmp (x y : float) : comparison :=
  if f_gtb x y then Gt else if f_ltb x y then Lt else Eq.

Inductive cmp3 := C3 (c : comparison) | C3Err | C3Unsupp.

(* (d) numeric comparison of the coercions of both operands *)
Definition num_compare (l r : value) : cmp3 :=
  match coN l, coN r with
  | Some x, Some y => C3 (num_cmp x y)
  | _, _ => C3Unsupp
  end.

(* cmp(l, r) for l, r not unset: first matching row wins *)
Definition spec_compare (l r : value) : cmp3 :=
  match kind_of l, kind_of r with
  (* (a) null ranks below everything except null, containers included *)
  | KNull, KNull => C3 Eq
  | KNull, _ => C3 Lt
  | _, KNull => C3 Gt
  (* (b) containers cannot be compared *)
  | KArr, _ | KObj, _ | _, KArr | _, KObj => C3Err
  (* (c) two strings: bytewise *)
  | KStr, KStr => C3 (bytes_cmp (coS l) (coS r))
  (* (d) everything else: numeric coercions *)
  | _, _ => num_compare l r
  end.

Definition spec_cmp (o : bop) (l r : value) : vres :=
  match kind_of l, kind_of r with
  (* 1. unset: < and > are true, the other four false, never an error *)
  | KUnset, _ | _, KUnset => ok_bool (match o with BLt | BGt => true | _ => false end)
  (* 2. otherwise by cmp(l, r); the error is reported at the left operand *)
  | _, _ =>
    match spec_compare l r with
    | C3 c => ok_bool (sat o c)
    | C3Err => VErrLeft
    | C3Unsupp => VUnsupp
    end
  end.

(* ------------------------------------------------------------------ 3.4 regex match *)

Definition spec_regex (negated : bool) (l r : value) : vres :=
  let run (pat : bytes) :=
    match Regex.regex_match pat (coS l) with
    | Regex.RxMatch b => ok_bool (if negated then negb b else b)
    | Regex.RxBadPattern => VErrRight           (* compile failure: error at the right operand *)
    | Regex.RxUnsupported => VUnsupp            (* outside the modelled RE2 fragment *)
    end in
  match r with
  | VStr pat => run pat
  | VRegex pat => run pat
  | VNum _ | VBool _ | VNil _ | VUnknown | VArr _ _ _ | VObj _ | VFn _ | VNative _ _ => VErrRight
  end.

(* ------------------------------------------------------------------ 3.4 binary *)

(* the binary operators decided by the two operand values alone *)
Definition value_op (o : bop) : bool :=
  match o with
  | BLt | BGt | BEq | BNe | BLe | BGe
  | BAdd | BSub | BMul | BDiv | BMod
  | BMatch | BNoMatch => true
  | BAnd | BOr | BIs | BMember | BAssign | BOther => false
  end.

Definition spec_binop (o : bop) (l r : value) : vres :=
  match o with
  | BAdd => spec_add l r
  | BSub => spec_sub l r
  | BMul => spec_mul l r
  | BDiv => spec_div l r
  | BMod => spec_mod l r
  | BLt | BGt | BEq | BNe | BLe | BGe => spec_cmp o l r
  | BMatch => spec_regex false l r
  | BNoMatch => spec_regex true l r
  (* && || is . [] = : not functions of two values (evaluation order, locations): Eval *)
  | BAnd | BOr | BIs | BMember | BAssign | BOther => VErrOp
  end.

(* ------------------------------------------------------------------ 3.4 is *)

(* the right-hand side of `is`: the keyword function, the keyword null, or an identifier *)
Inductive type_name := TnFunction | TnNull | TnIdent (name : bytes).

Definition kind_names : list (bytes * kind) :=
  [ (bs "string", KStr); (bs "bool", KBool); (bs "number", KNum); (bs "array", KArr);
    (bs "object", KObj); (bs "regex", KRegex); (bs "unknown", KUnset) ].

Fixpoint lookup_kind (name : bytes) (tbl : list (bytes * kind)) : option kind :=
  match tbl with
  | [] => None
  | (n, k) :: rest => if bytes_eqb name n then Some k else lookup_kind name rest
  end.

(* true iff kind(l) = NAME; any other identifier is false; native values have no named type *)
Definition spec_is (l : value) (tn : type_name) : bool :=
  match tn with
  | TnFunction => kind_eqb (kind_of l) KFn
  | TnNull => kind_eqb (kind_of l) KNull
  | TnIdent name =>
    match lookup_kind name kind_names with
    | Some k => kind_eqb (kind_of l) k
    | None => false
    end
  end.

(* ------------------------------------------------------------------ bytewise order *)

(* a < b bytewise: a is a proper prefix of b, or they first differ at a smaller byte *)
Inductive lex_lt : bytes -> bytes -> Prop :=
| lex_nil : forall y b, lex_lt [] (y :: b)
| lex_head : forall x y a b, (x < y)%N -> lex_lt (x :: a) (y :: b)
| lex_tail : forall x a b, lex_lt a b -> lex_lt (x :: a) (x :: b).
