(* Spec for C06 (precedence / associativity) and the token layer of C13.
   Definitions only.  A position-free expression type [sexpr], the documented
   precedence table, two printers into token lists (minimal parentheses / fully
   parenthesised), a one-space layout of token lists, and [strip], which erases
   positions from the parser's AST. *)
From JQ Require Import Base.Bytes Syntax.Token Syntax.Ast.
From Coq Require Import Arith.
Open Scope nat_scope.

(* ------------------------------------------------------------------ tokens *)

(* a token as written: three kinds carry text, the rest have one fixed spelling *)
Inductive stoken :=
| KNum (s : bytes)        (* digits with an optional .digits *)
| KIdent (s : bytes)      (* identifier, not a keyword *)
| KStr (s : bytes)        (* contents of a double-quoted string *)
| KFix (t : tag).         (* operator, bracket, keyword *)

Definition stag (k : stoken) : tag :=
  match k with KNum _ => TNum | KIdent _ => TIdent | KStr _ => TStr | KFix t => t end.

Definition fix_spell (t : tag) : bytes :=
  match t with
  | TBegin => bs "BEGIN" | TEnd => bs "END" | TBeginFile => bs "BEGINFILE" | TEndFile => bs "ENDFILE"
  | TPrint => bs "print" | TFunction => bs "function" | TReturn => bs "return" | TIf => bs "if"
  | TElse => bs "else" | TFor => bs "for" | TWhile => bs "while" | TIn => bs "in"
  | TMatch => bs "match" | TBreak => bs "break" | TContinue => bs "continue" | TNext => bs "next"
  | TExit => bs "exit" | TNull => bs "null" | TIs => bs "is" | TTrue => bs "true" | TFalse => bs "false"
  | TLCurly => bs "{" | TRCurly => bs "}" | TLSquare => bs "[" | TRSquare => bs "]"
  | TLParen => bs "(" | TRParen => bs ")" | TLessThan => bs "<" | TGreaterThan => bs ">"
  | TDollar => bs "$" | TComma => bs "," | TDot => bs "." | TEqual => bs "="
  | TEqualEqual => bs "==" | TBangEqual => bs "!=" | TLessEqual => bs "<=" | TGreaterEqual => bs ">="
  | TColon => bs ":" | TSemiColon => bs ";" | TPlus => bs "+" | TMinus => bs "-"
  | TMultiply => bs "*" | TDivide => bs "/" | TPlusEqual => bs "+=" | TMinusEqual => bs "-="
  | TMultiplyEqual => bs "*=" | TDivideEqual => bs "/=" | TTilde => bs "~" | TBangTilde => bs "!~"
  | TAmpAmp => bs "&&" | TPipePipe => bs "||" | TArrow => bs "=>" | TBang => bs "!"
  | TPlusPlus => bs "++" | TMinusMinus => bs "--" | TPercent => bs "%"
  | TEOF | TError | TIdent | TStr | TRegex | TNum | TNewline => []
  end.

Definition spell (k : stoken) : bytes :=
  match k with
  | KNum s | KIdent s => s
  | KStr s => 34%N :: s ++ [34%N]
  | KFix t => fix_spell t
  end.

(* layout: tokens separated by exactly one space *)
Fixpoint tail_text (ts : list stoken) : bytes :=
  match ts with [] => [] | k :: r => 32%N :: spell k ++ tail_text r end.
Definition text_of (ts : list stoken) : bytes :=
  match ts with [] => [] | k :: r => spell k ++ tail_text r end.

(* well-formed token texts *)
Definition is_digit (c : byte) : bool := latin1_is_digit c.
Definition is_ident_start (c : byte) : bool := (latin1_is_letter c || N.eqb c 95)%bool.
Definition is_ident_char (c : byte) : bool := (N.eqb c 95 || latin1_is_letter c || latin1_is_digit c)%bool.

Fixpoint skip_digits (s : bytes) : bytes :=
  match s with [] => [] | c :: r => if is_digit c then skip_digits r else s end.
Definition starts_digit (s : bytes) : bool :=
  match s with [] => false | c :: _ => is_digit c end.
(* digits, optionally followed by '.' and digits *)
Definition wf_num (s : bytes) : bool :=
  starts_digit s &&
  match skip_digits s with
  | [] => true
  | c :: d2 => N.eqb c 46 && starts_digit d2 && match skip_digits d2 with [] => true | _ => false end
  end.

Definition keywords : list bytes :=
  [bs "BEGIN"; bs "END"; bs "BEGINFILE"; bs "ENDFILE"; bs "print"; bs "$"; bs "function";
   bs "return"; bs "if"; bs "else"; bs "for"; bs "while"; bs "in"; bs "match"; bs "true";
   bs "false"; bs "break"; bs "continue"; bs "next"; bs "exit"; bs "null"; bs "is"].
Definition is_keyword (s : bytes) : bool := existsb (bytes_eqb s) keywords.

(* name, _name or $name; never a keyword *)
Definition wf_ident (s : bytes) : bool :=
  match s with
  | [] => false
  | c :: r =>
    (is_ident_start c || (N.eqb c 36 && match r with [] => false | _ => true end)) &&
    forallb is_ident_char r && negb (is_keyword s)
  end.

(* no quote of either kind, no backslash, no line end *)
Definition wf_str (s : bytes) : bool :=
  forallb (fun c => negb (N.eqb c 34 || N.eqb c 39 || N.eqb c 92 || N.eqb c 10)) s.

Definition wf_tok (k : stoken) : bool :=
  match k with
  | KNum s => wf_num s
  | KIdent s => wf_ident s
  | KStr s => wf_str s
  | KFix t => match fix_spell t with [] => false | _ => true end
  end.

(* ------------------------------------------------------------- expressions *)

Inductive isname := IsId (s : bytes) | IsFunction | IsNull.

Inductive sexpr :=
| SNum (s : bytes)
| SIdent (s : bytes)
| SDollar
| SStr (s : bytes)
| STrue | SFalse | SNull
| SPre (op : tag) (e : sexpr)            (* ! - + ++ -- *)
| SPost (op : tag) (e : sexpr)           (* ++ -- *)
| SBin (op : tag) (l r : sexpr)          (* * / % + - == != < <= > >= ~ !~ && || *)
| SIs (l : sexpr) (n : isname)           (* l is NAME *)
| SMember (l : sexpr) (n : bytes)        (* l.name *)
| SIndex (l i : sexpr)                   (* l[i] *)
| SCall (f : sexpr) (args : list sexpr)  (* f(args) *)
| SAssign (l r : sexpr)                  (* l = r *)
| SCompound (base : tag) (l r : sexpr).  (* l base= r, base one of + - * / *)

(* ------------------------------------------- the documented precedence table *)
(* tightest first:
     9  call f(args)            8  index a[e], member a.name      (suffix, left)
     7  prefix ! - + ++ --      6  postfix ++ --
     5  * / %    4  + -    3  == != < <= > >= ~ !~ is    2  && ||     (left)
     1  = += -= *= /=                                                 (right)   *)
Definition binop_level (t : tag) : nat :=
  match t with
  | TMultiply | TDivide | TPercent => 5
  | TPlus | TMinus => 4
  | TEqualEqual | TBangEqual | TLessThan | TLessEqual | TGreaterThan | TGreaterEqual
  | TTilde | TBangTilde => 3
  | TAmpAmp | TPipePipe => 2
  | _ => 0
  end.
Definition is_binop (t : tag) : bool := negb (binop_level t =? 0).
Definition is_prefix_op (t : tag) : bool :=
  match t with TBang | TMinus | TPlus | TPlusPlus | TMinusMinus => true | _ => false end.
Definition is_postfix_op (t : tag) : bool :=
  match t with TPlusPlus | TMinusMinus => true | _ => false end.
Definition compound_tag (base : tag) : tag :=
  match base with
  | TPlus => TPlusEqual | TMinus => TMinusEqual | TMultiply => TMultiplyEqual
  | TDivide => TDivideEqual | _ => TError
  end.
Definition is_compound_base (t : tag) : bool :=
  match t with TPlus | TMinus | TMultiply | TDivide => true | _ => false end.
Definition is_assign_op (t : tag) : bool :=
  match t with TEqual | TPlusEqual | TMinusEqual | TMultiplyEqual | TDivideEqual => true | _ => false end.

Definition prefix_level : nat := 7.

(* level of an operator token in infix / suffix position; 0 = no such role *)
Definition spec_infix_level (t : tag) : nat :=
  match t with
  | TLParen => 9
  | TLSquare | TDot => 8
  | TPlusPlus | TMinusMinus => 6
  | TIs => 3
  | _ => if is_assign_op t then 1 else binop_level t
  end.

Inductive grouping := GLeft | GRight.
(* grouping of the two-operand operators *)
Definition spec_grouping (t : tag) : grouping := if is_assign_op t then GRight else GLeft.
(* the level the right operand must have: one more than the operator's for
   left-grouping operators, the operator's own for right-grouping ones *)
Definition spec_right_level (t : tag) : nat :=
  match spec_grouping t with GLeft => S (spec_infix_level t) | GRight => spec_infix_level t end.

Definition level (e : sexpr) : nat :=
  match e with
  | SNum _ | SIdent _ | SDollar | SStr _ | STrue | SFalse | SNull => 10
  (* the three suffix forms are one class: no operand position asks for more than 8,
     so a callee is any level-8 expression (a.b(c) needs no parentheses) although the
     call token itself is listed one step above member / index *)
  | SCall _ _ | SMember _ _ | SIndex _ _ => 8
  | SPre _ _ => prefix_level
  | SPost _ _ => 6
  | SBin op _ _ => binop_level op
  | SIs _ _ => 3
  | SAssign _ _ | SCompound _ _ _ => 1
  end.

(* --------------------------------------------------------------- printers *)

Definition isname_tok (n : isname) : stoken :=
  match n with IsId s => KIdent s | IsFunction => KFix TFunction | IsNull => KFix TNull end.

Section Print.
  (* [force e] = put parentheses around e even where the table does not ask for them *)
  Variable force : sexpr -> bool.

  (* print q e: e in a position that requires level >= q *)
  Fixpoint print (q : nat) (e : sexpr) {struct e} : list stoken :=
    let raw :=
      match e with
      | SNum s => [KNum s]
      | SIdent s => [KIdent s]
      | SDollar => [KFix TDollar]
      | SStr s => [KStr s]
      | STrue => [KFix TTrue]
      | SFalse => [KFix TFalse]
      | SNull => [KFix TNull]
      | SPre op x => KFix op :: print prefix_level x
      | SPost op x => print 6 x ++ [KFix op]
      | SBin op l r => print (binop_level op) l ++ KFix op :: print (S (binop_level op)) r
      | SIs l n => print 3 l ++ [KFix TIs; isname_tok n]
      | SMember l n => print 8 l ++ [KFix TDot; KIdent n]
      | SIndex l i => print 8 l ++ KFix TLSquare :: print 1 i ++ [KFix TRSquare]
      | SCall f args =>
        print 8 f ++ KFix TLParen ::
        (fix pargs (l : list sexpr) : list stoken :=
           match l with
           | [] => []
           | a :: r => print 1 a ++ match r with [] => [] | _ :: _ => KFix TComma :: pargs r end
           end) args ++ [KFix TRParen]
      | SAssign l r => print 2 l ++ KFix TEqual :: print 1 r
      | SCompound b l r => print 2 l ++ KFix (compound_tag b) :: print 1 r
      end in
    if ((q <=? level e) && negb (force e))%bool then raw
    else KFix TLParen :: raw ++ [KFix TRParen].
End Print.

Definition is_app (e : sexpr) : bool :=
  match e with
  | SNum _ | SIdent _ | SDollar | SStr _ | STrue | SFalse | SNull => false
  | _ => true
  end.

(* minimal parentheses *)
Definition render (e : sexpr) : list stoken := print (fun _ => false) 1 e.
(* every operator application parenthesised *)
Definition paren (e : sexpr) : list stoken := print is_app 1 e.

(* ------------------------------------------------------- well-formed sexpr *)

(* what assign() accepts as a target (on the AST: not a literal, not a binary
   node other than member / index) *)
Definition assignable_s (e : sexpr) : bool :=
  match e with
  | SNum _ | SStr _ | STrue | SFalse | SNull => false
  | SBin _ _ _ | SIs _ _ | SAssign _ _ | SCompound _ _ _ => false
  | _ => true
  end.

Definition wf_isname (n : isname) : bool :=
  match n with IsId s => wf_ident s | _ => true end.

Fixpoint wf_sexpr (e : sexpr) : bool :=
  match e with
  | SNum s => wf_num s
  | SIdent s => wf_ident s
  | SStr s => wf_str s
  | SDollar | STrue | SFalse | SNull => true
  | SPre op x => is_prefix_op op && wf_sexpr x
  | SPost op x => is_postfix_op op && wf_sexpr x
  | SBin op l r => is_binop op && wf_sexpr l && wf_sexpr r
  | SIs l n => wf_sexpr l && wf_isname n
  | SMember l n => wf_sexpr l && wf_ident n
  | SIndex l i => wf_sexpr l && wf_sexpr i
  | SCall f args => wf_sexpr f && forallb wf_sexpr args
  | SAssign l r => assignable_s l && wf_sexpr l && wf_sexpr r
  | SCompound b l r => is_compound_base b && wf_sexpr l && wf_sexpr r
  end.

(* the parser rewrites  l base= r  into  l = l base r  (sharing l) *)
Fixpoint desugar (e : sexpr) : sexpr :=
  match e with
  | SPre op x => SPre op (desugar x)
  | SPost op x => SPost op (desugar x)
  | SBin op l r => SBin op (desugar l) (desugar r)
  | SIs l n => SIs (desugar l) n
  | SMember l n => SMember (desugar l) n
  | SIndex l i => SIndex (desugar l) (desugar i)
  | SCall f args => SCall (desugar f) (map desugar args)
  | SAssign l r => SAssign (desugar l) (desugar r)
  | SCompound b l r => SAssign (desugar l) (SBin b (desugar l) (desugar r))
  | _ => e
  end.

Fixpoint no_compound (e : sexpr) : bool :=
  match e with
  | SPre _ x | SPost _ x | SIs x _ | SMember x _ => no_compound x
  | SBin _ l r | SIndex l r | SAssign l r => no_compound l && no_compound r
  | SCall f args => no_compound f && forallb no_compound args
  | SCompound _ _ _ => false
  | _ => true
  end.

(* ------------------------------------------------- erasing positions: strip *)

Definition omap2 {A B C} (f : A -> B -> C) (a : option A) (b : option B) : option C :=
  match a, b with Some x, Some y => Some (f x y) | _, _ => None end.

Fixpoint strip (src : bytes) (e : expr) {struct e} : option sexpr :=
  match e with
  | ELit t =>
    match ttag t with
    | TNum => option_map SNum (get_string src t)
    | TStr => option_map SStr (get_string src t)
    | TTrue => Some STrue
    | TFalse => Some SFalse
    | TNull => Some SNull
    | _ => None
    end
  | EId t =>
    match ttag t with
    | TDollar => Some SDollar
    | TIdent => option_map SIdent (get_string src t)
    | _ => None
    end
  | EUn x op pf =>
    if pf then (if is_postfix_op (ttag op) then option_map (SPost (ttag op)) (strip src x) else None)
    else (if is_prefix_op (ttag op) then option_map (SPre (ttag op)) (strip src x) else None)
  | EBin l r op =>
    match ttag op with
    | TDot =>
      match r with
      | ELit id =>
        match ttag id with
        | TIdent => omap2 SMember (strip src l) (get_string src id)
        | _ => None
        end
      | _ => None
      end
    | TLSquare => omap2 SIndex (strip src l) (strip src r)
    | TEqual => omap2 SAssign (strip src l) (strip src r)
    | TIs =>
      match r with
      | EId n =>
        match ttag n with
        | TIdent => omap2 SIs (strip src l) (option_map IsId (get_string src n))
        | TFunction => omap2 SIs (strip src l) (Some IsFunction)
        | TNull => omap2 SIs (strip src l) (Some IsNull)
        | _ => None
        end
      | _ => None
      end
    | t => if is_binop t then omap2 (SBin t) (strip src l) (strip src r) else None
    end
  | ECall f args =>
    omap2 SCall (strip src f)
      ((fix go (l : list expr) : option (list sexpr) :=
          match l with
          | [] => Some []
          | a :: r => omap2 cons (strip src a) (go r)
          end) args)
  | EArr _ _ | EObj _ _ | EMatch _ _ _ => None
  end.
