(* Specification of printf (property C18, width part of C20).

   The format string is read with the documented grammar

       format    ::= ( literal-byte | '%' directive )*
       directive ::= width? letter
       width     ::= '-'? digit*          (non-empty; a lone "-" is not a number)
       letter    ::= 's' | 'f' | 'v' | '%'

   into a list of items; the items are then rendered against the argument list.
   Nothing here mentions indices, fuel or an accumulator: [parse_format] is a
   structural recursion over the format bytes and [render_items] a structural
   recursion over the items.  Definitions only; the proofs are in Proofs/Printf.v. *)
From JQ Require Import Base.Bytes Num.F64 Gen.Generated Sem.Value Sem.Natives.
Open Scope Z_scope.

Inductive dkind := DS | DF | DV | DPercent.
Inductive item :=
| Lit (b : byte)
| Dir (width : Z) (pad : byte) (kind : dkind).

(* ---------------------------------------------------------------- lexical classes *)

Definition is_percent (b : byte) : bool := N.eqb b 37.
Definition is_minus (b : byte) : bool := N.eqb b 45.
Definition is_digit (b : byte) : bool := (N.leb 48 b && N.leb b 57)%bool.

Definition kind_of (letter : byte) : option dkind :=
  if N.eqb letter 115 then Some DS            (* s *)
  else if N.eqb letter 102 then Some DF       (* f *)
  else if N.eqb letter 118 then Some DV       (* v *)
  else if N.eqb letter 37 then Some DPercent  (* % *)
  else None.

(* ---------------------------------------------------------------- width text *)

(* [wtxt] is the width text read so far (possibly empty); does [c] extend it?
   A width starts with a digit or '-' and continues with digits. *)
Definition continues_width (wtxt : bytes) (c : byte) : bool :=
  match wtxt with
  | [] => (is_digit c || is_minus c)%bool
  | _ :: _ => is_digit c
  end.

(* a complete width text: empty (no width), or a digit or '-' followed by digits *)
Definition is_width_text (wtxt : bytes) : bool :=
  match wtxt with
  | [] => true
  | c :: ds => ((is_digit c || is_minus c) && forallb is_digit ds)%bool
  end.

Definition digit_val (d : byte) : Z := Z.of_N d - 48.
Definition decimal (ds : bytes) : Z := fold_left (fun acc d => acc * 10 + digit_val d) ds 0.

(* the number a width text denotes; no width text = width 0; "-" alone denotes nothing *)
Definition width_of (wtxt : bytes) : option Z :=
  match wtxt with
  | [] => Some 0
  | c :: ds =>
    if is_minus c then
      match ds with
      | [] => None
      | _ :: _ => Some (- decimal ds)
      end
    else Some (decimal wtxt)
  end.

(* the padding byte: '0' iff the width is written with a leading 0, else a space *)
Definition pad_of (wtxt : bytes) : byte :=
  match wtxt with
  | c :: _ => if N.eqb c 48 then 48%N else 32%N
  | [] => 32%N
  end.

Definition width_in_range (w : Z) : bool := Z.abs w <=? printf_width_limit.

(* the directive with width text [wtxt] and letter [letter]; None = malformed *)
Definition make_dir (wtxt : bytes) (letter : byte) : option item :=
  match width_of wtxt, kind_of letter with
  | Some w, Some k => if width_in_range w then Some (Dir w (pad_of wtxt) k) else None
  | _, _ => None
  end.

(* ---------------------------------------------------------------- parsing *)

Section Directive.
  (* how the text after the directive is parsed *)
  Variable continue : bytes -> option (list item).

  (* after a '%' and the width text [wtxt]: more width, or the letter *)
  Fixpoint directive (wtxt : bytes) (s : bytes) {struct s} : option (list item) :=
    match s with
    | [] => None                                    (* dangling % / dangling width *)
    | c :: s' =>
      if continues_width wtxt c then directive (wtxt ++ [c]) s'
      else
        match make_dir wtxt c, continue s' with
        | Some it, Some its => Some (it :: its)
        | _, _ => None
        end
    end.
End Directive.

Fixpoint parse_format (fmt : bytes) : option (list item) :=
  match fmt with
  | [] => Some []
  | b :: rest =>
    if is_percent b then directive parse_format [] rest
    else option_map (cons (Lit b)) (parse_format rest)
  end.

(* ---------------------------------------------------------------- rendering *)

(* left padding for a width >= 0, right padding for a negative one; never cuts *)
Definition pad_spec (w : Z) (p : byte) (s : bytes) : bytes :=
  let fill := repeat_byte p (Z.to_nat (Z.abs w) - length s) in
  if 0 <=? w then fill ++ s else s ++ fill.

(* the text of one argument under a directive kind; None = wrong kind of argument
   (for %v: PrettyString, which the model computes with fuel) *)
Definition render_arg (h : heap) (k : dkind) (v : value) : option bytes :=
  match k, v with
  | DS, VStr s => Some s
  | DF, VNum x => Some (format_f x)
  | DV, _ => pretty_string h v
  | _, _ => None
  end.

Fixpoint render_items (h : heap) (its : list item) (args : list value) : option bytes :=
  match its with
  | [] => Some []                                  (* surplus arguments are ignored *)
  | Lit b :: r => option_map (cons b) (render_items h r args)
  | Dir _ _ DPercent :: r => option_map (cons 37%N) (render_items h r args)
  | Dir w p k :: r =>
    match args with
    | [] => None                                   (* missing argument *)
    | v :: args' =>
      match render_arg h k v, render_items h r args' with
      | Some s, Some out => Some (pad_spec w p s ++ out)
      | _, _ => None
      end
    end
  end.

(* what printf writes; None = runtime error (nothing is written) *)
Definition printf_spec (h : heap) (fmt : bytes) (args : list value) : option bytes :=
  match parse_format fmt with
  | None => None
  | Some its => render_items h its args
  end.

(* ---------------------------------------------------------------- vocabulary for the corollaries *)

(* number of arguments a list of items consumes *)
Definition consumes (it : item) : nat :=
  match it with
  | Dir _ _ DPercent | Lit _ => 0
  | Dir _ _ _ => 1
  end.
Definition arity (its : list item) : nat := fold_right (fun it n => (consumes it + n)%nat) 0%nat its.

(* the same items without any width *)
Definition strip_width (it : item) : item :=
  match it with
  | Lit b => Lit b
  | Dir _ p k => Dir 0 p k
  end.

Definition width_ok (it : item) : Prop :=
  match it with
  | Lit _ => True
  | Dir w _ _ => Z.abs w <= printf_width_limit
  end.

(* ---------------------------------------------------------------- vocabulary on the model side *)

(* the state after exactly one more Write call on stdout *)
Definition with_write (s : st) (b : bytes) : st :=
  mkSt (hp s) (frames s) (rule_root s) (root s) (retval s) (IoWrite b :: io s).

(* "printf(fmt, args...) is a runtime error and nothing of it is written": the native
   returns an error and leaves the whole state (heap, io log) as it was.  The second
   disjunct is the model artefact [Fuel] (pretty_string out of fuel on some argument),
   in which the state is untouched as well. *)
Definition printf_is_error (fmt : bytes) (args : list value) (this : option addr) (s : st) : Prop :=
  native_call NPrintf (VStr fmt :: args) this s = (Ok NError, s) \/
  (native_call NPrintf (VStr fmt :: args) this s = (Fuel, s) /\
   exists v, In v args /\ pretty_string (hp s) v = None).

(* an argument list whose head cannot serve a directive of kind [k] *)
Definition unusable_arg (k : dkind) (rest_args : list value) : Prop :=
  match k, rest_args with
  | DPercent, _ => False
  | _, [] => True                       (* missing *)
  | DS, VStr _ :: _ => False
  | DF, VNum _ :: _ => False
  | DV, _ :: _ => False
  | _, _ :: _ => True                   (* wrong kind *)
  end.

Definition outcome_of (spec : option bytes) : fmt_res :=
  match spec with Some b => FmtOut b | None => FmtErr end.
