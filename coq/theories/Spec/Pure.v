(* Spec/Pure.v -- vocabulary of the properties C09 (reads are pure), C17 (print) and
   C04 (json of a heap value).  DEFINITIONS ONLY. *)
From Coq Require Import List Bool PArith Sorted.
From JQ Require Import Base.Bytes Num.F64 Syntax.Token Syntax.Ast Json.JValue Sem.Value.
Import ListNotations.

(* ---------------------------------------------------------------- C09 *)

(* an expression without assignment (binary [=]; compound assignment is desugared to it
   by the parser), without ++ / --, without call and without match *)
Fixpoint pure_expr (e : expr) : bool :=
  match e with
  | ELit _ | EId _ => true
  | EArr _ items => forallb pure_expr items
  | EObj _ items => forallb (fun kv => pure_expr (snd kv)) items
  | EUn x op _ =>
    negb (tag_eqb (ttag op) TPlusPlus) && negb (tag_eqb (ttag op) TMinusMinus) && pure_expr x
  | EBin l r op => negb (tag_eqb (ttag op) TEqual) && pure_expr l && pure_expr r
  | ECall _ _ => false
  | EMatch _ _ _ => false
  end.

(* everything that existed in [h] is unchanged in [h'], except that a cell holding the
   unset value may have been given a value (auto-vivification of an unset VARIABLE) *)
Definition heap_preserved (h h' : heap) : Prop :=
  Pos.le (next h) (next h') /\
  (forall b, Pos.lt b (next h) -> get_back h' b = get_back h b) /\
  (forall o, Pos.lt o (next h) -> get_obj h' o = get_obj h o) /\
  (forall a, Pos.lt a (next h) -> load h a <> VUnknown -> load h' a = load h a).

(* [doc_at h p v j]: the heap value [v] is a JSON document with tree [j]:
   every backing / object / cell of it has an id below [p], children live strictly below
   their container (the allocation order of NewValue), and no cell of it is unset. *)
Inductive doc_at (h : heap) : positive -> value -> jvalue -> Prop :=
| DocNull : forall p, doc_at h p (VNil None) JNull
| DocBool : forall p b, doc_at h p (VBool b) (JBool b)
| DocNum : forall p f, doc_at h p (VNum f) (JNum f)
| DocStr : forall p s, doc_at h p (VStr s) (JStr s)
| DocArr : forall p b js,
    Pos.lt b p -> doc_cells h b (get_back h b) js ->
    doc_at h p (VArr b 0 (length (get_back h b))) (JArr js)
| DocObj : forall p o fs,
    Pos.lt o p -> doc_fields h o (get_obj h o) fs ->
    doc_at h p (VObj o) (JObj fs)
with doc_cells (h : heap) : positive -> list addr -> list jvalue -> Prop :=
| DocCellsNil : forall p, doc_cells h p [] []
| DocCellsCons : forall p c cs j js,
    Pos.lt c p -> load h c <> VUnknown -> doc_at h p (load h c) j -> doc_cells h p cs js ->
    doc_cells h p (c :: cs) (j :: js)
with doc_fields (h : heap) : positive -> list (bytes * addr) -> list (bytes * jvalue) -> Prop :=
| DocFieldsNil : forall p, doc_fields h p [] []
| DocFieldsCons : forall p k c cs j js,
    Pos.lt c p -> load h c <> VUnknown -> doc_at h p (load h c) j -> doc_fields h p cs js ->
    doc_fields h p ((k, c) :: cs) ((k, j) :: js).

(* ---------------------------------------------------------------- C17 / C04 *)

(* the ids mentioned by a value are allocated *)
Definition val_ids_below (p : positive) (v : value) : Prop :=
  match v with
  | VArr b _ _ => Pos.lt b p
  | VObj o => Pos.lt o p
  | VNil (Some (a, _)) => Pos.lt a p
  | VNative _ (Some a) => Pos.lt a p
  | _ => True
  end.

(* every backing id / object id / cell address occurring in [h] is below [next h] *)
Definition wf_heap (h : heap) : Prop :=
  (forall a v, PM.find a (cells h) = Some v -> Pos.lt a (next h) /\ val_ids_below (next h) v) /\
  (forall b l, PM.find b (backs h) = Some l ->
     Pos.lt b (next h) /\ Forall (fun c => Pos.lt c (next h)) l) /\
  (forall o l, PM.find o (objs h) = Some l ->
     Pos.lt o (next h) /\ Forall (fun kc => Pos.lt (snd kc) (next h)) l).

(* the part of [wf_heap] that the termination of rendering needs: the cells that
   containers point to are allocated *)
Definition cells_bounded (h : heap) : Prop :=
  (forall b, Forall (fun c => Pos.lt c (next h)) (get_back h b)) /\
  (forall o, Forall (fun kc => Pos.lt (snd kc) (next h)) (get_obj h o)).

(* a container: the values the cycle check of PrettyString / ToGoValue is about *)
Definition is_container (v : value) : bool :=
  match v with VArr _ _ _ | VObj _ => true | _ => false end.

(* the text of one print statement whose arguments render as [ps] *)
Fixpoint join_sp (ps : list bytes) : bytes :=
  match ps with
  | [] => []
  | [p] => p
  | p :: r => p ++ 32%N :: join_sp r
  end.
Definition print_line (ps : list bytes) : bytes := join_sp ps ++ [10%N].

(* the Write calls of one print statement: each argument, a space between two, a newline *)
Fixpoint print_events (ps : list bytes) (first : bool) : list io_event :=
  match ps with
  | [] => [IoWrite [10%N]]
  | p :: r => (if first then [] else [IoWrite [32%N]]) ++ IoWrite p :: print_events r false
  end.

(* a byte that needs no escaping inside a JSON string: printable ASCII but quote, backslash *)
Definition plain_byte (c : byte) : bool :=
  (N.leb 32 c && N.ltb c 128 && negb (N.eqb c 34) && negb (N.eqb c 92))%bool.

(* a JSON value whose strings (keys included) need no escaping and whose numbers are finite *)
Inductive json_plain : jvalue -> Prop :=
| jp_null : json_plain JNull
| jp_bool : forall b, json_plain (JBool b)
| jp_num : forall f, f_is_finite f = true -> valid_binary 53 1024 f = true -> json_plain (JNum f)
| jp_str : forall s, forallb plain_byte s = true -> json_plain (JStr s)
| jp_arr : forall l, Forall json_plain l -> json_plain (JArr l)
| jp_obj : forall l,
    Forall (fun kv => forallb plain_byte (fst kv) = true /\ json_plain (snd kv)) l ->
    json_plain (JObj l).

(* a Go map built by inserting the members in order (last duplicate wins, keys sorted):
   the identity on the values the decoder produces *)
Fixpoint jsort (j : jvalue) : jvalue :=
  match j with
  | JArr l => JArr (map jsort l)
  | JObj l => JObj (fold_left (fun f kv => assoc_set (fst kv) (jsort (snd kv)) f) l [])
  | _ => j
  end.

(* the cells a container points to; [w] is a child of [v]; [v] (transitively) contains itself *)
Definition children (h : heap) (v : value) : list addr :=
  match v with
  | VArr b off len => arr_cells h b off len
  | VObj o => map snd (get_obj h o)
  | _ => []
  end.
Definition child (h : heap) (v w : value) : Prop := exists c, In c (children h v) /\ w = load h c.
Inductive reaches (h : heap) : value -> value -> Prop :=
| ReachRefl : forall v, reaches h v v
| ReachStep : forall v w u, child h v w -> reaches h w u -> reaches h v u.
Definition contains_itself (h : heap) (v : value) : Prop :=
  exists w, child h v w /\ reaches h w v.

(* the rendering of a JSON tree as print shows it (a pure function of the tree):
   [a, b] and {"k": v}, nested strings double-quoted, numbers as format_f *)
Fixpoint jrender (quote : bool) (j : jvalue) : bytes :=
  match j with
  | JNull => bs "null"
  | JBool true => bs "true"
  | JBool false => bs "false"
  | JNum f => format_f f
  | JStr s => if quote then 34%N :: s ++ [34%N] else s
  | JArr l =>
    91%N :: (fix items (l : list jvalue) (first : bool) : bytes :=
               match l with
               | [] => []
               | x :: r => (if first then [] else bs ", ") ++ jrender true x ++ items r false
               end) l true ++ [93%N]
  | JObj l =>
    123%N :: (fix fields (l : list (bytes * jvalue)) (first : bool) : bytes :=
                match l with
                | [] => []
                | (k, x) :: r =>
                  (if first then [] else bs ", ") ++ 34%N :: k ++ 34%N :: bs ": " ++
                  jrender true x ++ fields r false
                end) l true ++ [125%N]
  end.

(* object keys strictly ascending at every level: what the decoder produces (JValue.v) *)
Inductive keys_sorted : jvalue -> Prop :=
| ks_null : keys_sorted JNull
| ks_bool : forall b, keys_sorted (JBool b)
| ks_num : forall f, keys_sorted (JNum f)
| ks_str : forall s, keys_sorted (JStr s)
| ks_arr : forall l, Forall keys_sorted l -> keys_sorted (JArr l)
| ks_obj : forall l,
    Sorted.StronglySorted (fun a b : bytes * jvalue => bytes_cmp (fst a) (fst b) = Lt) l ->
    Forall (fun kv => keys_sorted (snd kv)) l -> keys_sorted (JObj l).
