(* C02: the awk schedule, written once as a small abstract scheduler.

   The scheduler is parameterised by the things it schedules -- how a rule body is
   executed, how a pattern is evaluated, how a root selector is evaluated, how the
   evaluator is initialised -- and says only WHEN each of them runs and with which
   `$`, `$index`, `$file`:

     init
     for each BEGIN rule (source order):      $ := fresh null cell; body
     for each file (order given):
       for each JSON value of the file (stream order):
         $file := file name
         roots := the value itself | one root per selector (order given)
         for each root:
           for each BEGINFILE rule:           $ := the root cell; body
           e.root := root
           if the root is an array:
             for i = 0 .. len-1:              $ := i-th cell (read live), $index := i; pattern rules
           else                               $ := root; pattern rules
           for each ENDFILE rule:             $ := fresh cell holding the root's value
                                                   as it was before BEGINFILE; body
     for each END rule:                       $ := fresh null cell; body

   pattern rules on one element, source order:
       pattern absent or truthy -> body;   `next` (from pattern or body) -> stop, Ok.
   Everything that is not Ok (exit, errors, ...) stops every enclosing loop: all loops are
   [for_each], which is left-to-right sequencing in the result monad.

   Definitions only; the laws are in Proofs/Driver.v, the statements in Props/C02_schedule.v. *)
From JQ Require Import Base.Bytes Num.F64 Syntax.Token Syntax.Lexer Syntax.Ast.
From JQ Require Import Json.JValue Json.Decode.
From JQ Require Import Gen.Generated Sem.Value Sem.Natives Sem.Eval Sem.Driver.
Open Scope nat_scope.

(* pointwise equality of computations (no functional extensionality is assumed) *)
Definition meq {A} (m1 m2 : M A) : Prop := forall s, m1 s = m2 s.

(* a non-Ok outcome seen at another result type *)
Definition recast {A B} (r : res A) : res B :=
  match r with
  | Ok _ => Panic
  | Err e => Err e
  | Sig x => Sig x
  | Panic => Panic
  | Fuel => Fuel
  | Unsupp => Unsupp
  end.

Definition is_ok {A} (r : res A) : bool := match r with Ok _ => true | _ => false end.

(* the only loop of the schedule: left to right, stop at the first outcome that is not Ok *)
Fixpoint for_each {A} (l : list A) (f : A -> M unit) : M unit :=
  match l with
  | [] => ret tt
  | x :: rest => f x ;;; for_each rest f
  end.

Fixpoint map_m {A B} (l : list A) (f : A -> M B) : M (list B) :=
  match l with
  | [] => ret []
  | x :: rest => let* y := f x in let* ys := map_m rest f in ret (y :: ys)
  end.

Definition kind_eqb (a b : rule_kind) : bool :=
  match a, b with
  | BeginRule, BeginRule | EndRule, EndRule | BeginFileRule, BeginFileRule
  | EndFileRule, EndFileRule | PatternRule, PatternRule => true
  | _, _ => false
  end.

(* the rules of one kind, in source order *)
Definition of_kind (k : rule_kind) (rs : list rule) : list rule :=
  filter (fun r => kind_eqb (rkind r) k) rs.

(* the stream of decoding steps of one file: pure, independent of the evaluator.
   Each item: the reads that the step performed and its result; the stream ends with the
   first step that is not a value; [None] = the model's decoding fuel ran out. *)
Fixpoint dec_trace (k : nat) (d : dstate) : list (list io_ev * option step_result) :=
  match k with
  | O => [([], None)]
  | S k' =>
    let '(r, d', evs) := dec_step d in
    match r with
    | SValue _ => (evs, Some r) :: dec_trace k' d'
    | _ => [(evs, Some r)]
    end
  end.

Definition file_fuel (rd : reader) : nat :=
  S (S (fold_left (fun a c => a + length c) (chunks rd) 0)).

Definition io_event_of (e : io_ev) : io_event :=
  match e with
  | EvRead k => IoRead k
  | EvReadEOF => IoReadEOF
  | EvReadFail => IoReadFail
  end.

Section Sched.
  Variable src : bytes.                  (* only positions the stray-signal error *)
  Variable rules : list rule.            (* Program.Rules, source order *)
  Variable selectors : list bytes.       (* -r, order given *)
  Variable init : M unit.
  Variable exec_body : rule -> M unit.
  Variable exec_pattern : expr -> M addr.
  Variable exec_selector : bytes -> jvalue -> M addr.

  (* ---- pattern rules on one element ---- *)

  (* what a pattern / body outcome means for the rule list: Ok -> go on with [k],
     next -> stop here (false), anything else -> propagate *)
  Definition next_guard {A} (r : res A) (k : A -> M bool) : M bool :=
    match r with
    | Ok a => k a
    | Sig SigNext => ret false
    | other => reraise other
    end.

  Definition s_body (r : rule) : M bool :=
    let* br := catch (exec_body r) in next_guard br (fun _ => ret true).

  (* one rule; true = go on with the next rule, false = `next` was signalled *)
  Definition s_rule (r : rule) : M bool :=
    match rpattern r with
    | None => s_body r
    | Some p =>
      let* pr := catch (exec_pattern p) in
      next_guard pr (fun c => let* v := m_load c in if is_truthy v then s_body r else ret true)
    end.

  Fixpoint s_rules_go (rs : list rule) : M bool :=
    match rs with
    | [] => ret true
    | r :: rest => let* go := s_rule r in if go then s_rules_go rest else ret false
    end.

  Definition s_rules (rs : list rule) : M unit := let* _ := s_rules_go rs in ret tt.

  (* ---- the elements of a root ---- *)

  Definition s_element (prs : list rule) (bid : positive) (off i : nat) : M unit :=
    let* h := get_heap in                                  (* the backing is read live *)
    match nth_error (get_back h bid) (off + i) with
    | None => fail Panic
    | Some item =>
      set_rule_root (Some item) ;;;
      (let* c := m_alloc (num_of_nat i) in set_local (bs "$index") c) ;;;
      s_rules prs
    end.

  Definition s_pattern_phase (prs : list rule) : M unit :=
    let* s := get_st in
    match root s with
    | None => ret tt
    | Some rt =>
      let* rv := m_load rt in
      match rv with
      | VArr bid off len => for_each (seq 0 len) (s_element prs bid off)
      | _ => set_rule_root (Some rt) ;;; s_rules prs
      end
    end.

  (* ---- BEGIN / END / BEGINFILE / ENDFILE ---- *)

  Definition s_special (mk_root : M addr) (r : rule) : M unit :=
    let* a := mk_root in
    set_rule_root (Some a) ;;;
    let* res0 := catch (exec_body r) in
    match res0 with
    | Ok _ => ret tt
    | other => stray src (stmt_token (rbody r)) other
    end.

  Definition null_root : M addr := m_alloc (VNil None).

  (* ---- one root, one value, one file ---- *)

  Definition s_root (rc : addr) : M unit :=
    let* root_val := m_load rc in                          (* before BEGINFILE *)
    for_each (of_kind BeginFileRule rules) (s_special (ret rc)) ;;;
    set_root (Some rc) ;;;
    s_pattern_phase (of_kind PatternRule rules) ;;;
    for_each (of_kind EndFileRule rules) (s_special (m_alloc root_val)).

  Definition s_roots_of (doc : jvalue) : M (list addr) :=
    match selectors with
    | [] =>
      let* rv := with_heap (new_value doc) in
      let* rc := m_alloc rv in
      ret [rc]
    | _ => map_m selectors (fun sel => exec_selector sel doc)
    end.

  Definition s_set_file (name : bytes) : M unit :=
    let* c := m_alloc (VStr name) in set_global (bs "$file") c.

  Definition s_value (name : bytes) (doc : jvalue) : M unit :=
    s_set_file name ;;;
    let* rcs := s_roots_of doc in
    for_each rcs s_root.

  Definition s_item (name : bytes) (it : list io_ev * option step_result) : M unit :=
    match snd it with
    | None => fail Fuel
    | Some r =>
      log_io (map io_event_of (fst it)) ;;;
      match r with
      | SValue doc => s_value name doc
      | SEof => ret tt
      | SErr => raise_err (mkErr EJson 0 0 name)
      | SUnsupported => fail Unsupp
      end
    end.

  Definition s_file (f : bytes * reader) : M unit :=
    for_each (dec_trace (file_fuel (snd f)) (dec_init (snd f))) (s_item (fst f)).

  (* ---- the run ---- *)

  Definition sched (files : list (bytes * reader)) : M unit :=
    init ;;;
    for_each (of_kind BeginRule rules) (s_special null_root) ;;;
    for_each files s_file ;;;
    for_each (of_kind EndRule rules) (s_special null_root).
End Sched.

(* the scheduler instantiated with the real evaluator *)
Definition real_sched (src : bytes) (prog : program) (fuzzing : bool) (selectors : list bytes) (n : nat)
  : list (bytes * reader) -> M unit :=
  sched src (prules prog) selectors
        (new_evaluator src (pfuncs prog))
        (fun r => eval_stmt src (pfuncs prog) fuzzing n (rbody r))
        (eval_expr src (pfuncs prog) fuzzing n)
        (eval_selector n).

(* a list is an order-preserving selection of another *)
Inductive subseq {A} : list A -> list A -> Prop :=
| subseq_nil : subseq [] []
| subseq_skip : forall x l1 l2, subseq l1 l2 -> subseq l1 (x :: l2)
| subseq_take : forall x l1 l2, subseq l1 l2 -> subseq (x :: l1) (x :: l2).

(* ------------------------------------------------------------------ vocabulary of the laws *)

(* outcomes that no scheduler level handles: exit, errors, panics, fuel, unsupported.
   (next/break/continue/return are handled somewhere: the rule list, or [stray].) *)
Definition passes {A} (r : res A) : bool :=
  match r with
  | Ok _ => false
  | Sig SigExit => true
  | Sig _ => false
  | _ => true
  end.

Definition with_rule_root (s : st) (a : addr) : st :=
  mkSt (hp s) (frames s) (Some a) (root s) (retval s) (io s).

(* the state in which the pattern rules see element [i]: `$` is the element's own cell,
   `$index` a fresh cell holding [i] in the top frame *)
Definition elem_state (s : st) (item : addr) (i : nat) : option st :=
  match frames s with
  | f :: fr =>
    let '(c, h') := alloc (hp s) (num_of_nat i) in
    Some (mkSt h' (mkFrame (fname f) (assoc_set (bs "$index") c (locals f)) :: fr)
               (Some item) (root s) (retval s) (io s))
  | [] => None
  end.

(* the state in which a special rule's body runs when `$` is a fresh cell holding [v] *)
Definition fresh_root_state (s : st) (v : value) : st :=
  mkSt (snd (alloc (hp s) v)) (frames s) (Some (next (hp s))) (root s) (retval s) (io s).

(* the state in which the roots of a value are computed: `$file` names the file *)
Definition file_state (s : st) (name : bytes) : st :=
  mkSt (snd (alloc (hp s) (VStr name)))
       (set_in_last (frames s) (bs "$file") (next (hp s)))
       (rule_root s) (root s) (retval s) (io s).

(* what the driver makes of the outcome of a special rule's body *)
Definition special_finish (src : bytes) (r : rule) (out : res unit * st) : res unit * st :=
  match fst out with
  | Ok _ => (Ok tt, snd out)
  | other => stray src (stmt_token (rbody r)) other (snd out)
  end.

(* ------------------------------------------------------------------ the propagation law *)

Section Propagation.
  Variable src : bytes.
  Variable rules : list rule.
  Variable selectors : list bytes.
  Variable init : M unit.
  Variable exec_body : rule -> M unit.
  Variable exec_pattern : expr -> M addr.
  Variable exec_selector : bytes -> jvalue -> M addr.

  (* the body of pattern rule [r], started on an element in state [s], runs (in state [sb]) *)
  Definition body_runs_at (r : rule) (s sb : st) : Prop :=
    rpattern r = None /\ sb = s \/
    exists p c, rpattern r = Some p /\ exec_pattern p s = (Ok c, sb)
                /\ is_truthy (load (hp sb) c) = true.

  Let srule := s_rule exec_body exec_pattern.
  Let srules_go := s_rules_go exec_body exec_pattern.
  Let srules := s_rules exec_body exec_pattern.
  Let selement := s_element exec_body exec_pattern.
  Let sphase := s_pattern_phase exec_body exec_pattern.
  Let sspecial := s_special src exec_body.
  Let sroot := s_root src rules exec_body exec_pattern.
  Let svalue := s_value src rules selectors exec_body exec_pattern exec_selector.
  Let sitem := s_item src rules selectors exec_body exec_pattern exec_selector.
  Let sfile := s_file src rules selectors exec_body exec_pattern exec_selector.
  Let ssched := sched src rules selectors init exec_body exec_pattern exec_selector.

  (* "outcome [x], first produced in state [s1] by an executor call, is the outcome of every
     enclosing level, in the same state": one clause per level and per position in it.
     Chaining the clauses from the executor call up to [sched] gives: the run ends with
     (x, s1) -- no later rule, element, root, value, file, ENDFILE or END runs, because
     the state s1 in which the executor stopped is the final state. *)
  Definition propagates (x : res unit) : Prop :=
    (* executor -> one pattern rule *)
    (forall r p s s1, rpattern r = Some p -> exec_pattern p s = (recast x, s1) ->
                      srule r s = (recast x, s1)) /\
    (forall r s sb s1, body_runs_at r s sb -> exec_body r sb = (x, s1) ->
                       srule r s = (recast x, s1)) /\
    (* one rule -> the rule list of an element *)
    (forall pre r rest s0 s s1, srules_go pre s0 = (Ok true, s) -> srule r s = (recast x, s1) ->
                                srules (pre ++ r :: rest) s0 = (x, s1)) /\
    (* rule list -> element *)
    (forall prs bid off i s item s' s1,
        nth_error (get_back (hp s) bid) (off + i) = Some item -> elem_state s item i = Some s' ->
        srules prs s' = (x, s1) -> selement prs bid off i s = (x, s1)) /\
    (* element -> pattern phase (array root), rule list -> pattern phase (other root) *)
    (forall prs s rt bid off len i s' s1,
        root s = Some rt -> load (hp s) rt = VArr bid off len -> i < len ->
        for_each (seq 0 i) (selement prs bid off) s = (Ok tt, s') ->
        selement prs bid off i s' = (x, s1) ->
        sphase prs s = (x, s1)) /\
    (forall prs s rt s1,
        root s = Some rt -> tag_of (load (hp s) rt) <> TgArr ->
        srules prs (with_rule_root s rt) = (x, s1) -> sphase prs s = (x, s1)) /\
    (* executor -> special rule *)
    (forall mk r s a s' s1, mk s = (Ok a, s') -> exec_body r (with_rule_root s' a) = (x, s1) ->
                            sspecial mk r s = (x, s1)) /\
    (* any loop of the schedule: step -> loop *)
    (forall (A : Type) (f : A -> M unit) pre y post s0 s s1,
        for_each pre f s0 = (Ok tt, s) -> f y s = (x, s1) ->
        for_each (pre ++ y :: post) f s0 = (x, s1)) /\
    (* BEGINFILE list / pattern phase / ENDFILE list -> root *)
    (forall rc s s1,
        for_each (of_kind BeginFileRule rules) (sspecial (ret rc)) s = (x, s1) ->
        sroot rc s = (x, s1)) /\
    (forall rc s sa s1,
        for_each (of_kind BeginFileRule rules) (sspecial (ret rc)) s = (Ok tt, sa) ->
        sphase (of_kind PatternRule rules)
               (mkSt (hp sa) (frames sa) (rule_root sa) (Some rc) (retval sa) (io sa)) = (x, s1) ->
        sroot rc s = (x, s1)) /\
    (forall rc s sa sb s1,
        for_each (of_kind BeginFileRule rules) (sspecial (ret rc)) s = (Ok tt, sa) ->
        sphase (of_kind PatternRule rules)
               (mkSt (hp sa) (frames sa) (rule_root sa) (Some rc) (retval sa) (io sa)) = (Ok tt, sb) ->
        for_each (of_kind EndFileRule rules) (sspecial (m_alloc (load (hp s) rc))) sb = (x, s1) ->
        sroot rc s = (x, s1)) /\
    (* selector / root list -> value *)
    (forall name doc s s1,
        s_roots_of selectors exec_selector doc (file_state s name) = (recast x, s1) ->
        svalue name doc s = (x, s1)) /\
    (forall name doc s rcs sa s1,
        s_roots_of selectors exec_selector doc (file_state s name) = (Ok rcs, sa) ->
        for_each rcs sroot sa = (x, s1) ->
        svalue name doc s = (x, s1)) /\
    (* value -> decoding step of the file;  (step -> file is the loop clause) *)
    (forall name evs doc s s1,
        svalue name doc (mkSt (hp s) (frames s) (rule_root s) (root s) (retval s)
                              (rev (map io_event_of evs) ++ io s)) = (x, s1) ->
        sitem name (evs, Some (SValue doc)) s = (x, s1)) /\
    (* init / BEGIN list / file list / END list -> the run *)
    (forall files s s1, init s = (x, s1) -> ssched files s = (x, s1)) /\
    (forall files s sa s1,
        init s = (Ok tt, sa) ->
        for_each (of_kind BeginRule rules) (sspecial null_root) sa = (x, s1) ->
        ssched files s = (x, s1)) /\
    (forall files s sa sb s1,
        init s = (Ok tt, sa) ->
        for_each (of_kind BeginRule rules) (sspecial null_root) sa = (Ok tt, sb) ->
        for_each files sfile sb = (x, s1) ->
        ssched files s = (x, s1)) /\
    (forall files s sa sb sc s1,
        init s = (Ok tt, sa) ->
        for_each (of_kind BeginRule rules) (sspecial null_root) sa = (Ok tt, sb) ->
        for_each files sfile sb = (Ok tt, sc) ->
        for_each (of_kind EndRule rules) (sspecial null_root) sc = (x, s1) ->
        ssched files s = (x, s1)).
End Propagation.
