(* C01: where break / continue / return statements may occur.  [wf_stmt inl inf s] holds when,
   in s, every break and continue is under the BODY of a loop of s (or inl = true: s itself is
   inside a loop body) and every return is allowed (inf = true: s is inside a function body).
   A match-case body inherits both flags; the condition / post / iterated expressions of a loop
   keep the flags of the loop statement itself.  This is what the parser enforces with
   p.inLoop / p.inFunction (Parser.loopBody, parseFunction). *)
From Coq Require Import List Bool.
From JQ Require Import Base.Bytes Syntax.Token Syntax.Ast.
From JQ Require Sem.Value.
Import ListNotations.

Fixpoint wf_expr (inl inf : bool) (e : expr) {struct e} : bool :=
  match e with
  | ELit _ | EId _ => true
  | EArr _ items => forallb (wf_expr inl inf) items
  | EObj _ items => forallb (fun kv => wf_expr inl inf (snd kv)) items
  | EUn x _ _ => wf_expr inl inf x
  | EBin l r _ => wf_expr inl inf l && wf_expr inl inf r
  | ECall f args => wf_expr inl inf f && forallb (wf_expr inl inf) args
  | EMatch _ v cases => wf_expr inl inf v && forallb (fun c => wf_stmt inl inf (snd c)) cases
  end
with wf_stmt (inl inf : bool) (s : stmt) {struct s} : bool :=
  match s with
  | SBlock _ body => forallb (wf_stmt inl inf) body
  | SPrint _ args => forallb (wf_expr inl inf) args
  | SExpr e => wf_expr inl inf e
  | SReturn None => inf
  | SReturn (Some e) => inf && wf_expr inl inf e
  | SBreak _ | SContinue _ => inl
  | SNext _ | SExit _ => true
  | SIf c body None => wf_expr inl inf c && wf_stmt inl inf body
  | SIf c body (Some els) => wf_expr inl inf c && wf_stmt inl inf body && wf_stmt inl inf els
  | SWhile c body => wf_expr inl inf c && wf_stmt true inf body
  | SFor pre c post body =>
    wf_expr inl inf pre && wf_expr inl inf c && wf_expr inl inf post && wf_stmt true inf body
  | SForIn _ _ iter body => wf_expr inl inf iter && wf_stmt true inf body
  end.

(* a function body: not in a loop, in a function *)
Definition wf_func (fn : func) : bool := wf_stmt false true (fbody fn).

(* a rule: neither in a loop nor in a function *)
Definition wf_rule (r : rule) : bool :=
  match rpattern r with Some p => wf_expr false false p | None => true end &&
  wf_stmt false false (rbody r).

Definition wf_program (p : program) : bool :=
  forallb wf_func (pfuncs p) && forallb wf_rule (prules p).

(* the signals a construct in position (inl, inf) may hand to its context *)
Definition allowed (inl inf : bool) (x : Sem.Value.signal) : Prop :=
  match x with
  | Sem.Value.SigBreak | Sem.Value.SigContinue => inl = true
  | Sem.Value.SigReturn => inf = true
  | Sem.Value.SigNext | Sem.Value.SigExit => True
  end.
