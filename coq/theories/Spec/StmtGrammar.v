(* Spec for C13 at statement / program level.  Definitions only.
   Position-free statements and programs ([sstmt], [sprog]), [strip_stmt] / [strip_prog]
   erasing positions from the parser's AST, and the token-level writings of a program that
   the layout property permits ([PrS], [PrI], [PrP]): a relation between a position-free
   program, a token list (which fixes the choice of ';' versus line end between statements)
   and a concrete layout (which fixes every gap). *)
From JQ Require Import Base.Bytes Syntax.Token Syntax.Ast.
From JQ Require Import Spec.PrecGrammar.
From Coq Require Import Arith.
Open Scope nat_scope.

(* ------------------------------------------------------------ position-free programs *)

Inductive sstmt :=
| ZExpr (e : sexpr)
| ZPrint (args : list sexpr)
| ZBlock (body : sitems)
| ZIf (c : sexpr) (b : sstmt) (els : option sstmt)
| ZWhile (c : sexpr) (b : sstmt)
| ZFor (pre c post : sexpr) (b : sstmt)
| ZForIn (id : bytes) (ix : option bytes) (it : sexpr) (b : sstmt)
| ZReturn (e : option sexpr)
| ZBreak | ZContinue | ZNext | ZExit
with sitems :=
| ZNil
| ZCons (s : sstmt) (r : sitems).

Record srule := mkSRule { zkind : rule_kind; zpat : option sexpr; zbody : sitems }.
Record sfunc := mkSFunc { zname : bytes; zparams : list bytes; zfbody : sitems }.
Inductive sdecl := ZRule (r : srule) | ZFunc (f : sfunc).
Definition sprog := list sdecl.

Fixpoint decl_rules (p : sprog) : list srule :=
  match p with [] => [] | ZRule r :: q => r :: decl_rules q | ZFunc _ :: q => decl_rules q end.
Fixpoint decl_funcs (p : sprog) : list sfunc :=
  match p with [] => [] | ZFunc f :: q => f :: decl_funcs q | ZRule _ :: q => decl_funcs q end.

(* the parser's rewriting of compound assignments, everywhere *)
Fixpoint dstmt (s : sstmt) : sstmt :=
  match s with
  | ZExpr e => ZExpr (desugar e)
  | ZPrint args => ZPrint (map desugar args)
  | ZBlock b => ZBlock (ditems b)
  | ZIf c b els => ZIf (desugar c) (dstmt b) (match els with Some e => Some (dstmt e) | None => None end)
  | ZWhile c b => ZWhile (desugar c) (dstmt b)
  | ZFor a c p b => ZFor (desugar a) (desugar c) (desugar p) (dstmt b)
  | ZForIn id ix it b => ZForIn id ix (desugar it) (dstmt b)
  | ZReturn (Some e) => ZReturn (Some (desugar e))
  | ZReturn None => ZReturn None
  | ZBreak => ZBreak | ZContinue => ZContinue | ZNext => ZNext | ZExit => ZExit
  end
with ditems (b : sitems) : sitems :=
  match b with ZNil => ZNil | ZCons s r => ZCons (dstmt s) (ditems r) end.

Definition drule (r : srule) : srule :=
  mkSRule (zkind r) (option_map desugar (zpat r)) (ditems (zbody r)).
Definition dfunc (f : sfunc) : sfunc := mkSFunc (zname f) (zparams f) (ditems (zfbody f)).

(* ------------------------------------------------------------ erasing positions *)

Fixpoint strip_exprs (src : bytes) (l : list expr) : option (list sexpr) :=
  match l with
  | [] => Some []
  | a :: r => omap2 cons (strip src a) (strip_exprs src r)
  end.

Definition name_of (src : bytes) (t : token) : option bytes :=
  match ttag t with TIdent => get_string src t | _ => None end.

Fixpoint strip_stmt (src : bytes) (a : stmt) {struct a} : option sstmt :=
  match a with
  | SBlock t body =>
    if tag_eqb (ttag t) TLCurly then
      option_map ZBlock
        ((fix go (l : list stmt) : option sitems :=
            match l with
            | [] => Some ZNil
            | x :: r => omap2 ZCons (strip_stmt src x) (go r)
            end) body)
    else None
  | SPrint t args => if tag_eqb (ttag t) TPrint then option_map ZPrint (strip_exprs src args) else None
  | SExpr e => option_map ZExpr (strip src e)
  | SReturn None => Some (ZReturn None)
  | SReturn (Some e) => option_map (fun x => ZReturn (Some x)) (strip src e)
  | SBreak t => if tag_eqb (ttag t) TBreak then Some ZBreak else None
  | SContinue t => if tag_eqb (ttag t) TContinue then Some ZContinue else None
  | SNext t => if tag_eqb (ttag t) TNext then Some ZNext else None
  | SExit t => if tag_eqb (ttag t) TExit then Some ZExit else None
  | SIf c b None => omap2 (fun c' b' => ZIf c' b' None) (strip src c) (strip_stmt src b)
  | SIf c b (Some e) =>
    match strip src c, strip_stmt src b, strip_stmt src e with
    | Some c', Some b', Some e' => Some (ZIf c' b' (Some e'))
    | _, _, _ => None
    end
  | SWhile c b => omap2 ZWhile (strip src c) (strip_stmt src b)
  | SFor a c p b =>
    match strip src a, strip src c, strip src p, strip_stmt src b with
    | Some a', Some c', Some p', Some b' => Some (ZFor a' c' p' b')
    | _, _, _, _ => None
    end
  | SForIn id ix it b =>
    match name_of src id, strip src it, strip_stmt src b with
    | Some id', Some it', Some b' =>
      match ix with
      | None => Some (ZForIn id' None it' b')
      | Some x => option_map (fun x' => ZForIn id' (Some x') it' b') (name_of src x)
      end
    | _, _, _ => None
    end
  end.

Fixpoint strip_items (src : bytes) (l : list stmt) : option sitems :=
  match l with
  | [] => Some ZNil
  | x :: r => omap2 ZCons (strip_stmt src x) (strip_items src r)
  end.

(* the body of a rule / function is a block *)
Definition strip_body (src : bytes) (a : stmt) : option sitems :=
  match strip_stmt src a with Some (ZBlock b) => Some b | _ => None end.

Definition strip_rule (src : bytes) (r : rule) : option srule :=
  match strip_body src (rbody r) with
  | Some b =>
    match rpattern r with
    | None => Some (mkSRule (rkind r) None b)
    | Some e => option_map (fun e' => mkSRule (rkind r) (Some e') b) (strip src e)
    end
  | None => None
  end.

Definition strip_func (src : bytes) (f : func) : option sfunc :=
  omap2 (fun n b => mkSFunc n (fparams f) b) (name_of src (fident f)) (strip_body src (fbody f)).

Fixpoint strip_all {A B} (f : A -> option B) (l : list A) : option (list B) :=
  match l with [] => Some [] | x :: r => omap2 cons (f x) (strip_all f r) end.

(* rules and functions are kept in two lists by the parser *)
Definition strip_prog (src : bytes) (p : program) : option (list srule * list sfunc) :=
  omap2 pair (strip_all (strip_rule src) (prules p)) (strip_all (strip_func src) (pfuncs p)).
