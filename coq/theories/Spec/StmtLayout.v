(* Spec for C13 at statement / program level, part 2: the permitted writings.  Definitions only.

   A parse context [c : pctx] (Proofs/Syntax.v) fixes a concrete layout: every token with
   the gap in front of it ([is_gap]: spaces, tabs, CRs, line ends, '#' comments running to a
   line end) and a trailing gap.  [PrP c p ts] says: the token list [ts] -- which is the
   token list of [c] -- is a writing of the position-free program [p] that the layout
   property permits under the gaps of [c]:
     * any gap anywhere, except that the gap after `print` (when arguments follow), after a
       comma of a print list and in front of a statement-separating ';' has no line end;
     * two statements are separated by a gap with a line end or by ';' (not after '}' or
       after a ';' that already belongs to the statement); before '}' nothing is needed;
     * an expression that ends a statement is followed by a token that cannot continue it.
   The choice of ';' versus line end is in the token list, the choice of gaps in [c]. *)
From JQ Require Import Base.Bytes Syntax.Token Syntax.Ast Syntax.Parser.
From JQ Require Import Spec.PrecGrammar Spec.StmtGrammar Proofs.SyntaxLex Proofs.Syntax.
From Coq Require Import Arith.
Open Scope nat_scope.

(* does the gap in front of the first token of the suffix [ts] contain a line end *)
Definition nlb (c : pctx) (ts : list stoken) : bool :=
  has_nl (gap_at c (length (c_items c) - length ts)).

Definition set_loop (c : pctx) (b : bool) : pctx := mkCtx (c_items c) (c_trail c) b (c_fn c).
Definition set_fn (c : pctx) (b : bool) : pctx := mkCtx (c_items c) (c_trail c) (c_loop c) b.

(* an expression, with any choice of redundant parentheses *)
Definition PrE (e : sexpr) (ts : list stoken) : Prop :=
  wf_sexpr e = true /\ exists force, ts = print force 1 e.

(* the token after an expression must not be able to continue it *)
Definition stops (rest : list stoken) : Prop := prec_of (hd_tag rest) = 0.

(* a print list: the gap after each comma has no line end *)
Inductive PrArgs (c : pctx) : list sexpr -> list stoken -> list stoken -> Prop :=
| PrArgs_one a ta rest :
    PrE a ta -> stops rest -> hd_tag rest <> TComma -> PrArgs c [a] ta rest
| PrArgs_cons a b r ta tr rest :
    PrE a ta -> nlb c (tr ++ rest) = false -> PrArgs c (b :: r) tr rest ->
    PrArgs c (a :: b :: r) (ta ++ KFix TComma :: tr) rest.

Definition kind_toks (k : rule_kind) : list stoken :=
  match k with
  | BeginRule => [KFix TBegin] | EndRule => [KFix TEnd]
  | BeginFileRule => [KFix TBeginFile] | EndFileRule => [KFix TEndFile]
  | PatternRule => []
  end.

(* PrS c s ts rest fin: [ts] writes statement [s] in front of [rest]; [fin] = the writing
   ends with its own ';' or with '}' (nothing more is needed to end the statement) *)
Inductive PrS : pctx -> sstmt -> list stoken -> list stoken -> bool -> Prop :=
| Pr_expr c e ts rest : PrE e ts -> stops rest -> PrS c (ZExpr e) ts rest false
(* print without arguments must be ended at once *)
| Pr_print0 c rest :
    (nlb c rest = true \/ hd_tag rest = TRCurly) ->
    PrS c (ZPrint []) [KFix TPrint] rest false
| Pr_print0_semi c rest :
    nlb c (KFix TSemiColon :: rest) = false ->
    PrS c (ZPrint []) [KFix TPrint; KFix TSemiColon] rest true
| Pr_print c a args ta rest :
    PrArgs c (a :: args) ta rest -> nlb c (ta ++ rest) = false ->
    (hd_tag rest = TSemiColon -> nlb c rest = true) ->
    PrS c (ZPrint (a :: args)) (KFix TPrint :: ta) rest false
| Pr_print_semi c a args ta rest :
    PrArgs c (a :: args) ta (KFix TSemiColon :: rest) ->
    nlb c (ta ++ KFix TSemiColon :: rest) = false -> nlb c (KFix TSemiColon :: rest) = false ->
    PrS c (ZPrint (a :: args)) (KFix TPrint :: ta ++ [KFix TSemiColon]) rest true
| Pr_block c b tb rest :
    PrI c b tb (KFix TRCurly :: rest) ->
    PrS c (ZBlock b) (KFix TLCurly :: tb ++ [KFix TRCurly]) rest true
| Pr_if_none c cnd b tc tb rest fin :
    PrE cnd tc -> PrS c b tb rest fin -> hd_tag rest <> TElse ->
    PrS c (ZIf cnd b None) (KFix TIf :: KFix TLParen :: tc ++ KFix TRParen :: tb) rest fin
| Pr_if_else c cnd b e tc tb te rest finb fin :
    PrE cnd tc -> PrS c b tb (KFix TElse :: te ++ rest) finb -> PrS c e te rest fin ->
    PrS c (ZIf cnd b (Some e))
        (KFix TIf :: KFix TLParen :: tc ++ KFix TRParen :: tb ++ KFix TElse :: te) rest fin
| Pr_while c cnd b tc tb rest fin :
    PrE cnd tc -> PrS (set_loop c true) b tb rest fin ->
    PrS c (ZWhile cnd b) (KFix TWhile :: KFix TLParen :: tc ++ KFix TRParen :: tb) rest fin
| Pr_break c rest : c_loop c = true -> PrS c ZBreak [KFix TBreak] rest false
| Pr_continue c rest : c_loop c = true -> PrS c ZContinue [KFix TContinue] rest false
| Pr_next c rest : PrS c ZNext [KFix TNext] rest false
| Pr_exit c rest : PrS c ZExit [KFix TExit] rest false
(* return: only inside a function; a bare return must be ended at once; the gap between
   return and its expression has no line end *)
| Pr_return0 c rest :
    c_fn c = true -> (nlb c rest = true \/ hd_tag rest = TRCurly) ->
    PrS c (ZReturn None) [KFix TReturn] rest false
| Pr_return0_semi c rest :
    c_fn c = true -> nlb c (KFix TSemiColon :: rest) = false ->
    PrS c (ZReturn None) [KFix TReturn; KFix TSemiColon] rest true
| Pr_return c e te rest :
    c_fn c = true -> PrE e te -> stops rest -> nlb c (te ++ rest) = false ->
    PrS c (ZReturn (Some e)) (KFix TReturn :: te) rest false
| Pr_for c pre cnd post b tp tc tq tb rest fin :
    PrE pre tp -> PrE cnd tc -> PrE post tq -> PrS (set_loop c true) b tb rest fin ->
    PrS c (ZFor pre cnd post b)
        (KFix TFor :: KFix TLParen :: tp ++ KFix TSemiColon :: tc ++ KFix TSemiColon :: tq ++
         KFix TRParen :: tb) rest fin
| Pr_forin c id it b ti tb rest fin :
    wf_ident id = true -> PrE it ti -> PrS (set_loop c true) b tb rest fin ->
    PrS c (ZForIn id None it b)
        (KFix TFor :: KFix TLParen :: KIdent id :: KFix TIn :: ti ++ KFix TRParen :: tb) rest fin
| Pr_forin_ix c id ix it b ti tb rest fin :
    wf_ident id = true -> wf_ident ix = true -> PrE it ti -> PrS (set_loop c true) b tb rest fin ->
    PrS c (ZForIn id (Some ix) it b)
        (KFix TFor :: KFix TLParen :: KIdent id :: KFix TComma :: KIdent ix :: KFix TIn :: ti ++
         KFix TRParen :: tb) rest fin
(* statements of a block, in front of its '}' *)
with PrI : pctx -> sitems -> list stoken -> list stoken -> Prop :=
| PrI_nil c rest : PrI c ZNil [] rest
| PrI_gap c s r ts tr rest fin :
    PrS c s ts (tr ++ rest) fin ->
    (fin = true \/ nlb c (tr ++ rest) = true \/ hd_tag (tr ++ rest) = TRCurly) ->
    PrI c r tr rest ->
    PrI c (ZCons s r) (ts ++ tr) rest
| PrI_semi c s r ts tr rest :
    PrS c s ts (KFix TSemiColon :: tr ++ rest) false ->
    nlb c (KFix TSemiColon :: tr ++ rest) = false ->
    PrI c r tr rest ->
    PrI c (ZCons s r) (ts ++ KFix TSemiColon :: tr) rest.

Scheme PrS_ind2 := Minimality for PrS Sort Prop
  with PrI_ind2 := Minimality for PrI Sort Prop.
Combined Scheme PrSI_ind from PrS_ind2, PrI_ind2.

(* a rule: BEGIN / END / BEGINFILE / ENDFILE / nothing / a pattern, then a block *)
Inductive PrR (c : pctx) : srule -> list stoken -> list stoken -> Prop :=
| PrR_kind k b tb rest :
    PrI c b tb (KFix TRCurly :: rest) ->
    PrR c (mkSRule k None b) (kind_toks k ++ KFix TLCurly :: tb ++ [KFix TRCurly]) rest
| PrR_pat p b tp tb rest :
    PrE p tp -> PrI c b tb (KFix TRCurly :: rest) ->
    PrR c (mkSRule PatternRule (Some p) b) (tp ++ KFix TLCurly :: tb ++ [KFix TRCurly]) rest.

(* a function declaration: function name ( p , q ... ) block; return is allowed inside *)
Fixpoint params_toks (ps : list bytes) : list stoken :=
  match ps with
  | [] => []
  | p :: r => KIdent p :: match r with [] => [] | _ :: _ => KFix TComma :: params_toks r end
  end.

Inductive PrF (c : pctx) : sfunc -> list stoken -> list stoken -> Prop :=
| PrF_intro name ps b tb rest :
    wf_ident name = true -> forallb wf_ident ps = true ->
    PrI (set_fn c true) b tb (KFix TRCurly :: rest) ->
    PrF c (mkSFunc name ps b)
        (KFix TFunction :: KIdent name :: KFix TLParen :: params_toks ps ++
         KFix TRParen :: KFix TLCurly :: tb ++ [KFix TRCurly]) rest.

(* a program: rules and function declarations in any order *)
Inductive PrP (c : pctx) : sprog -> list stoken -> Prop :=
| PrP_nil : PrP c [] []
| PrP_rule r q tr tq : PrR c r tr tq -> PrP c q tq -> PrP c (ZRule r :: q) (tr ++ tq)
| PrP_func f q tf tq : PrF c f tf tq -> PrP c q tq -> PrP c (ZFunc f :: q) (tf ++ tq).

(* [c] is a layout of exactly these tokens, at top level *)
Definition layout_of (c : pctx) (ts : list stoken) : Prop :=
  map snd (c_items c) = ts /\ Gaps true (c_items c) /\ is_gap (c_trail c) /\
  c_loop c = false /\ c_fn c = false.
