(* Spec/TokSpans.v -- vocabulary for "every token points into the program text"
   (property C12, and the absence of out-of-range slices in Lexer.GetString). *)
From JQ Require Import Base.Bytes Syntax.Token Gen.Generated Syntax.Lexer Syntax.Ast Syntax.Parser.
Open Scope nat_scope.

(* the token denotes a slice of the source: src[Pos : Pos+Len] does not panic *)
Definition tok_in_src (src : bytes) (t : token) : Prop := tpos t + tlen t <= length src.

(* the lexer cursor is a cursor over [src]: the unread suffix is src[pos:], pos is in range,
   and tokenStart has not overtaken pos *)
Definition lex_inv (src : bytes) (l : lexer) : Prop :=
  lrest l = skipn (lpos l) src /\ lpos l <= length src /\ lstart l <= lpos l.

(* a byte that Lexer.Next rejects when it is found at the start of a token
   ([next] is the byte after it, if any: '&' and '|' are legal only when doubled) *)
Definition unexpected_byte (c : byte) (next : option byte) : Prop :=
  c <> 10%N /\ c <> 32%N /\ c <> 13%N /\ c <> 9%N /\ c <> 35%N /\          (* newline, blanks, comment *)
  c <> 36%N /\ c <> 95%N /\ latin1_is_digit c = false /\ latin1_is_letter c = false /\
  c <> 39%N /\ c <> 34%N /\                                                    (* quotes *)
  lookup_op1 op1_table c = None /\
  (forall d, next = Some d -> lookup_op2 op2_table c d = None).

(* tags of tokens the evaluator accepts inside an ExprLiteral *)
Definition lit_tag_ok (t : token) : Prop :=
  In (ttag t) [TStr; TIdent; TRegex; TNum; TTrue; TFalse; TNull].

Section AllList.
  Variables (A : Type) (Q : A -> Prop).
  Fixpoint all_list (l : list A) : Prop :=
    match l with [] => True | x :: r => Q x /\ all_list r end.
End AllList.
Arguments all_list {A} Q l.

Definition all_opt {A} (Q : A -> Prop) (o : option A) : Prop :=
  match o with Some x => Q x | None => True end.

(* [expr_toks Pt Pl e]: Pt holds of every token stored anywhere in e (including synthesized
   ones), and Pl holds in addition of the token of every ELit node *)
Section Toks.
  Variables (Pt Pl : token -> Prop).

  Fixpoint expr_toks (e : expr) : Prop :=
    match e with
    | ELit t => Pt t /\ Pl t
    | EId t => Pt t
    | EArr t items => Pt t /\ all_list expr_toks items
    | EObj t items => Pt t /\ all_list (fun kv => expr_toks (snd kv)) items
    | EUn e1 op _ => expr_toks e1 /\ Pt op
    | EBin l r op => expr_toks l /\ expr_toks r /\ Pt op
    | ECall f args => expr_toks f /\ all_list expr_toks args
    | EMatch t v cases =>
        Pt t /\ expr_toks v /\
        all_list (fun c => all_list expr_toks (fst c) /\ stmt_toks (snd c)) cases
    end
  with stmt_toks (s : stmt) : Prop :=
    match s with
    | SBlock t body => Pt t /\ all_list stmt_toks body
    | SPrint t args => Pt t /\ all_list expr_toks args
    | SExpr e => expr_toks e
    | SReturn (Some e) => expr_toks e
    | SReturn None => True
    | SBreak t | SContinue t | SNext t | SExit t => Pt t
    | SIf c b (Some e) => expr_toks c /\ stmt_toks b /\ stmt_toks e
    | SIf c b None => expr_toks c /\ stmt_toks b
    | SWhile c b => expr_toks c /\ stmt_toks b
    | SFor a c p b => expr_toks a /\ expr_toks c /\ expr_toks p /\ stmt_toks b
    | SForIn id ix it b => Pt id /\ all_opt Pt ix /\ expr_toks it /\ stmt_toks b
    end.

  Definition rule_toks (r : rule) : Prop :=
    all_opt expr_toks (rpattern r) /\ stmt_toks (rbody r).
  Definition func_toks (f : func) : Prop :=
    Pt (fident f) /\ stmt_toks (fbody f).
  Definition program_toks (p : program) : Prop :=
    all_list rule_toks (prules p) /\ all_list func_toks (pfuncs p).
End Toks.

Definition any_tok (t : token) : Prop := True.

(* every token of the AST satisfies Pt *)
Definition Forall_tokens_expr (Pt : token -> Prop) := expr_toks Pt any_tok.
Definition Forall_tokens_stmt (Pt : token -> Prop) := stmt_toks Pt any_tok.
Definition Forall_tokens_program (Pt : token -> Prop) := program_toks Pt any_tok.
(* every literal node of the AST satisfies Pl *)
Definition Forall_lits_expr (Pl : token -> Prop) := expr_toks any_tok Pl.
Definition Forall_lits_stmt (Pl : token -> Prop) := stmt_toks any_tok Pl.
Definition Forall_lits_program (Pl : token -> Prop) := program_toks any_tok Pl.
