(* Spec/WfState.v -- the vocabulary of property C01 ("a run never ends in a Go panic").
   DEFINITIONS ONLY.  The proofs are in Proofs/NoPanicHeap.v, Proofs/NoPanic.v and
   Proofs/NoPanicRun.v, the theorems in Props/C01_nopanic.v.

   An evaluator works in a REGION of the heap: the cells with an address from [base] on
   that have been allocated.  For the evaluator of the program, base = 1 (the whole heap);
   the private evaluator of a root selector shares the heap but its region starts at the
   first address that was free when it was created, and it runs the empty program
   (fmax = 0): nothing of the main program, in particular no function value, is reachable
   from it.  [state_ok] says that everything the evaluator can reach stays in its region
   and is well formed there; [wf_expr] / [wf_stmt] / [wf_program] say that every token of
   the AST lies inside the source text and every literal node has a tag that evalExpr
   handles. *)
From Coq Require Import List ZArith PArith.
From JQ Require Import Base.Bytes Syntax.Token Syntax.Lexer Syntax.Ast Syntax.Parser Json.JValue.
From JQ Require Import Gen.Generated Sem.Value Spec.TokSpans.
From JQ Require Sem.Driver.
Import ListNotations.
Open Scope nat_scope.

Section Wf.
  Variable base : positive.   (* first address of the evaluator's region *)
  Variable fmax : nat.        (* number of functions of the program it runs *)

  (* an allocated cell (or backing array, or object) of the region *)
  Definition in_reg (h : heap) (a : addr) : Prop := (base <= a)%positive /\ (a < next h)%positive.

  (* a value the evaluator may hold: the window of a slice lies inside its backing array
     and consists of region cells; the members of an object are region cells; the parent of
     a speculative member and the receiver of a bound method are region cells; a function
     value is an index into the program's function table *)
  Definition val_ok (h : heap) (v : value) : Prop :=
    match v with
    | VArr b off len =>
      in_reg h b /\ off + len <= length (get_back h b) /\ Forall (in_reg h) (arr_cells h b off len)
    | VObj o => in_reg h o /\ Forall (fun kv => in_reg h (snd kv)) (get_obj h o)
    | VNil (Some (p, _)) => in_reg h p
    | VNative _ (Some a) => in_reg h a
    | VFn idx => idx < fmax
    | _ => True
    end.

  Record heap_ok (h : heap) : Prop := {
    hk_cells : forall a, in_reg h a -> val_ok h (load h a);      (* every region cell holds such a value *)
    hk_unalloc : forall a, (next h <= a)%positive -> load h a = VNil None;   (* nothing beyond [next] *)
    hk_next : (base <= next h)%positive
  }.

  Definition locals_ok (h : heap) (f : frame) : Prop :=
    Forall (fun kv => in_reg h (snd kv)) (locals f).

  Record state_ok (s : st) : Prop := {
    sk_heap : heap_ok (hp s);
    sk_frames : frames s <> [];                                  (* e.stackTop is never nil *)
    sk_locals : Forall (locals_ok (hp s)) (frames s);
    sk_rule_root : all_opt (in_reg (hp s)) (rule_root s);
    sk_root : all_opt (in_reg (hp s)) (root s);
    sk_retval : all_opt (in_reg (hp s)) (retval s)
  }.

  (* nothing outside the region is touched *)
  Definition frame_below (h h' : heap) : Prop :=
    (forall a, (a < base)%positive -> load h' a = load h a) /\
    (forall b, (b < base)%positive -> get_back h' b = get_back h b) /\
    (forall o, (o < base)%positive -> get_obj h' o = get_obj h o).

  (* what later heaps keep: allocation only grows, a value that was fine stays fine
     (backing arrays never shrink, windows and objects only ever receive region cells),
     and everything below the region is left alone *)
  Definition hext (h h' : heap) : Prop :=
    (next h <= next h')%positive /\ (forall v, val_ok h v -> val_ok h' v) /\ frame_below h h'.

  (* e.ruleRoot is set: a body-less print has something to print *)
  Definition has_rule_root (s : st) : Prop := rule_root s <> None.

  Definition ext (s s' : st) : Prop :=
    hext (hp s) (hp s') /\ (has_rule_root s -> has_rule_root s').

  (* the specification of a computation started in state [s]: whatever the outcome, the
     final state is well formed and extends [s]; the outcome is not a Go panic; a normal
     result satisfies [R] *)
  Definition np {A} (s : st) (m : M A) (R : A -> st -> Prop) : Prop :=
    forall r s', m s = (r, s') ->
      state_ok s' /\ ext s s' /\ r <> Panic /\ forall a, r = Ok a -> R a s'.
End Wf.

(* ---------------------------------------------------------------- the AST *)

(* every token lies inside [src] (Lexer.GetString cannot panic on it) and every literal
   node carries one of the tags that evalExpr handles *)
Definition wf_expr (src : bytes) : expr -> Prop := expr_toks (tok_in_src src) lit_tag_ok.
Definition wf_stmt (src : bytes) : stmt -> Prop := stmt_toks (tok_in_src src) lit_tag_ok.
Definition wf_func (src : bytes) : func -> Prop := func_toks (tok_in_src src) lit_tag_ok.
Definition wf_rule (src : bytes) (r : rule) : Prop :=
  rule_toks (tok_in_src src) lit_tag_ok r /\
  stmt_token (rbody r) <> None.            (* the body is a block or the body-less print, never `return` *)
Definition wf_program (src : bytes) (p : program) : Prop :=
  all_list (wf_rule src) (prules p) /\ all_list (wf_func src) (pfuncs p).

(* ---------------------------------------------------------------- the endings of a run *)

(* C01: a run completes or stops with exactly one of the three reported error kinds.  OFuel and
   OUnsupp are artefacts of the model (fuel of the interpreter functions, library fragments
   outside the oracles), not behaviours of the code; ORaw (a leaked control signal) and OPanic
   (a Go panic) are the endings that must not exist. *)
Definition documented_ending (o : Driver.outcome) : Prop :=
  match o with
  | Driver.OOk | Driver.OSyntax _ | Driver.ORuntime _ | Driver.OJson => True
  | Driver.OFuel | Driver.OUnsupp => True
  | Driver.ORaw | Driver.OPanic => False
  end.
