(* AST: mirror of src/ast.go. Nodes carry tokens (positions into the source text);
   identifiers and literals are resolved against the source at evaluation time, as in Go. *)
From JQ Require Import Base.Bytes Syntax.Token.

Inductive expr :=
| ELit (t : token)                                   (* ExprLiteral *)
| EId (t : token)                                    (* ExprIdentifier *)
| EArr (t : token) (items : list expr)               (* ExprArray *)
| EObj (t : token) (items : list (bytes * expr))     (* ExprObject: keys are raw token text *)
| EUn (e : expr) (op : token) (postfix : bool)       (* ExprUnary *)
| EBin (l r : expr) (op : token)                     (* ExprBinary *)
| ECall (f : expr) (args : list expr)                (* ExprCall *)
| EMatch (t : token) (v : expr) (cases : list (list expr * stmt))
with stmt :=
| SBlock (t : token) (body : list stmt)
| SPrint (t : token) (args : list expr)
| SExpr (e : expr)
| SReturn (e : option expr)
| SBreak (t : token)
| SContinue (t : token)
| SNext (t : token)
| SExit (t : token)
| SIf (c : expr) (body : stmt) (els : option stmt)
| SWhile (c : expr) (body : stmt)
| SFor (pre c post : expr) (body : stmt)
| SForIn (id : token) (ix : option token) (iter : expr) (body : stmt).

Inductive rule_kind := BeginRule | EndRule | BeginFileRule | EndFileRule | PatternRule.

Record rule := mkRuleR { rkind : rule_kind; rpattern : option expr; rbody : stmt }.
Record func := mkFunc { fident : token; fparams : list bytes; fbody : stmt }.
Record program := mkProg { prules : list rule; pfuncs : list func }.

Definition empty_program : program := mkProg [] [].

(* Node.Token() *)
Fixpoint expr_token (e : expr) : token :=
  match e with
  | ELit t | EId t | EArr t _ | EObj t _ | EMatch t _ _ => t
  | EUn _ op _ => op
  | EBin l _ _ => expr_token l
  | ECall f _ => expr_token f
  end.

(* Statement.Token(); StatementReturn{nil}.Token() dereferences nil in Go: None *)
Definition stmt_token (s : stmt) : option token :=
  match s with
  | SBlock t _ | SPrint t _ | SBreak t | SContinue t | SNext t | SExit t => Some t
  | SExpr e => Some (expr_token e)
  | SReturn (Some e) => Some (expr_token e)
  | SReturn None => None
  | SIf c _ _ | SWhile c _ | SFor _ c _ _ => Some (expr_token c)
  | SForIn id _ _ _ => Some id
  end.

(* A strong induction principle for the nested AST. *)
Section ExprInd.
  Variables (P : expr -> Prop) (Q : stmt -> Prop).
  Hypotheses
    (HLit : forall t, P (ELit t))
    (HId : forall t, P (EId t))
    (HArr : forall t items, Forall P items -> P (EArr t items))
    (HObj : forall t items, Forall (fun kv => P (snd kv)) items -> P (EObj t items))
    (HUn : forall e op pf, P e -> P (EUn e op pf))
    (HBin : forall l r op, P l -> P r -> P (EBin l r op))
    (HCall : forall f args, P f -> Forall P args -> P (ECall f args))
    (HMatch : forall t v cases, P v ->
        Forall (fun c => Forall P (fst c) /\ Q (snd c)) cases -> P (EMatch t v cases))
    (HBlock : forall t body, Forall Q body -> Q (SBlock t body))
    (HPrint : forall t args, Forall P args -> Q (SPrint t args))
    (HExpr : forall e, P e -> Q (SExpr e))
    (HRetS : forall e, P e -> Q (SReturn (Some e)))
    (HRetN : Q (SReturn None))
    (HBreak : forall t, Q (SBreak t))
    (HCont : forall t, Q (SContinue t))
    (HNext : forall t, Q (SNext t))
    (HExit : forall t, Q (SExit t))
    (HIfS : forall c b e, P c -> Q b -> Q e -> Q (SIf c b (Some e)))
    (HIfN : forall c b, P c -> Q b -> Q (SIf c b None))
    (HWhile : forall c b, P c -> Q b -> Q (SWhile c b))
    (HFor : forall a c p b, P a -> P c -> P p -> Q b -> Q (SFor a c p b))
    (HForIn : forall id ix it b, P it -> Q b -> Q (SForIn id ix it b)).

  Fixpoint expr_ind' (e : expr) : P e :=
    match e with
    | ELit t => HLit t
    | EId t => HId t
    | EArr t items =>
        HArr t items ((fix go (l : list expr) : Forall P l :=
          match l with [] => Forall_nil _ | x :: r => Forall_cons _ (expr_ind' x) (go r) end) items)
    | EObj t items =>
        HObj t items ((fix go (l : list (bytes * expr)) : Forall (fun kv => P (snd kv)) l :=
          match l with [] => Forall_nil _ | x :: r => Forall_cons _ (expr_ind' (snd x)) (go r) end) items)
    | EUn e op pf => HUn e op pf (expr_ind' e)
    | EBin l r op => HBin l r op (expr_ind' l) (expr_ind' r)
    | ECall f args =>
        HCall f args (expr_ind' f) ((fix go (l : list expr) : Forall P l :=
          match l with [] => Forall_nil _ | x :: r => Forall_cons _ (expr_ind' x) (go r) end) args)
    | EMatch t v cases =>
        HMatch t v cases (expr_ind' v)
          ((fix go (l : list (list expr * stmt)) : Forall (fun c => Forall P (fst c) /\ Q (snd c)) l :=
            match l with
            | [] => Forall_nil _
            | c :: r =>
              Forall_cons _
                (conj ((fix go2 (l2 : list expr) : Forall P l2 :=
                         match l2 with [] => Forall_nil _ | x :: r2 => Forall_cons _ (expr_ind' x) (go2 r2) end) (fst c))
                      (stmt_ind' (snd c)))
                (go r)
            end) cases)
    end
  with stmt_ind' (s : stmt) : Q s :=
    match s with
    | SBlock t body =>
        HBlock t body ((fix go (l : list stmt) : Forall Q l :=
          match l with [] => Forall_nil _ | x :: r => Forall_cons _ (stmt_ind' x) (go r) end) body)
    | SPrint t args =>
        HPrint t args ((fix go (l : list expr) : Forall P l :=
          match l with [] => Forall_nil _ | x :: r => Forall_cons _ (expr_ind' x) (go r) end) args)
    | SExpr e => HExpr e (expr_ind' e)
    | SReturn (Some e) => HRetS e (expr_ind' e)
    | SReturn None => HRetN
    | SBreak t => HBreak t
    | SContinue t => HCont t
    | SNext t => HNext t
    | SExit t => HExit t
    | SIf c b (Some e) => HIfS c b e (expr_ind' c) (stmt_ind' b) (stmt_ind' e)
    | SIf c b None => HIfN c b (expr_ind' c) (stmt_ind' b)
    | SWhile c b => HWhile c b (expr_ind' c) (stmt_ind' b)
    | SFor a c p b => HFor a c p b (expr_ind' a) (expr_ind' c) (expr_ind' p) (stmt_ind' b)
    | SForIn id ix it b => HForIn id ix it b (expr_ind' it) (stmt_ind' b)
    end.

  Lemma expr_stmt_ind : (forall e, P e) /\ (forall s, Q s).
  Proof. split; [exact expr_ind' | exact stmt_ind']. Qed.
End ExprInd.
