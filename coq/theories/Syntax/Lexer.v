(* Lexer: mirror of src/lexer.go (Lexer.Next, identifier, number, string, Regex,
   skipWhitespace, GetLineAndCol).  The Go lexer is a cursor (pos, tokenStart) over an
   immutable source string; the model keeps the unread suffix next to the cursor so that
   every loop is structural recursion on that suffix. *)
From JQ Require Import Base.Bytes Syntax.Token.
From JQ Require Import Gen.Generated.
Open Scope nat_scope.

Record lexer := mkLexer {
  lrest : bytes;      (* src[pos:] *)
  lpos : nat;         (* Lexer.pos *)
  lstart : nat        (* Lexer.tokenStart *)
}.

Definition new_lexer (src : bytes) : lexer := mkLexer src 0 0.

(* skipWhitespace: ' ', '\r', '\t' and '#' comments up to (not including) '\n' *)
Fixpoint skip_comment (s : bytes) (pos : nat) : bytes * nat :=
  match s with
  | [] => ([], pos)
  | c :: s' => if N.eqb c 10 then (s, pos) else skip_comment s' (S pos)
  end.

Fixpoint skip_ws_fuel (fuel : nat) (s : bytes) (pos : nat) : bytes * nat :=
  match fuel with
  | O => (s, pos)
  | S f =>
    match s with
    | [] => ([], pos)
    | c :: s' =>
      if (N.eqb c 32 || N.eqb c 13 || N.eqb c 9)%bool then skip_ws_fuel f s' (S pos)
      else if N.eqb c 35 then
        let '(s2, p2) := skip_comment s pos in skip_ws_fuel f s2 p2
      else (s, pos)
    end
  end.
(* every iteration either consumes a byte or stops, except that a comment consumes
   at least the '#': length s + 1 steps always suffice *)
Definition skip_ws (s : bytes) (pos : nat) : bytes * nat := skip_ws_fuel (S (length s)) s pos.

(* maximal run of bytes satisfying p *)
Fixpoint take_while (p : byte -> bool) (s : bytes) : bytes * bytes :=
  match s with
  | [] => ([], [])
  | c :: s' => if p c then let '(a, b) := take_while p s' in (c :: a, b) else ([], s)
  end.

Definition ident_char (c : byte) : bool :=
  (N.eqb c 95 || latin1_is_letter c || latin1_is_digit c)%bool.

Fixpoint lookup_kw (kws : list (bytes * tag)) (s : bytes) : option tag :=
  match kws with
  | [] => None
  | (k, t) :: r => if bytes_eqb k s then Some t else lookup_kw r s
  end.

(* Lexer.identifier: [pre] are the bytes already consumed since tokenStart (a '$' or nothing) *)
Definition lex_identifier (pre : bytes) (l : lexer) : token * lexer :=
  let '(run, rest) := take_while ident_char (lrest l) in
  let str := pre ++ run in
  let pos' := lpos l + length run in
  let l' := mkLexer rest pos' (lstart l) in
  match lookup_kw keyword_table str with
  | Some t => (mkTok t (lstart l) 0, l')
  | None => (mkTok TIdent (lstart l) (pos' - lstart l), l')
  end.

(* Lexer.number: digits, then at most one '.' that is followed by a digit *)
Definition lex_number (l : lexer) : token * lexer :=
  let '(d1, r1) := take_while latin1_is_digit (lrest l) in
  let p1 := lpos l + length d1 in
  match r1 with
  | c :: ((c2 :: _) as r2) =>
    if (N.eqb c 46 && latin1_is_digit c2)%bool then
      let '(d2, r3) := take_while latin1_is_digit r2 in
      let p2 := p1 + 1 + length d2 in
      (mkTok TNum (lstart l) (p2 - lstart l), mkLexer r3 p2 (lstart l))
    else (mkTok TNum (lstart l) (p1 - lstart l), mkLexer r1 p1 (lstart l))
  | _ => (mkTok TNum (lstart l) (p1 - lstart l), mkLexer r1 p1 (lstart l))
  end.

(* scan up to (not including) the closing delimiter; None = hit the end of input *)
Fixpoint scan_to (q : byte) (s : bytes) : option (nat * bytes) :=
  match s with
  | [] => None
  | c :: s' =>
    if N.eqb c q then Some (0, s')
    else match scan_to q s' with
         | Some (n, r) => Some (S n, r)
         | None => None
         end
  end.

Inductive lex_result :=
| LexTok (t : token) (l : lexer)
| LexErr (pos : nat) (l : lexer).     (* SyntaxError located at byte offset pos *)

(* Lexer.string(quoteChar): called with pos just after the opening quote *)
Definition lex_string (q : byte) (l : lexer) : lex_result :=
  match scan_to q (lrest l) with
  | None => LexErr (lstart l) (mkLexer [] (lpos l + length (lrest l)) (lstart l))   (* at the opening quote *)
  | Some (n, rest) =>
    let start' := S (lstart l) in
    let pos' := lpos l + n + 1 in
    LexTok (mkTok TStr start' (pos' - start' - 1)) (mkLexer rest pos' start')
  end.

(* Lexer.Regex(): the parser calls this when it finds '/' in prefix position *)
Definition lex_regex (l : lexer) : lex_result :=
  match scan_to 47%N (lrest l) with
  | None => LexErr (lstart l) (mkLexer [] (lpos l + length (lrest l)) (lstart l))
  | Some (n, rest) =>
    let start' := S (lstart l) in
    let pos' := lpos l + n + 1 in
    LexTok (mkTok TRegex start' (pos' - start' - 1)) (mkLexer rest pos' start')
  end.

Definition simple (t : tag) (start : nat) : token := mkTok t start 0.

(* one- and two-character operators: [op1_table] maps a first byte to its single
   token, [op2_table] maps (first, second) to the two-byte token.  Both tables are
   regenerated from the switch in Lexer.Next. *)
Fixpoint lookup_op2 (tbl : list (byte * byte * tag)) (c d : byte) : option tag :=
  match tbl with
  | [] => None
  | (a, b, t) :: r => if (N.eqb a c && N.eqb b d)%bool then Some t else lookup_op2 r c d
  end.
Fixpoint lookup_op1 (tbl : list (byte * tag)) (c : byte) : option tag :=
  match tbl with
  | [] => None
  | (a, t) :: r => if N.eqb a c then Some t else lookup_op1 r c
  end.

(* Lexer.Next *)
Definition lex_next (l0 : lexer) : lex_result :=
  let '(s, pos) := skip_ws (lrest l0) (lpos l0) in
  match s with
  | [] => LexTok (simple TEOF pos) (mkLexer [] pos pos)        (* tokenStart = pos: the end of the text *)
  | c :: s' =>
    let l := mkLexer s pos pos in               (* tokenStart = pos *)
    if N.eqb c 10 then LexTok (simple TNewline pos) (mkLexer s' (S pos) pos)
    else if N.eqb c 36 then
      let '(t, l') := lex_identifier [36%N] (mkLexer s' (S pos) pos) in LexTok t l'
    else if latin1_is_digit c then
      let '(t, l') := lex_number l in LexTok t l'
    else if (latin1_is_letter c || N.eqb c 95)%bool then
      let '(t, l') := lex_identifier [] l in LexTok t l'
    else
      let l1 := mkLexer s' (S pos) pos in        (* l.advance() *)
      let two :=
        match s' with
        | d :: s'' =>
          match lookup_op2 op2_table c d with
          | Some t => Some (LexTok (simple t pos) (mkLexer s'' (S (S pos)) pos))
          | None => None
          end
        | [] => None
        end in
      match two with
      | Some r => r
      | None =>
        match lookup_op1 op1_table c with
        | Some t => LexTok (simple t pos) l1
        | None =>
          if existsb (N.eqb c) quote_chars then lex_string c l1
          else LexErr pos l1                     (* l.pos-1 *)
        end
      end
  end.

(* all tokens up to and including EOF or the first error (harness: LEX) *)
Fixpoint lex_all_fuel (fuel : nat) (l : lexer) : list token * option nat :=
  match fuel with
  | O => ([], None)
  | S f =>
    match lex_next l with
    | LexErr p l' => ([mkTok TError (lstart l') 0], Some p)
    | LexTok t l' =>
      match ttag t with
      | TEOF => ([t], None)
      | _ => let '(ts, e) := lex_all_fuel f l' in (t :: ts, e)
      end
    end
  end.
Definition lex_all (src : bytes) : list token * option nat :=
  lex_all_fuel (S (S (length src))) (new_lexer src).

(* Lexer.GetLineAndCol(pos) -> (source line, 1-based line, column).  Byte scan.
   Columns are Go ints: pos - lineStart can be -1 (position on a newline). *)
Fixpoint line_col_scan (s : bytes) (i : nat) (pos : nat)
         (line : nat) (col : Z) (line_start : nat) (in_line : bool) (cur : bytes)
  : bytes * nat * Z :=
  (* cur = bytes of the current line seen so far, reversed *)
  match s with
  | [] =>
    (* the end of the text is just past the last byte of the last line *)
    if (negb in_line && Nat.leb i pos)%bool then (rev cur, line, (Z.of_nat i - Z.of_nat line_start)%Z)
    else (rev cur, line, col)
  | c :: s' =>
    (* the position test comes first: a newline byte belongs to the line it ends *)
    let hit := Nat.eqb i pos in
    let in_line' := (in_line || hit)%bool in
    let col' := if hit then (Z.of_nat i - Z.of_nat line_start)%Z else col in
    if N.eqb c 10 then
      if in_line' then (rev cur, line, col')
      else line_col_scan s' (S i) pos (S line) col' (S i) false []
    else line_col_scan s' (S i) pos line col' line_start in_line' (c :: cur)
  end.

Definition get_line_col (src : bytes) (pos : nat) : bytes * nat * Z :=
  line_col_scan src 0 pos 1 1%Z 0 false [].
