(* Parser: mirror of src/parser.go -- a Pratt parser driven by the generated rule table.
   Every Go function becomes a function on an explicit parser state; recursion is on fuel.
   A syntax error is the byte offset it is reported at (line/col/source line follow from
   Lexer.get_line_col); a lexer error is reported at its own offset (Parser.lexErr). *)
From JQ Require Import Base.Bytes Syntax.Token Syntax.Lexer Syntax.Ast.
From JQ Require Import Gen.Generated.
Open Scope nat_scope.

Record pstate := mkP {
  psrc : bytes;
  plex : lexer;
  pcur : token;         (* p.current *)
  pprev : token;        (* p.previous *)
  pend : bool;          (* p.didEndStatement *)
  pinfn : bool;         (* p.inFunction *)
  pinloop : bool        (* p.inLoop *)
}.

Inductive pres (A : Type) :=
| POk (a : A) (p : pstate)
| PErr (pos : nat)       (* SyntaxError at this byte offset *)
| PFuel                  (* out of fuel: not a behaviour of the code *)
| PPanic.                (* a Go panic site *)
Arguments POk {A}. Arguments PErr {A}. Arguments PFuel {A}. Arguments PPanic {A}.

Definition P (A : Type) := pstate -> pres A.
Definition pret {A} (a : A) : P A := fun p => POk a p.
Definition pbind {A B} (m : P A) (k : A -> P B) : P B :=
  fun p => match m p with
           | POk a p' => k a p'
           | PErr pos => PErr pos
           | PFuel => PFuel
           | PPanic => PPanic
           end.
Notation "'do' x <- m ; k" := (pbind m (fun x => k)) (at level 200, x name, m at level 100, k at level 200).
Notation "'do' ' pat <- m ; k" := (pbind m (fun x => match x with pat => k end))
  (at level 200, pat pattern, m at level 100, k at level 200).
Notation "m ;; k" := (pbind m (fun _ => k)) (at level 199, right associativity).

Definition perr {A} (pos : nat) : P A := fun _ => PErr pos.
Definition pget : P pstate := fun p => POk p p.
Definition pcurtag : P tag := fun p => POk (ttag (pcur p)) p.
Definition perr_cur {A} : P A := fun p => PErr (tpos (pcur p)).   (* p.error(p.current.Pos, ...) *)

Definition new_parser (src : bytes) : pstate :=
  mkP src (new_lexer src) zero_token zero_token false false false.

(* Parser.rule *)
Fixpoint lookup_rule (tbl : list (tag * parse_rule)) (t : tag) : parse_rule :=
  match tbl with
  | [] => mkRule PrecNone PfNone IfNone
  | (t', r) :: rest => if tag_eqb t' t then r else lookup_rule rest t
  end.
Definition rule_of (t : tag) : parse_rule := lookup_rule rule_table t.
Definition prec_of (t : tag) : nat := prec_index (rprec (rule_of t)).

(* Parser.advance: newline tokens are skipped and set didEndStatement *)
Fixpoint next_non_newline (fuel : nat) (l : lexer) (saw : bool) : lex_result * bool :=
  match fuel with
  | O => (LexErr 0 l, saw)       (* unreachable: each newline token consumes a byte *)
  | S f =>
    match lex_next l with
    | LexErr pos l' => (LexErr pos l', saw)
    | LexTok t l' =>
      match ttag t with
      | TNewline => next_non_newline f l' true
      | _ => (LexTok t l', saw)
      end
    end
  end.

Definition advance : P token := fun p =>
  match next_non_newline (S (length (lrest (plex p)))) (plex p) false with
  | (LexErr pos _, _) => PErr pos
  | (LexTok t l', saw) =>
    POk t (mkP (psrc p) l' t (pcur p) saw (pinfn p) (pinloop p))
  end.

Fixpoint tag_in (t : tag) (ts : list tag) : bool :=
  match ts with [] => false | x :: r => tag_eqb x t || tag_in t r end.

(* Parser.consume(tags...) *)
Definition consume (ts : list tag) : P unit := fun p =>
  if tag_in (ttag (pcur p)) ts then (advance ;; pret tt) p else PErr (tpos (pcur p)).
(* a consume whose result the Go code ignores: a tag mismatch is a no-op
   (a lexer error is still fatal, through Parser.lexErr) *)
Definition consume_ignored (t : tag) : P unit := fun p =>
  if tag_eqb (ttag (pcur p)) t then (advance ;; pret tt) p else POk tt p.

Definition set_end (b : bool) : P unit := fun p =>
  POk tt (mkP (psrc p) (plex p) (pcur p) (pprev p) b (pinfn p) (pinloop p)).
Definition set_inloop (b : bool) : P unit := fun p =>
  POk tt (mkP (psrc p) (plex p) (pcur p) (pprev p) (pend p) (pinfn p) b).
Definition set_infn (b : bool) : P unit := fun p =>
  POk tt (mkP (psrc p) (plex p) (pcur p) (pprev p) (pend p) b (pinloop p)).
Definition set_cur (t : token) : P unit := fun p =>
  POk tt (mkP (psrc p) (plex p) t (pprev p) (pend p) (pinfn p) (pinloop p)).
Definition pprevtok : P token := fun p => POk (pprev p) p.
Definition pcurtok : P token := fun p => POk (pcur p) p.

(* Parser.atStatementEnd (has a side effect: it consumes a ';') *)
Definition at_statement_end : P bool := fun p =>
  if pend p then POk true p
  else match ttag (pcur p) with
       | TRCurly => POk true p
       | TSemiColon => (consume_ignored TSemiColon ;; set_end true ;; pret true) p
       | _ => POk false p
       end.

Definition prev_string : P bytes := fun p =>
  match get_string (psrc p) (pprev p) with
  | Some s => POk s p
  | None => PPanic
  end.

(* the regex prefix rule: Lexer.Regex() continues from just after the '/' *)
Definition lex_regex_tok : P token := fun p =>
  match lex_regex (plex p) with
  | LexErr pos _ => PErr pos
  | LexTok t l' =>
    match ttag t with
    | TRegex => POk t (mkP (psrc p) l' (pcur p) (pprev p) (pend p) (pinfn p) (pinloop p))
    | _ => PPanic
    end
  end.

(* rewriteCompundAssingment: a op= b  ->  a = a op b *)
Definition compound_base (t : tag) : option tag :=
  match t with
  | TPlusEqual => Some TPlus
  | TMinusEqual => Some TMinus
  | TMultiplyEqual => Some TMultiply
  | TDivideEqual => Some TDivide
  | _ => None
  end.

Definition rewrite_compound (left right : expr) (op : token) (base : tag) : expr :=
  EBin left (EBin left right (mkTok base (tpos op) (tlen op))) (mkTok TEqual (tpos op) 0).

(* the target check of assign() *)
Definition assignable (left : expr) : bool :=
  match left with
  | ELit _ | EArr _ _ | EObj _ _ => false
  | EBin _ _ op => match ttag op with TDot | TLSquare => true | _ => false end
  | _ => true
  end.

Definition is_eid (e : expr) : option token :=
  match e with EId t => Some t | _ => None end.

Fixpoint parse_expr_prec (n : nat) (prec : nat) {struct n} : P expr :=
  match n with
  | O => fun _ => PFuel
  | S f =>
    do cur <- pcurtok;
    do lhs <-
      match rprefix (rule_of (ttag cur)) with
      | PfNone => perr_cur
      | PfLiteral => advance ;; do t <- pprevtok; pret (ELit t)
      | PfIdentifier =>
        match ttag cur with
        | TDollar | TIdent => advance ;; do t <- pprevtok; pret (EId t)
        | _ => perr_cur
        end
      | PfArray =>
        consume [TLSquare] ;;
        do t <- pprevtok;
        do items <- parse_expr_list f TRSquare [];
        pret (EArr t items)
      | PfGroup =>
        consume [TLParen] ;;
        do e <- parse_expr_prec f (prec_index PrecAssign);
        consume [TRParen] ;;
        pret e
      | PfUnary =>
        advance ;;
        do op <- pprevtok;
        do e <- parse_expr_prec f (prec_index PrecUnary);
        pret (EUn e op false)
      | PfRegex =>
        do t <- lex_regex_tok;
        set_cur t ;;
        advance ;;
        pret (ELit t)
      | PfMatch => parse_match f
      | PfObject =>
        consume [TLCurly] ;;
        do t <- pprevtok;
        do items <- parse_object_items f [];
        consume [TRCurly] ;;
        pret (EObj t items)
      end;
    parse_infix_loop f prec lhs
  end

(* for prec <= p.rule(p.current.Tag).prec { lhs = infix(p, lhs) } *)
with parse_infix_loop (n : nat) (prec : nat) (lhs : expr) {struct n} : P expr :=
  match n with
  | O => fun _ => PFuel
  | S f =>
    do cur <- pcurtok;
    let r := rule_of (ttag cur) in
    if Nat.leb prec (prec_index (rprec r)) then
      do lhs' <-
        match rinfix r with
        | IfNone => perr_cur
        | IfComputedMember =>
          consume [TLSquare] ;;
          do e <- parse_expr_prec f (prec_index PrecAssign);
          consume [TRSquare] ;;
          pret (EBin lhs e cur)
        | IfMember =>
          consume [TDot] ;;
          do op <- pprevtok;
          consume [TIdent] ;;
          do id <- pprevtok;
          pret (EBin lhs (ELit id) op)
        | IfCall =>
          consume [TLParen] ;;
          do args <- parse_expr_list f TRParen [];
          pret (ECall lhs args)
        | IfBinary =>
          advance ;;
          do op <- pprevtok;
          let p0 := prec_of (ttag op) in
          let p1 := if Nat.eqb p0 (prec_index PrecAssign) then p0 else S p0 in
          do e <- parse_expr_prec f p1;
          match compound_base (ttag op) with
          | Some base => pret (rewrite_compound lhs e op base)
          | None => pret (EBin lhs e op)
          end
        | IfAssign =>
          if assignable lhs then
            advance ;;
            do op <- pprevtok;
            do e <- parse_expr_prec f (prec_of (ttag op));
            match compound_base (ttag op) with
            | Some base => pret (rewrite_compound lhs e op base)
            | None => pret (EBin lhs e op)
            end
          else perr (tpos (expr_token lhs))
        | IfPostfix =>
          advance ;;
          do op <- pprevtok;
          pret (EUn lhs op true)
        | IfIs =>
          consume [TIs] ;;
          do op <- pprevtok;
          consume [TIdent; TFunction; TNull] ;;
          do rhs <- pprevtok;
          pret (EBin lhs (EId rhs) op)
        end;
      parse_infix_loop f prec lhs'
    else pret lhs
  end

(* Parser.evalExprList(endToken); acc is reversed *)
with parse_expr_list (n : nat) (endt : tag) (acc : list expr) {struct n} : P (list expr) :=
  match n with
  | O => fun _ => PFuel
  | S f =>
    do t <- pcurtag;
    if (tag_eqb t TEOF || tag_eqb t endt)%bool then consume [endt] ;; pret (rev acc)
    else
      do e <- parse_expr_prec f (prec_index PrecAssign);
      do t2 <- pcurtag;
      if tag_eqb t2 TComma then consume_ignored TComma ;; parse_expr_list f endt (e :: acc)
      else consume [endt] ;; pret (rev (e :: acc))
  end

with parse_object_items (n : nat) (acc : list (bytes * expr)) {struct n} : P (list (bytes * expr)) :=
  match n with
  | O => fun _ => PFuel
  | S f =>
    do t <- pcurtag;
    if (tag_eqb t TRCurly || tag_eqb t TEOF)%bool then pret (rev acc)
    else
      consume [TStr; TIdent] ;;
      do key <- prev_string;
      consume [TColon] ;;
      do v <- parse_expr_prec f (prec_index PrecAssign);
      do t2 <- pcurtag;
      (if tag_eqb t2 TComma then consume [TComma] else pret tt) ;;
      parse_object_items f ((key, v) :: acc)
  end

with parse_match (n : nat) {struct n} : P expr :=
  match n with
  | O => fun _ => PFuel
  | S f =>
    consume [TMatch] ;;
    do t <- pprevtok;
    consume [TLParen] ;;
    do v <- parse_expr_prec f (prec_index PrecAssign);
    consume [TRParen] ;;
    consume [TLCurly] ;;
    do cases <- parse_match_cases f [];
    consume [TRCurly] ;;
    set_end true ;;
    pret (EMatch t v cases)
  end

with parse_match_cases (n : nat) (acc : list (list expr * stmt)) {struct n}
  : P (list (list expr * stmt)) :=
  match n with
  | O => fun _ => PFuel
  | S f =>
    do t <- pcurtag;
    if (tag_eqb t TRCurly || tag_eqb t TEOF)%bool then pret (rev acc)
    else
      do pats <- parse_match_pats f [];
      consume [TArrow] ;;
      do t2 <- pcurtag;
      do body <-
        (if tag_eqb t2 TLCurly then parse_statement f
         else do e <- parse_expr_prec f (prec_index PrecAssign); pret (SExpr e));
      do t3 <- pcurtag;
      (if tag_eqb t3 TComma then advance ;; pret tt else pret tt) ;;
      parse_match_cases f ((pats, body) :: acc)
  end

(* for !p.atEnd() { caseExpr; if current != Comma break; consume(Comma) } *)
with parse_match_pats (n : nat) (acc : list expr) {struct n} : P (list expr) :=
  match n with
  | O => fun _ => PFuel
  | S f =>
    do t <- pcurtag;
    if tag_eqb t TEOF then pret (rev acc)
    else
      do e <- parse_expr_prec f (prec_index PrecAssign);
      do t2 <- pcurtag;
      if tag_eqb t2 TComma then consume_ignored TComma ;; parse_match_pats f (e :: acc)
      else pret (rev (e :: acc))
  end

(* Parser.statement *)
with parse_statement (n : nat) {struct n} : P stmt :=
  match n with
  | O => fun _ => PFuel
  | S f =>
    set_end false ;;
    do cur <- pcurtok;
    do st <- pget;
    match ttag cur with
    | TPrint =>
      consume [TPrint] ;;
      do start <- pprevtok;
      do args <- parse_print_args f [];
      do e <- at_statement_end;
      (if e then set_end true else pret tt) ;;
      pret (SPrint start args)
    | TReturn =>
      if pinfn st then
        consume [TReturn] ;;
        do e <- at_statement_end;
        if e then set_end true ;; pret (SReturn None)
        else do x <- parse_expr_prec f (prec_index PrecAssign); pret (SReturn (Some x))
      else perr_cur
    | TIf =>
      consume [TIf] ;;
      consume [TLParen] ;;
      do c <- parse_expr_prec f (prec_index PrecAssign);
      consume [TRParen] ;;
      do body <- parse_statement f;
      do t2 <- pcurtag;
      if tag_eqb t2 TElse then
        consume [TElse] ;;
        do els <- parse_statement f;
        pret (SIf c body (Some els))
      else pret (SIf c body None)
    | TWhile =>
      consume [TWhile] ;;
      consume [TLParen] ;;
      do c <- parse_expr_prec f (prec_index PrecAssign);
      consume [TRParen] ;;
      do body <- parse_loop_body f;
      pret (SWhile c body)
    | TFor =>
      consume [TFor] ;;
      consume [TLParen] ;;
      do pre <- parse_expr_prec f (prec_index PrecAssign);
      do t2 <- pcurtag;
      match is_eid pre with
      | Some id =>
        if (tag_eqb t2 TIn || tag_eqb t2 TComma)%bool then
          do ix <-
            (if tag_eqb t2 TComma then
               consume_ignored TComma ;;
               consume [TIdent] ;;
               do t <- pprevtok; pret (Some t)
             else pret None);
          consume_ignored TIn ;;
          do it <- parse_expr_prec f (prec_index PrecAssign);
          consume [TRParen] ;;
          do body <- parse_loop_body f;
          pret (SForIn id ix it body)
        else parse_for_rest f pre
      | None => parse_for_rest f pre
      end
    | TLCurly => parse_block f
    | TBreak =>
      if pinloop st then consume_ignored TBreak ;; do t <- pprevtok; pret (SBreak t)
      else perr_cur
    | TContinue =>
      if pinloop st then consume_ignored TContinue ;; do t <- pprevtok; pret (SContinue t)
      else perr_cur
    | TNext => consume_ignored TNext ;; do t <- pprevtok; pret (SNext t)
    | TExit => consume_ignored TExit ;; do t <- pprevtok; pret (SExit t)
    | _ => do e <- parse_expr_prec f (prec_index PrecAssign); pret (SExpr e)
    end
  end

(* the tail of a three-clause for: ; cond ; post ) body *)
with parse_for_rest (n : nat) (pre : expr) {struct n} : P stmt :=
  match n with
  | O => fun _ => PFuel
  | S f =>
    consume [TSemiColon] ;;
    do c <- parse_expr_prec f (prec_index PrecAssign);
    consume [TSemiColon] ;;
    do post <- parse_expr_prec f (prec_index PrecAssign);
    consume [TRParen] ;;
    do body <- parse_loop_body f;
    pret (SFor pre c post body)
  end

(* Parser.loopBody: break/continue are accepted only inside the body *)
with parse_loop_body (n : nat) {struct n} : P stmt :=
  match n with
  | O => fun _ => PFuel
  | S f =>
    do st <- pget;
    set_inloop true ;;
    do body <- parse_statement f;
    set_inloop (pinloop st) ;;
    pret body
  end

(* the argument loop of printStatement *)
with parse_print_args (n : nat) (acc : list expr) {struct n} : P (list expr) :=
  match n with
  | O => fun _ => PFuel
  | S f =>
    do e <- at_statement_end;
    if e then pret (rev acc)
    else
      do x <- parse_expr_prec f (prec_index PrecAssign);
      do t <- pcurtag;
      if tag_eqb t TComma then consume_ignored TComma ;; parse_print_args f (x :: acc)
      else pret (rev (x :: acc))
  end

(* Parser.block *)
with parse_block (n : nat) {struct n} : P stmt :=
  match n with
  | O => fun _ => PFuel
  | S f =>
    consume [TLCurly] ;;
    do start <- pprevtok;
    do body <- parse_block_items f [];
    consume [TRCurly] ;;
    set_end true ;;
    pret (SBlock start body)
  end

with parse_block_items (n : nat) (acc : list stmt) {struct n} : P (list stmt) :=
  match n with
  | O => fun _ => PFuel
  | S f =>
    do t <- pcurtag;
    if (tag_eqb t TEOF || tag_eqb t TRCurly)%bool then pret (rev acc)
    else
      do s <- parse_statement f;
      do e <- at_statement_end;
      if e then parse_block_items f (s :: acc) else perr_cur
  end.

Definition parse_expression (n : nat) : P expr := parse_expr_prec n (prec_index PrecAssign).

(* Parser.parseRule *)
Definition parse_rule_ (n : nat) : P rule :=
  do t <- pcurtag;
  do '(kind, pat) <-
    match t with
    | TBegin => consume [TBegin] ;; pret (BeginRule, None)
    | TEnd => consume [TEnd] ;; pret (EndRule, None)
    | TBeginFile => consume [TBeginFile] ;; pret (BeginFileRule, None)
    | TEndFile => consume [TEndFile] ;; pret (EndFileRule, None)
    | TLCurly => pret (PatternRule, None)
    | _ => do e <- parse_expression n; pret (PatternRule, Some e)
    end;
  do t2 <- pcurtag;
  if tag_eqb t2 TLCurly then
    do body <- parse_block n; pret (mkRuleR kind pat body)
  else pret (mkRuleR kind pat (SPrint zero_token [])).

Fixpoint parse_params (n : nat) (acc : list bytes) {struct n} : P (list bytes) :=
  match n with
  | O => fun _ => PFuel
  | S f =>
    do t <- pcurtag;
    if (tag_eqb t TEOF || tag_eqb t TRParen)%bool then pret (rev acc)
    else
      consume [TIdent] ;;
      do s <- prev_string;
      do t2 <- pcurtag;
      (if tag_eqb t2 TComma then consume_ignored TComma else pret tt) ;;
      parse_params f (s :: acc)
  end.

(* Parser.parseFunction *)
Definition parse_function (n : nat) : P func :=
  do st <- pget;
  set_infn true ;;
  consume [TFunction] ;;
  consume [TIdent] ;;
  do id <- pprevtok;
  consume [TLParen] ;;
  do params <- parse_params n [];
  consume [TRParen] ;;
  do body <- parse_block n;
  set_infn (pinfn st) ;;
  pret (mkFunc id params body).

Fixpoint parse_toplevel (n : nat) (rules : list rule) (fns : list func) {struct n} : P program :=
  match n with
  | O => fun _ => PFuel
  | S f =>
    do t <- pcurtag;
    if tag_eqb t TEOF then pret (mkProg (rev rules) (rev fns))
    else if tag_eqb t TFunction then
      do fn <- parse_function f; parse_toplevel f rules (fn :: fns)
    else
      do r <- parse_rule_ f; parse_toplevel f (r :: rules) fns
  end.

(* Parser.Parse / Parser.ParseExpression *)
Definition parse_program_fuel (n : nat) (src : bytes) : pres program :=
  (advance ;; parse_toplevel n [] []) (new_parser src).

Definition parse_expression_fuel (n : nat) (src : bytes) : pres expr :=
  (advance ;; do e <- parse_expression n; consume [TEOF] ;; pret e) (new_parser src).

(* every token costs at most a bounded number of fuel units; this is generous *)
Definition parse_fuel (src : bytes) : nat := 20 * (length src) + 100.
Definition parse_program (src : bytes) : pres program := parse_program_fuel (parse_fuel src) src.
Definition parse_expression_src (src : bytes) : pres expr := parse_expression_fuel (parse_fuel src) src.
