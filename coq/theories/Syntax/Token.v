(* Tokens of jqawk: mirror of the TokenTag enumeration and Token struct in src/lexer.go. *)
From JQ Require Import Base.Bytes.

Inductive tag :=
| TEOF | TError | TIdent | TStr | TRegex | TNum | TBegin | TEnd | TBeginFile | TEndFile
| TPrint | TFunction | TReturn | TIf | TElse | TFor | TWhile | TIn | TMatch | TBreak
| TContinue | TNext | TNewline | TExit | TNull | TIs | TTrue | TFalse
| TLCurly | TRCurly | TLSquare | TRSquare | TLParen | TRParen | TLessThan | TGreaterThan
| TDollar | TComma | TDot | TEqual | TEqualEqual | TBangEqual | TLessEqual | TGreaterEqual
| TColon | TSemiColon | TPlus | TMinus | TMultiply | TDivide | TPlusEqual | TMinusEqual
| TMultiplyEqual | TDivideEqual | TTilde | TBangTilde | TAmpAmp | TPipePipe | TArrow
| TBang | TPlusPlus | TMinusMinus | TPercent.

Definition all_tags : list tag :=
  [TEOF; TError; TIdent; TStr; TRegex; TNum; TBegin; TEnd; TBeginFile; TEndFile;
   TPrint; TFunction; TReturn; TIf; TElse; TFor; TWhile; TIn; TMatch; TBreak;
   TContinue; TNext; TNewline; TExit; TNull; TIs; TTrue; TFalse;
   TLCurly; TRCurly; TLSquare; TRSquare; TLParen; TRParen; TLessThan; TGreaterThan;
   TDollar; TComma; TDot; TEqual; TEqualEqual; TBangEqual; TLessEqual; TGreaterEqual;
   TColon; TSemiColon; TPlus; TMinus; TMultiply; TDivide; TPlusEqual; TMinusEqual;
   TMultiplyEqual; TDivideEqual; TTilde; TBangTilde; TAmpAmp; TPipePipe; TArrow;
   TBang; TPlusPlus; TMinusMinus; TPercent].

(* position in the Go iota enumeration *)
Definition tag_index (t : tag) : nat :=
  match t with
  | TEOF => 0 | TError => 1 | TIdent => 2 | TStr => 3 | TRegex => 4 | TNum => 5
  | TBegin => 6 | TEnd => 7 | TBeginFile => 8 | TEndFile => 9 | TPrint => 10
  | TFunction => 11 | TReturn => 12 | TIf => 13 | TElse => 14 | TFor => 15
  | TWhile => 16 | TIn => 17 | TMatch => 18 | TBreak => 19 | TContinue => 20
  | TNext => 21 | TNewline => 22 | TExit => 23 | TNull => 24 | TIs => 25
  | TTrue => 26 | TFalse => 27 | TLCurly => 28 | TRCurly => 29 | TLSquare => 30
  | TRSquare => 31 | TLParen => 32 | TRParen => 33 | TLessThan => 34
  | TGreaterThan => 35 | TDollar => 36 | TComma => 37 | TDot => 38 | TEqual => 39
  | TEqualEqual => 40 | TBangEqual => 41 | TLessEqual => 42 | TGreaterEqual => 43
  | TColon => 44 | TSemiColon => 45 | TPlus => 46 | TMinus => 47 | TMultiply => 48
  | TDivide => 49 | TPlusEqual => 50 | TMinusEqual => 51 | TMultiplyEqual => 52
  | TDivideEqual => 53 | TTilde => 54 | TBangTilde => 55 | TAmpAmp => 56
  | TPipePipe => 57 | TArrow => 58 | TBang => 59 | TPlusPlus => 60
  | TMinusMinus => 61 | TPercent => 62
  end%nat.

Definition tag_eqb (a b : tag) : bool := Nat.eqb (tag_index a) (tag_index b).

Lemma tag_index_inj : forall a b, tag_index a = tag_index b -> a = b.
Proof. destruct a; destruct b; simpl; intro H; try reflexivity; discriminate H. Qed.

Lemma tag_eqb_eq : forall a b, tag_eqb a b = true <-> a = b.
Proof.
  intros a b. unfold tag_eqb. rewrite Nat.eqb_eq. split.
  - apply tag_index_inj.
  - intros ->. reflexivity.
Qed.

Lemma tag_eqb_refl : forall a, tag_eqb a a = true.
Proof. intro a. apply tag_eqb_eq. reflexivity. Qed.

Lemma tag_eq_dec : forall a b : tag, {a = b} + {a <> b}.
Proof. decide equality. Defined.

(* Token{Tag, Pos, Len} *)
Record token := mkTok { ttag : tag; tpos : nat; tlen : nat }.

Definition zero_token : token := mkTok TEOF 0 0.

(* Lexer.GetString: src[Pos : Pos+Len]; Go panics when the slice is out of range,
   so the model returns None there (a Panic site for its callers). *)
Definition get_string (src : bytes) (t : token) : option bytes :=
  if Nat.leb (tpos t + tlen t) (length src) then Some (slice src (tpos t) (tlen t)) else None.

(* Pratt parser vocabulary (src/parser.go): precedence levels and the names of the
   prefix / infix parse functions that the rule table refers to. *)
Inductive prec :=
| PrecNone | PrecAssign | PrecLogical | PrecComparison | PrecAddition
| PrecMultiplication | PrecPostfix | PrecUnary | PrecCall | PrecGroup.

Definition prec_index (p : prec) : nat :=
  match p with
  | PrecNone => 0 | PrecAssign => 1 | PrecLogical => 2 | PrecComparison => 3
  | PrecAddition => 4 | PrecMultiplication => 5 | PrecPostfix => 6 | PrecUnary => 7
  | PrecCall => 8 | PrecGroup => 9
  end%nat.

Inductive prefix_fn :=
| PfNone | PfLiteral | PfIdentifier | PfArray | PfGroup | PfUnary | PfRegex | PfMatch | PfObject.

Inductive infix_fn :=
| IfNone | IfComputedMember | IfMember | IfCall | IfBinary | IfAssign | IfPostfix | IfIs.

Record parse_rule := mkRule { rprec : prec; rprefix : prefix_fn; rinfix : infix_fn }.
