module gen

go 1.22.0
