// gen: translator from /repo/src/*.go to coq/theories/Gen/Generated.v.
//
// It transcribes the *tables* of the implementation - enumerations, the keyword and
// operator switches of the lexer, the Pratt rule table of the parser, the resource
// limits, the tag sets of isTruthy/copyValue, the prototype method names - into Gallina
// definitions that the model is built on (or is checked equal to in Gen/GenCheck.v).
// A source shape it does not recognise is an error (exit 3), never silently skipped.
//
// Only the Go standard library is used.
package main

import (
	"encoding/json"
	"fmt"
	"go/ast"
	"go/parser"
	"go/token"
	"os"
	"path/filepath"
	"regexp"
	"sort"
	"strconv"
	"strings"
)

var refText string // the reference Generated.v (tables of the pinned tree), "" when not given

var fset = token.NewFileSet()
var files = map[string]*ast.File{}

// genErr: the source no longer has the shape an extractor recognises.  Inside a section of
// main this is recorded and the section falls back to the reference table (see section).
type genErr string

func die(format string, args ...any) {
	panic(genErr(fmt.Sprintf(format, args...)))
}

func fatal(format string, args ...any) {
	fmt.Fprintf(os.Stderr, "gen: "+format+"\n", args...)
	os.Exit(3)
}

// refDefinition returns the text of `Definition <name> ...` in the reference Generated.v: from its
// first line to the first line that ends the sentence (a final `.`, possibly followed by a comment).
func refDefinition(ref, name string) (string, bool) {
	lines := strings.Split(ref, "\n")
	for i, l := range lines {
		if !strings.HasPrefix(l, "Definition "+name+" ") {
			continue
		}
		var b strings.Builder
		for j := i; j < len(lines); j++ {
			b.WriteString(lines[j])
			b.WriteString("\n")
			t := lines[j]
			if k := strings.Index(t, "(*"); k >= 0 {
				t = t[:k]
			}
			if strings.HasSuffix(strings.TrimSpace(t), ".") {
				return b.String(), true
			}
		}
	}
	return "", false
}

func load(dir string) {
	matches, _ := filepath.Glob(filepath.Join(dir, "*.go"))
	for _, m := range matches {
		f, err := parser.ParseFile(fset, m, nil, 0)
		if err != nil {
			fatal("cannot parse %s: %v", m, err)
		}
		files[filepath.Base(m)] = f
	}
}

func funcDecl(file, recv, name string) *ast.FuncDecl {
	f := files[file]
	if f == nil {
		die("no file %s", file)
	}
	for _, d := range f.Decls {
		fd, ok := d.(*ast.FuncDecl)
		if !ok || fd.Name.Name != name {
			continue
		}
		if recv == "" && fd.Recv == nil {
			return fd
		}
		if recv != "" && fd.Recv != nil && len(fd.Recv.List) == 1 {
			t := fd.Recv.List[0].Type
			if s, ok := t.(*ast.StarExpr); ok {
				t = s.X
			}
			if id, ok := t.(*ast.Ident); ok && id.Name == recv {
				return fd
			}
		}
	}
	die("function %s.%s not found in %s", recv, name, file)
	return nil
}

// iotaEnum returns the names of `const ( A T = iota; B; ... )` for type typ.
func iotaEnum(file, typ string) []string {
	for _, d := range files[file].Decls {
		gd, ok := d.(*ast.GenDecl)
		if !ok || gd.Tok != token.CONST || len(gd.Specs) == 0 {
			continue
		}
		first := gd.Specs[0].(*ast.ValueSpec)
		id, ok := first.Type.(*ast.Ident)
		if !ok || id.Name != typ {
			continue
		}
		if len(first.Values) != 1 {
			die("%s: first constant is not iota", typ)
		}
		if v, ok := first.Values[0].(*ast.Ident); !ok || v.Name != "iota" {
			die("%s: first constant is not iota", typ)
		}
		var names []string
		for i, s := range gd.Specs {
			vs := s.(*ast.ValueSpec)
			if len(vs.Names) != 1 || (i > 0 && (vs.Type != nil || len(vs.Values) != 0)) {
				die("%s: unexpected shape of constant %d", typ, i)
			}
			names = append(names, vs.Names[0].Name)
		}
		return names
	}
	die("enumeration %s not found in %s", typ, file)
	return nil
}

func charLit(e ast.Expr) (byte, bool) {
	bl, ok := e.(*ast.BasicLit)
	if !ok || bl.Kind != token.CHAR {
		return 0, false
	}
	s, err := strconv.Unquote(bl.Value)
	if err != nil || len(s) != 1 {
		return 0, false
	}
	return s[0], true
}

func strLit(e ast.Expr) (string, bool) {
	bl, ok := e.(*ast.BasicLit)
	if !ok || bl.Kind != token.STRING {
		return "", false
	}
	s, err := strconv.Unquote(bl.Value)
	return s, err == nil
}

// simpleTokenReturn recognises `return l.simpleToken(X)` or `return l.simpleToken(X), nil`.
func simpleTokenReturn(s ast.Stmt) (string, bool) {
	rs, ok := s.(*ast.ReturnStmt)
	if !ok || len(rs.Results) < 1 {
		return "", false
	}
	call, ok := rs.Results[0].(*ast.CallExpr)
	if !ok || len(call.Args) != 1 {
		return "", false
	}
	sel, ok := call.Fun.(*ast.SelectorExpr)
	if !ok || sel.Sel.Name != "simpleToken" {
		return "", false
	}
	id, ok := call.Args[0].(*ast.Ident)
	if !ok {
		return "", false
	}
	return id.Name, true
}

func isPeekCall(e ast.Expr) bool {
	call, ok := e.(*ast.CallExpr)
	if !ok || len(call.Args) != 0 {
		return false
	}
	sel, ok := call.Fun.(*ast.SelectorExpr)
	return ok && sel.Sel.Name == "peek"
}

func isAdvanceStmt(s ast.Stmt) bool {
	es, ok := s.(*ast.ExprStmt)
	if !ok {
		return false
	}
	call, ok := es.X.(*ast.CallExpr)
	if !ok {
		return false
	}
	sel, ok := call.Fun.(*ast.SelectorExpr)
	return ok && sel.Sel.Name == "advance"
}

// `l.advance(); return l.simpleToken(X), nil`
func advanceThenToken(list []ast.Stmt) (string, bool) {
	if len(list) != 2 || !isAdvanceStmt(list[0]) {
		return "", false
	}
	return simpleTokenReturn(list[1])
}

type kw struct{ text, tag string }
type op1 struct {
	c   byte
	tag string
}
type op2 struct {
	c, d byte
	tag  string
}

func keywords() []kw {
	fd := funcDecl("lexer.go", "Lexer", "identifier")
	var out []kw
	found := false
	ast.Inspect(fd, func(n ast.Node) bool {
		sw, ok := n.(*ast.SwitchStmt)
		if !ok {
			return true
		}
		// the switch over the identifier's text: its tag is a variable and every label a string literal
		if _, ok := sw.Tag.(*ast.Ident); !ok {
			return true
		}
		for _, c := range sw.Body.List {
			for _, e := range c.(*ast.CaseClause).List {
				if _, ok := strLit(e); !ok {
					return true
				}
			}
		}
		found = true
		for _, c := range sw.Body.List {
			cc := c.(*ast.CaseClause)
			if cc.List == nil {
				continue // default: identifier
			}
			if len(cc.Body) != 1 {
				die("identifier: unexpected case body")
			}
			tag, ok := simpleTokenReturn(cc.Body[0])
			if !ok {
				die("identifier: case does not return a simple token")
			}
			for _, e := range cc.List {
				s, ok := strLit(e)
				if !ok {
					die("identifier: case label is not a string literal")
				}
				out = append(out, kw{s, tag})
			}
		}
		return false
	})
	if !found {
		// the same table written as a package-level map[string]TokenTag{ "begin": Begin, ... }
		// that identifier() consults
		if m := keywordMap(fd); m != nil {
			return m
		}
		die("identifier: keyword switch not found")
	}
	return out
}

// stringKeyedMap: the function indexes a package-level map literal map[string]<valType>{ "k": Ident, ... }
// of the given file; returns its entries in source order, nil when there is none.
func stringKeyedMap(file string, fd *ast.FuncDecl, valType string) []kw {
	used := map[string]bool{}
	ast.Inspect(fd, func(n ast.Node) bool {
		if ix, ok := n.(*ast.IndexExpr); ok {
			if id, ok := ix.X.(*ast.Ident); ok {
				used[id.Name] = true
			}
		}
		return true
	})
	for _, decl := range files[file].Decls {
		gd, ok := decl.(*ast.GenDecl)
		if !ok || gd.Tok != token.VAR {
			continue
		}
		for _, sp := range gd.Specs {
			vs := sp.(*ast.ValueSpec)
			if len(vs.Names) != 1 || len(vs.Values) != 1 || !used[vs.Names[0].Name] {
				continue
			}
			cl, ok := vs.Values[0].(*ast.CompositeLit)
			if !ok {
				continue
			}
			mt, ok := cl.Type.(*ast.MapType)
			if !ok {
				continue
			}
			if k, ok := mt.Key.(*ast.Ident); !ok || k.Name != "string" {
				continue
			}
			if v, ok := mt.Value.(*ast.Ident); !ok || v.Name != valType {
				continue
			}
			var out []kw
			for _, e := range cl.Elts {
				kv, ok := e.(*ast.KeyValueExpr)
				if !ok {
					die("%s: map entry is not key: value", vs.Names[0].Name)
				}
				key, ok := strLit(kv.Key)
				if !ok {
					die("%s: map key is not a string literal", vs.Names[0].Name)
				}
				tag, ok := kv.Value.(*ast.Ident)
				if !ok {
					die("%s: map value is not a constant name", vs.Names[0].Name)
				}
				out = append(out, kw{key, tag.Name})
			}
			return out
		}
	}
	return nil
}

// orderLikeRef: a map has no order of its own: keep the order of the reference definition for the
// words it has (so that a pure rewrite of a switch as a map regenerates the same table), new words
// after them in alphabetical order.
func orderLikeRef(def string, out []kw) []kw {
	rank := map[string]int{}
	if d, ok := refDefinition(refText, def); ok {
		for i, m := range regexp.MustCompile(`bs "([^"]*)"`).FindAllStringSubmatch(d, -1) {
			rank[m[1]] = i + 1
		}
	}
	sort.SliceStable(out, func(i, j int) bool {
		ri, rj := rank[out[i].text], rank[out[j].text]
		if ri != 0 && rj != 0 {
			return ri < rj
		}
		if (ri != 0) != (rj != 0) {
			return ri != 0
		}
		return out[i].text < out[j].text
	})
	return out
}

// keywordMap: identifier() indexes a package-level map literal from string literals to tag names.
func keywordMap(fd *ast.FuncDecl) []kw {
	out := stringKeyedMap("lexer.go", fd, "TokenTag")
	if out == nil {
		return nil
	}
	return orderLikeRef("keyword_table", out)
}

// operators parses the `switch c` of Lexer.Next.
func operators() ([]op1, []op2, []byte) {
	fd := funcDecl("lexer.go", "Lexer", "Next")
	var o1 []op1
	var o2 []op2
	var quotes []byte
	found := false
	for _, st := range fd.Body.List {
		sw, ok := st.(*ast.SwitchStmt)
		if !ok {
			continue
		}
		if id, ok := sw.Tag.(*ast.Ident); !ok || id.Name != "c" {
			continue
		}
		found = true
		for _, c := range sw.Body.List {
			cc := c.(*ast.CaseClause)
			if cc.List == nil {
				die("Next: unexpected default case in switch c")
			}
			var chars []byte
			for _, e := range cc.List {
				ch, ok := charLit(e)
				if !ok {
					die("Next: case label is not a character literal")
				}
				chars = append(chars, ch)
			}
			// string literal start: return l.string(c)
			if len(cc.Body) == 1 {
				if rs, ok := cc.Body[0].(*ast.ReturnStmt); ok && len(rs.Results) == 1 {
					if call, ok := rs.Results[0].(*ast.CallExpr); ok {
						if sel, ok := call.Fun.(*ast.SelectorExpr); ok && sel.Sel.Name == "string" {
							quotes = append(quotes, chars...)
							continue
						}
					}
				}
			}
			if len(chars) != 1 {
				die("Next: several labels on an operator case")
			}
			ch := chars[0]
			body := cc.Body
			// plain single token
			if len(body) == 1 {
				if tag, ok := simpleTokenReturn(body[0]); ok {
					o1 = append(o1, op1{ch, tag})
					continue
				}
			}
			// if l.peek() == 'x' { advance; return T2 } [return T1]
			if ifs, ok := body[0].(*ast.IfStmt); ok && ifs.Else == nil && ifs.Init == nil {
				be, ok := ifs.Cond.(*ast.BinaryExpr)
				if !ok || be.Op != token.EQL || !isPeekCall(be.X) {
					die("Next: unexpected condition in case %q", ch)
				}
				d, ok := charLit(be.Y)
				if !ok {
					die("Next: unexpected peek comparison in case %q", ch)
				}
				tag2, ok := advanceThenToken(ifs.Body.List)
				if !ok {
					die("Next: unexpected two-byte branch in case %q", ch)
				}
				o2 = append(o2, op2{ch, d, tag2})
				switch len(body) {
				case 1: // no single-byte token: falls out of the switch to the error
				case 2:
					tag1, ok := simpleTokenReturn(body[1])
					if !ok {
						die("Next: unexpected fallthrough in case %q", ch)
					}
					o1 = append(o1, op1{ch, tag1})
				default:
					die("Next: unexpected statements in case %q", ch)
				}
				continue
			}
			// switch l.peek() { case 'x': advance; return T2 ... default: return T1 }
			if isw, ok := body[0].(*ast.SwitchStmt); ok && len(body) == 1 && isPeekCall(isw.Tag) {
				for _, ic := range isw.Body.List {
					icc := ic.(*ast.CaseClause)
					if icc.List == nil {
						if len(icc.Body) != 1 {
							die("Next: unexpected default in case %q", ch)
						}
						tag1, ok := simpleTokenReturn(icc.Body[0])
						if !ok {
							die("Next: unexpected default in case %q", ch)
						}
						o1 = append(o1, op1{ch, tag1})
						continue
					}
					if len(icc.List) != 1 {
						die("Next: several labels in inner switch of case %q", ch)
					}
					d, ok := charLit(icc.List[0])
					if !ok {
						die("Next: inner label is not a character in case %q", ch)
					}
					tag2, ok := advanceThenToken(icc.Body)
					if !ok {
						die("Next: unexpected inner branch in case %q", ch)
					}
					o2 = append(o2, op2{ch, d, tag2})
				}
				continue
			}
			die("Next: unrecognised shape of case %q", ch)
		}
	}
	if !found {
		die("Next: switch c not found")
	}
	return o1, o2, quotes
}

type prule struct{ tag, prec, prefix, infix string }

func ruleTable() []prule {
	fd := funcDecl("parser.go", "", "NewParser")
	var out []prule
	found := false
	ast.Inspect(fd, func(n ast.Node) bool {
		as, ok := n.(*ast.AssignStmt)
		if !ok || len(as.Lhs) != 1 || len(as.Rhs) != 1 {
			return true
		}
		sel, ok := as.Lhs[0].(*ast.SelectorExpr)
		if !ok || sel.Sel.Name != "rules" {
			return true
		}
		cl, ok := as.Rhs[0].(*ast.CompositeLit)
		if !ok {
			die("NewParser: p.rules is not a composite literal")
		}
		found = true
		for _, el := range cl.Elts {
			kv, ok := el.(*ast.KeyValueExpr)
			if !ok {
				die("NewParser: rule entry is not key: value")
			}
			k, ok := kv.Key.(*ast.Ident)
			if !ok {
				die("NewParser: rule key is not an identifier")
			}
			v, ok := kv.Value.(*ast.CompositeLit)
			if !ok || len(v.Elts) != 3 {
				die("NewParser: rule for %s is not {prec, prefix, infix}", k.Name)
			}
			var parts [3]string
			for i, e := range v.Elts {
				id, ok := e.(*ast.Ident)
				if !ok {
					die("NewParser: rule for %s: field %d is not an identifier", k.Name, i)
				}
				parts[i] = id.Name
			}
			out = append(out, prule{k.Name, parts[0], parts[1], parts[2]})
		}
		return false
	})
	if !found {
		die("NewParser: assignment to p.rules not found")
	}
	return out
}

func intVar(file, name string) int64 {
	for _, d := range files[file].Decls {
		gd, ok := d.(*ast.GenDecl)
		if !ok || gd.Tok != token.VAR {
			continue
		}
		for _, s := range gd.Specs {
			vs := s.(*ast.ValueSpec)
			for i, n := range vs.Names {
				if n.Name == name && i < len(vs.Values) {
					return constInt(vs.Values[i], name)
				}
			}
		}
	}
	die("variable %s not found in %s", name, file)
	return 0
}

func constInt(e ast.Expr, what string) int64 {
	switch x := e.(type) {
	case *ast.BasicLit:
		if x.Kind == token.INT {
			v, err := strconv.ParseInt(x.Value, 0, 64)
			if err == nil {
				return v
			}
		}
	case *ast.BinaryExpr:
		a, b := constInt(x.X, what), constInt(x.Y, what)
		switch x.Op {
		case token.MUL:
			return a * b
		case token.ADD:
			return a + b
		case token.SUB:
			return a - b
		case token.SHL:
			return a << uint(b)
		}
	case *ast.UnaryExpr:
		if x.Op == token.SUB {
			return -constInt(x.X, what)
		}
	case *ast.ParenExpr:
		return constInt(x.X, what)
	}
	die("%s: not a constant integer expression", what)
	return 0
}

// limitIn finds, inside function fd, the comparison `<ident> > <const>` and returns the constant.
func limitIn(fd *ast.FuncDecl, ident string) int64 {
	var vals []int64
	ast.Inspect(fd, func(n ast.Node) bool {
		be, ok := n.(*ast.BinaryExpr)
		if !ok || be.Op != token.GTR {
			return true
		}
		id, ok := be.X.(*ast.Ident)
		if !ok || id.Name != ident {
			return true
		}
		switch be.Y.(type) {
		case *ast.BasicLit, *ast.BinaryExpr:
			vals = append(vals, constInt(be.Y, ident))
		}
		return true
	})
	if len(vals) != 1 {
		die("%s: expected exactly one comparison `%s > constant`, found %d", fd.Name.Name, ident, len(vals))
	}
	return vals[0]
}

// tagSetsOfSwitch returns, for a `switch <sel>.Tag {...}` in fd, the case label lists.
func tagCases(fd *ast.FuncDecl) [][]string {
	var out [][]string
	found := false
	ast.Inspect(fd, func(n ast.Node) bool {
		sw, ok := n.(*ast.SwitchStmt)
		if !ok || found {
			return true
		}
		sel, ok := sw.Tag.(*ast.SelectorExpr)
		if !ok || sel.Sel.Name != "Tag" {
			return true
		}
		found = true
		for _, c := range sw.Body.List {
			cc := c.(*ast.CaseClause)
			var names []string
			for _, e := range cc.List {
				id, ok := e.(*ast.Ident)
				if !ok {
					die("%s: tag case label is not an identifier", fd.Name.Name)
				}
				names = append(names, id.Name)
			}
			out = append(out, names)
		}
		return false
	})
	if !found {
		die("%s: switch on .Tag not found", fd.Name.Name)
	}
	return out
}

// protoNames returns the keys of the map literal `proto := map[string]*Cell{...}` in fd.
func protoNames(name string) []string {
	fd := funcDecl("prototypes.go", "", name)
	var out []string
	found := false
	ast.Inspect(fd, func(n ast.Node) bool {
		cl, ok := n.(*ast.CompositeLit)
		if !ok || found {
			return true
		}
		mt, ok := cl.Type.(*ast.MapType)
		if !ok {
			return true
		}
		if k, ok := mt.Key.(*ast.Ident); !ok || k.Name != "string" {
			return true
		}
		found = true
		for _, el := range cl.Elts {
			kv := el.(*ast.KeyValueExpr)
			s, ok := strLit(kv.Key)
			if !ok {
				die("%s: prototype key is not a string literal", name)
			}
			out = append(out, s)
		}
		return false
	})
	if !found {
		die("%s: prototype map literal not found", name)
	}
	sort.Strings(out)
	return out
}

func runtimeNames() []string {
	fd := funcDecl("runtime.go", "", "addRuntimeFunctions")
	var out []string
	ast.Inspect(fd, func(n ast.Node) bool {
		ix, ok := n.(*ast.IndexExpr)
		if !ok {
			return true
		}
		if s, ok := strLit(ix.Index); ok {
			out = append(out, s)
		}
		return true
	})
	sort.Strings(out)
	return out
}

// switchCasesOn returns, for the first `switch <tagExpr>` in fd whose tag satisfies match,
// the case clauses.
func switchOn(fd *ast.FuncDecl, match func(ast.Expr) bool) []*ast.CaseClause {
	var out []*ast.CaseClause
	found := false
	ast.Inspect(fd, func(n ast.Node) bool {
		sw, ok := n.(*ast.SwitchStmt)
		if !ok || found || sw.Tag == nil || !match(sw.Tag) {
			return true
		}
		found = true
		for _, c := range sw.Body.List {
			out = append(out, c.(*ast.CaseClause))
		}
		return false
	})
	if !found {
		die("%s: expected switch not found", fd.Name.Name)
	}
	return out
}

// whitespace: the character cases of skipWhitespace (skipped bytes, comment opener)
func whitespace() (ws []byte, comment []byte) {
	fd := funcDecl("lexer.go", "Lexer", "skipWhitespace")
	for _, cc := range switchOn(fd, isPeekCall) {
		if cc.List == nil {
			continue
		}
		var chars []byte
		for _, e := range cc.List {
			ch, ok := charLit(e)
			if !ok {
				die("skipWhitespace: case label is not a character")
			}
			chars = append(chars, ch)
		}
		if len(cc.Body) == 1 && isAdvanceStmt(cc.Body[0]) {
			ws = append(ws, chars...)
		} else if _, ok := cc.Body[0].(*ast.ForStmt); ok && len(cc.Body) == 1 {
			comment = append(comment, chars...)
		} else {
			die("skipWhitespace: unrecognised case body")
		}
	}
	return
}

// escapes: evalString's `switch str[i]` : escape letter -> produced byte
func escapes() [][2]byte {
	fd := funcDecl("evaluator.go", "Evaluator", "evalString")
	var out [][2]byte
	for _, cc := range switchOn(fd, func(e ast.Expr) bool { _, ok := e.(*ast.IndexExpr); return ok }) {
		if cc.List == nil {
			continue
		}
		if len(cc.List) != 1 || len(cc.Body) != 1 {
			die("evalString: unexpected escape case")
		}
		from, ok := charLit(cc.List[0])
		if !ok {
			die("evalString: escape label is not a character")
		}
		as, ok := cc.Body[0].(*ast.AssignStmt)
		if !ok || len(as.Rhs) != 1 {
			die("evalString: unexpected escape body")
		}
		call, ok := as.Rhs[0].(*ast.CallExpr)
		if !ok || len(call.Args) != 2 {
			die("evalString: escape body is not append(buf, c)")
		}
		to, ok := charLit(call.Args[1])
		if !ok {
			die("evalString: appended value is not a character")
		}
		out = append(out, [2]byte{from, to})
	}
	return out
}

// isTypeNames: the string cases of the `is` operator in evalBinaryExpr
func isTypeNames() []string {
	fd := funcDecl("evaluator.go", "Evaluator", "evalBinaryExpr")
	var out []string
	var clauses []*ast.CaseClause
	func() {
		defer func() { recover() }() // no such switch: try the map form below
		clauses = switchOn(fd, func(e ast.Expr) bool { id, ok := e.(*ast.Ident); return ok && id.Name == "s" })
	}()
	for _, cc := range clauses {
		for _, e := range cc.List {
			s, ok := strLit(e)
			if !ok {
				die("evalBinaryExpr: type name label is not a string")
			}
			out = append(out, s)
		}
	}
	if out == nil {
		// the same names as the keys of a package-level map[string]ValueTag consulted by evalBinaryExpr
		for _, k := range orderLikeRef("is_type_names", stringKeyedMap("evaluator.go", fd, "ValueTag")) {
			out = append(out, k.text)
		}
	}
	if out == nil {
		die("evalBinaryExpr: the type names of `is` were not found")
	}
	return out
}

// printfDirectives: the character cases of the directive switch in nativePrintf
func printfDirectives() []byte {
	fd := funcDecl("runtime.go", "", "nativePrintf")
	var out []byte
	for _, cc := range switchOn(fd, func(e ast.Expr) bool {
		ix, ok := e.(*ast.IndexExpr)
		if !ok {
			return false
		}
		id, ok := ix.X.(*ast.Ident)
		return ok && id.Name == "fmtStr"
	}) {
		for _, e := range cc.List {
			ch, ok := charLit(e)
			if !ok {
				die("nativePrintf: directive label is not a character")
			}
			out = append(out, ch)
		}
	}
	return out
}

// compoundOps: rewriteCompundAssingment's switch: compound token -> base operator
func compoundOps() [][2]string {
	fd := funcDecl("parser.go", "Parser", "rewriteCompundAssingment")
	var out [][2]string
	for _, cc := range switchOn(fd, func(e ast.Expr) bool {
		sel, ok := e.(*ast.SelectorExpr)
		return ok && sel.Sel.Name == "Tag"
	}) {
		if cc.List == nil {
			continue
		}
		if len(cc.List) != 1 || len(cc.Body) != 1 {
			die("rewriteCompundAssingment: unexpected case")
		}
		from, ok1 := cc.List[0].(*ast.Ident)
		as, ok2 := cc.Body[0].(*ast.AssignStmt)
		if !ok1 || !ok2 || len(as.Rhs) != 1 {
			die("rewriteCompundAssingment: unexpected case shape")
		}
		to, ok := as.Rhs[0].(*ast.Ident)
		if !ok {
			die("rewriteCompundAssingment: unexpected right-hand side")
		}
		out = append(out, [2]string{from.Name, to.Name})
	}
	return out
}

// arities: for every native in the prototype maps and runtime.go, the N of checkArgCount(v, N)
// (-1 when the native does not call checkArgCount)
func arities() map[string]int64 {
	out := map[string]int64{}
	scan := func(name string, body ast.Node) {
		n := int64(-1)
		ast.Inspect(body, func(x ast.Node) bool {
			call, ok := x.(*ast.CallExpr)
			if !ok {
				return true
			}
			if id, ok := call.Fun.(*ast.Ident); ok && id.Name == "checkArgCount" && len(call.Args) == 2 {
				n = constInt(call.Args[1], "checkArgCount in "+name)
			}
			return true
		})
		out[name] = n
	}
	for _, p := range []struct{ fn, prefix string }{{"getArrayPrototype", "array."}, {"getObjPrototype", "object."},
		{"getStrPrototype", "string."}, {"getNumPrototype", "number."}} {
		fd := funcDecl("prototypes.go", "", p.fn)
		ast.Inspect(fd, func(n ast.Node) bool {
			cl, ok := n.(*ast.CompositeLit)
			if !ok {
				return true
			}
			if _, ok := cl.Type.(*ast.MapType); !ok {
				return true
			}
			for _, el := range cl.Elts {
				kv := el.(*ast.KeyValueExpr)
				if s, ok := strLit(kv.Key); ok {
					scan(p.prefix+s, kv.Value)
				}
			}
			return false
		})
	}
	for _, f := range []struct{ fn, name string }{{"nativePrintf", "printf"}, {"nativeJson", "json"}, {"nativeNum", "num"}} {
		scan(f.name, funcDecl("runtime.go", "", f.fn))
	}
	return out
}

func coqStr(s string) string {
	for _, c := range []byte(s) {
		if c < 32 || c > 126 || c == '"' {
			die("string %q cannot be written as a Coq literal", s)
		}
	}
	return "bs \"" + s + "\""
}

func main() {
	if len(os.Args) == 5 && os.Args[1] == "tests" {
		extractTests(os.Args[2], os.Args[3], os.Args[4])
		return
	}
	if len(os.Args) != 3 && len(os.Args) != 4 {
		fmt.Fprintln(os.Stderr, "usage: gen <repo/src dir> <output Generated.v> [reference Generated.v]")
		os.Exit(2)
	}
	load(os.Args[1])
	ref := ""
	if len(os.Args) == 4 {
		if rb, err := os.ReadFile(os.Args[3]); err == nil {
			ref = string(rb)
			refText = ref
		}
	}
	var b strings.Builder
	cur := &b
	w := func(format string, args ...any) { fmt.Fprintf(cur, format, args...) }
	type miss struct {
		Tables []string `json:"tables"`
		Reason string   `json:"reason"`
	}
	var missing []miss
	// section: one group of definitions extracted from one place of the source.  When the source no
	// longer has the shape the extractor recognises, the definitions are taken from the reference
	// file (the tables of the pinned tree), the failure is recorded in <output>.status.json, and
	// the checks that lean on these tables report the lost tie (py/framework.py TABLE_PROPS);
	// the correspondence runs still compare the model built from the reference tables with the code.
	section := func(names []string, f func()) {
		var sb strings.Builder
		cur = &sb
		reason := ""
		func() {
			defer func() {
				if r := recover(); r != nil {
					reason = fmt.Sprint(r)
				}
			}()
			f()
		}()
		cur = &b
		if reason == "" {
			b.WriteString(sb.String())
			return
		}
		missing = append(missing, miss{names, reason})
		fmt.Fprintf(&b, "(* NOT EXTRACTED (%s): the definitions below are the reference tables of the pinned tree *)\n", strings.ReplaceAll(reason, "*)", "* )"))
		for _, n := range names {
			d, ok := refDefinition(ref, n)
			if !ok {
				fatal("%s: %s, and no reference definition to fall back to", n, reason)
			}
			b.WriteString(d)
		}
		b.WriteString("\n")
	}

	w("(* GENERATED by /verif/gen from /repo/src/*.go -- do not edit; regenerated on every run. *)\n")
	w("From JQ Require Import Base.Bytes Syntax.Token.\n\n")

	section([]string{"token_tags"}, func() {
		tags := iotaEnum("lexer.go", "TokenTag")
		w("(* lexer.go: the TokenTag enumeration, in iota order *)\n")
		w("Definition token_tags : list tag :=\n  [ ")
		for i, t := range tags {
			if i > 0 {
				w("; ")
				if i%8 == 0 {
					w("\n    ")
				}
			}
			w("T%s", t)
		}
		w(" ].\n\n")
	})

	section([]string{"precedences"}, func() {
		precs := iotaEnum("parser.go", "Precedence")
		w("(* parser.go: the Precedence enumeration, in iota order *)\n")
		w("Definition precedences : list prec :=\n  [ %s ].\n\n", strings.Join(precs, "; "))
	})

	section([]string{"keyword_table"}, func() {
		w("(* Lexer.identifier: keyword switch *)\n")
		w("Definition keyword_table : list (bytes * tag) :=\n  [ ")
		for i, k := range keywords() {
			if i > 0 {
				w(";\n    ")
			}
			w("(%s, T%s)", coqStr(k.text), k.tag)
		}
		w(" ].\n\n")
	})

	section([]string{"op1_table", "op2_table", "quote_chars"}, func() {
		o1, o2, quotes := operators()
		w("(* Lexer.Next: single-byte tokens (the result when no two-byte token applies) *)\n")
		w("Definition op1_table : list (byte * tag) :=\n  [ ")
		for i, o := range o1 {
			if i > 0 {
				w("; ")
				if i%5 == 0 {
					w("\n    ")
				}
			}
			w("(%d%%N, T%s)", o.c, o.tag)
		}
		w(" ].\n\n")
		w("(* Lexer.Next: two-byte tokens *)\n")
		w("Definition op2_table : list (byte * byte * tag) :=\n  [ ")
		for i, o := range o2 {
			if i > 0 {
				w("; ")
				if i%3 == 0 {
					w("\n    ")
				}
			}
			w("(%d%%N, %d%%N, T%s)", o.c, o.d, o.tag)
		}
		w(" ].\n\n")
		w("(* Lexer.Next: bytes that open a string literal *)\n")
		w("Definition quote_chars : list byte := [ ")
		for i, q := range quotes {
			if i > 0 {
				w("; ")
			}
			w("%d%%N", q)
		}
		w(" ].\n\n")
	})

	section([]string{"rule_table"}, func() {
		prefixName := map[string]string{"nil": "PfNone", "literal": "PfLiteral", "identifier": "PfIdentifier",
			"array": "PfArray", "group": "PfGroup", "unary": "PfUnary", "regex": "PfRegex", "match": "PfMatch", "object": "PfObject"}
		infixName := map[string]string{"nil": "IfNone", "computedMember": "IfComputedMember", "member": "IfMember",
			"call": "IfCall", "binary": "IfBinary", "assign": "IfAssign", "postfix": "IfPostfix", "is": "IfIs"}
		w("(* NewParser: p.rules *)\n")
		w("Definition rule_table : list (tag * parse_rule) :=\n  [ ")
		for i, r := range ruleTable() {
			if i > 0 {
				w(";\n    ")
			}
			pf, ok := prefixName[r.prefix]
			if !ok {
				die("rule for %s: unknown prefix function %s", r.tag, r.prefix)
			}
			inf, ok := infixName[r.infix]
			if !ok {
				die("rule for %s: unknown infix function %s", r.tag, r.infix)
			}
			w("(T%s, mkRule %s %s %s)", r.tag, r.prec, pf, inf)
		}
		w(" ].\n\n")
	})

	section([]string{"rule_kind_names"}, func() {
		kinds := iotaEnum("ast.go", "RuleKind")
		w("(* ast.go: RuleKind in iota order *)\n")
		w("Definition rule_kind_names : list bytes := [ ")
		for i, k := range kinds {
			if i > 0 {
				w("; ")
			}
			w("%s", coqStr(k))
		}
		w(" ].\n\n")
	})

	section([]string{"value_tag_names"}, func() {
		vtags := iotaEnum("value.go", "ValueTag")
		w("(* value.go: ValueTag in iota order *)\n")
		w("Definition value_tag_names : list bytes := [ ")
		for i, k := range vtags {
			if i > 0 {
				w("; ")
			}
			w("%s", coqStr(k))
		}
		w(" ].\n\n")
	})

	section([]string{"truthy_cases"}, func() {
		truthy := tagCases(funcDecl("value.go", "Value", "isTruthy"))
		w("(* Value.isTruthy: the case labels, in order (last one: always truthy) *)\n")
		w("Definition truthy_cases : list (list bytes) := [ ")
		for i, c := range truthy {
			if i > 0 {
				w("; ")
			}
			w("[")
			for j, n := range c {
				if j > 0 {
					w("; ")
				}
				w("%s", coqStr(n))
			}
			w("]")
		}
		w(" ].\n\n")
	})

	section([]string{"copy_cases"}, func() {
		cp := tagCases(funcDecl("evaluator.go", "", "copyValue"))
		w("(* copyValue: the case labels, in order (copied ... shared; default = error) *)\n")
		w("Definition copy_cases : list (list bytes) := [ ")
		for i, c := range cp {
			if i > 0 {
				w("; ")
			}
			w("[")
			for j, n := range c {
				if j > 0 {
					w("; ")
				}
				w("%s", coqStr(n))
			}
			w("]")
		}
		w(" ].\n\n")
	})

	section([]string{"array_proto_names", "obj_proto_names", "str_proto_names", "num_proto_names", "runtime_names"}, func() {
		w("(* prototypes.go / runtime.go: native function names (sorted) *)\n")
		for _, p := range []struct{ fn, def string }{
			{"getArrayPrototype", "array_proto_names"}, {"getObjPrototype", "obj_proto_names"},
			{"getStrPrototype", "str_proto_names"}, {"getNumPrototype", "num_proto_names"}} {
			w("Definition %s : list bytes := [ ", p.def)
			for i, n := range protoNames(p.fn) {
				if i > 0 {
					w("; ")
				}
				w("%s", coqStr(n))
			}
			w(" ].\n")
		}
		w("Definition runtime_names : list bytes := [ ")
		for i, n := range runtimeNames() {
			if i > 0 {
				w("; ")
			}
			w("%s", coqStr(n))
		}
		w(" ].\n\n")
	})

	section([]string{"ws_chars", "comment_chars"}, func() {
		ws, comment := whitespace()
		w("(* Lexer.skipWhitespace: skipped bytes, and the byte that opens a comment up to the line end *)\n")
		w("Definition ws_chars : list byte := [ ")
		for i, c := range ws {
			if i > 0 {
				w("; ")
			}
			w("%d%%N", c)
		}
		w(" ].\nDefinition comment_chars : list byte := [ ")
		for i, c := range comment {
			if i > 0 {
				w("; ")
			}
			w("%d%%N", c)
		}
		w(" ].\n\n")
	})

	section([]string{"escape_table"}, func() {
		w("(* Evaluator.evalString: escape letter -> byte produced (anything else is an error) *)\n")
		w("Definition escape_table : list (byte * byte) := [ ")
		for i, e := range escapes() {
			if i > 0 {
				w("; ")
			}
			w("(%d%%N, %d%%N)", e[0], e[1])
		}
		w(" ].\n\n")
	})

	section([]string{"is_type_names"}, func() {
		w("(* evalBinaryExpr: the type names of `is` (besides the keywords function and null) *)\n")
		w("Definition is_type_names : list bytes := [ ")
		for i, n := range isTypeNames() {
			if i > 0 {
				w("; ")
			}
			w("%s", coqStr(n))
		}
		w(" ].\n\n")
	})

	section([]string{"printf_directives"}, func() {
		w("(* nativePrintf: directive characters *)\n")
		w("Definition printf_directives : list byte := [ ")
		for i, c := range printfDirectives() {
			if i > 0 {
				w("; ")
			}
			w("%d%%N", c)
		}
		w(" ].\n\n")
	})

	section([]string{"compound_table"}, func() {
		w("(* rewriteCompundAssingment: compound assignment token -> operator *)\n")
		w("Definition compound_table : list (tag * tag) := [ ")
		for i, c := range compoundOps() {
			if i > 0 {
				w("; ")
			}
			w("(T%s, T%s)", c[0], c[1])
		}
		w(" ].\n\n")
	})

	section([]string{"native_arities"}, func() {
		ar := arities()
		var arNames []string
		for k := range ar {
			arNames = append(arNames, k)
		}
		sort.Strings(arNames)
		w("(* checkArgCount(v, N) of every native (-1: no exact count is demanded) *)\n")
		w("Definition native_arities : list (bytes * Z) :=\n  [ ")
		for i, k := range arNames {
			if i > 0 {
				w("; ")
				if i%4 == 0 {
					w("\n    ")
				}
			}
			w("(%s, (%d)%%Z)", coqStr(k), ar[k])
		}
		w(" ].\n\n")
	})

	w("(* resource limits *)\n")
	section([]string{"call_depth_limit"}, func() {
		w("Definition call_depth_limit : Z := %d.\n", intVar("evaluator.go", "callDepthLimit"))
	})
	section([]string{"fuzzing_loop_limit"}, func() {
		w("Definition fuzzing_loop_limit : Z := %d.\n", intVar("evaluator.go", "fuzzingLoopLimit"))
	})
	section([]string{"fill_limit"}, func() {
		w("Definition fill_limit : Z := %d.        (* Value.SetMember: index > limit is refused *)\n",
			limitIn(funcDecl("value.go", "Value", "SetMember"), "index"))
	})
	section([]string{"printf_width_limit"}, func() {
		w("Definition printf_width_limit : Z := %d.  (* nativePrintf: |width| > limit is refused *)\n",
			limitIn(funcDecl("runtime.go", "", "nativePrintf"), "num"))
	})

	if err := os.WriteFile(os.Args[2], []byte(b.String()), 0o644); err != nil {
		fatal("cannot write %s: %v", os.Args[2], err)
	}
	if missing == nil {
		missing = []miss{}
	}
	st, _ := json.MarshalIndent(map[string]any{"missing": missing}, "", " ")
	if err := os.WriteFile(os.Args[2]+".status.json", st, 0o644); err != nil {
		fatal("cannot write status: %v", err)
	}
}
