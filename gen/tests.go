package main

// `gen tests <jqawk_test.go> <fuzzdir> <out.json>`: extracts the programs and inputs of the
// repository's own test-suite (testCase{...} composite literals) and fuzz corpus as seeds for
// the correspondence check.  Expected outputs are copied for information only.

import (
	"encoding/json"
	"go/ast"
	"go/parser"
	"go/token"
	"os"
	"path/filepath"
	"strconv"
	"strings"
)

type seedCase struct {
	Name          string   `json:"name"`
	Prog          string   `json:"prog"`
	JSON          string   `json:"json"`
	JSON2         string   `json:"json2"`
	Expected      string   `json:"expected"`
	ExpectedError string   `json:"expectedError"`
	Args          []string `json:"args"`
	Source        string   `json:"source"`
}

func evalString(e ast.Expr) (string, bool) {
	switch x := e.(type) {
	case *ast.BasicLit:
		if x.Kind == token.STRING {
			s, err := strconv.Unquote(x.Value)
			return s, err == nil
		}
	case *ast.BinaryExpr:
		if x.Op == token.ADD {
			a, ok1 := evalString(x.X)
			b, ok2 := evalString(x.Y)
			return a + b, ok1 && ok2
		}
	case *ast.ParenExpr:
		return evalString(x.X)
	}
	return "", false
}

func extractTests(testFile, fuzzDir, out string) {
	fs := token.NewFileSet()
	f, err := parser.ParseFile(fs, testFile, nil, 0)
	if err != nil {
		die("cannot parse %s: %v", testFile, err)
	}
	consts := map[string]string{}
	// local string variables used as json inputs (e.g. countries := `...`)
	ast.Inspect(f, func(n ast.Node) bool {
		if as, ok := n.(*ast.AssignStmt); ok && len(as.Lhs) == 1 && len(as.Rhs) == 1 {
			if id, ok := as.Lhs[0].(*ast.Ident); ok {
				if s, ok := evalString(as.Rhs[0]); ok {
					consts[id.Name] = s
				}
			}
		}
		return true
	})
	var cases []seedCase
	ast.Inspect(f, func(n ast.Node) bool {
		cl, ok := n.(*ast.CompositeLit)
		if !ok {
			return true
		}
		isTC := false
		if id, ok := cl.Type.(*ast.Ident); ok && id.Name == "testCase" {
			isTC = true
		}
		if cl.Type == nil {
			// element of []testCase{...}: has key "prog" or "args"
			for _, el := range cl.Elts {
				if kv, ok := el.(*ast.KeyValueExpr); ok {
					if k, ok := kv.Key.(*ast.Ident); ok && (k.Name == "prog" || k.Name == "args") {
						isTC = true
					}
				}
			}
		}
		if !isTC {
			return true
		}
		var c seedCase
		c.Source = "jqawk_test.go"
		for _, el := range cl.Elts {
			kv, ok := el.(*ast.KeyValueExpr)
			if !ok {
				continue
			}
			k, ok := kv.Key.(*ast.Ident)
			if !ok {
				continue
			}
			val := ""
			if s, ok := evalString(kv.Value); ok {
				val = s
			} else if id, ok := kv.Value.(*ast.Ident); ok {
				val = consts[id.Name]
			}
			switch k.Name {
			case "name":
				c.Name = val
			case "prog":
				c.Prog = val
			case "json":
				c.JSON = val
			case "json2":
				c.JSON2 = val
			case "expected":
				c.Expected = val
			case "expectedError":
				c.ExpectedError = val
			case "args":
				if al, ok := kv.Value.(*ast.CompositeLit); ok {
					for _, a := range al.Elts {
						if s, ok := evalString(a); ok {
							c.Args = append(c.Args, s)
						}
					}
				}
			}
		}
		cases = append(cases, c)
		return true
	})
	// fuzz corpus: "go test fuzz v1" files with string(...) lines
	matches, _ := filepath.Glob(filepath.Join(fuzzDir, "*", "*"))
	for _, m := range matches {
		data, err := os.ReadFile(m)
		if err != nil {
			continue
		}
		var vals []string
		for _, line := range strings.Split(string(data), "\n") {
			line = strings.TrimSpace(line)
			if strings.HasPrefix(line, "string(") && strings.HasSuffix(line, ")") {
				if s, err := strconv.Unquote(line[len("string(") : len(line)-1]); err == nil {
					vals = append(vals, s)
				}
			}
		}
		if len(vals) == 0 {
			continue
		}
		c := seedCase{Name: filepath.Base(m), Prog: vals[0], Source: "fuzz/" + filepath.Base(filepath.Dir(m))}
		if len(vals) > 1 {
			c.JSON = vals[1]
		} else {
			c.JSON = "[{ \"a\": 1 }, { \"a\": null }]"
		}
		cases = append(cases, c)
	}
	data, _ := json.MarshalIndent(cases, "", " ")
	if err := os.WriteFile(out, data, 0o644); err != nil {
		die("cannot write %s: %v", out, err)
	}
}
