package main

// S-expression dump of the jqawk AST (grammar in PROTOCOL.md). The unexported `token` / `ident`
// fields are read through the nodes' exported Token() accessors, which return exactly those fields
// for every node kind where the dump needs them.

import (
	"fmt"
	"strings"

	lang "github.com/alligator/jqawk/src"
)

func dumpProgram(b *strings.Builder, p *lang.Program) {
	b.WriteString("(prog (rules")
	for i := range p.Rules {
		r := &p.Rules[i]
		fmt.Fprintf(b, " (rule %d ", int(r.Kind))
		dumpExpr(b, r.Pattern)
		b.WriteByte(' ')
		dumpStmt(b, r.Body)
		b.WriteByte(')')
	}
	b.WriteString(") (fns")
	for i := range p.Functions {
		b.WriteByte(' ')
		dumpFn(b, &p.Functions[i])
	}
	b.WriteString("))")
}

func dumpFn(b *strings.Builder, f *lang.ExprFunction) {
	t := f.Token() // the `ident` field
	fmt.Fprintf(b, "(fn %d %d (params", t.Pos, t.Len)
	for _, a := range f.Args {
		b.WriteString(" " + hx(a))
	}
	b.WriteString(") ")
	dumpStmt(b, f.Body)
	b.WriteByte(')')
}

func dumpExprs(b *strings.Builder, es []lang.Expr) {
	for _, e := range es {
		b.WriteByte(' ')
		dumpExpr(b, e)
	}
}

// dumpIdent prints a *ExprIdentifier that is stored as a concrete pointer (possibly nil).
func dumpIdent(b *strings.Builder, x *lang.ExprIdentifier) {
	if x == nil {
		b.WriteString("nil")
		return
	}
	t := x.Token()
	fmt.Fprintf(b, "(id %d %d %d)", int(t.Tag), t.Pos, t.Len)
}

func dumpExpr(b *strings.Builder, e lang.Expr) {
	switch x := e.(type) {
	case nil:
		b.WriteString("nil")
	case *lang.ExprLiteral:
		t := x.Token()
		fmt.Fprintf(b, "(lit %d %d %d)", int(t.Tag), t.Pos, t.Len)
	case *lang.ExprIdentifier:
		dumpIdent(b, x)
	case *lang.ExprArray:
		fmt.Fprintf(b, "(arr %d", x.Token().Pos)
		dumpExprs(b, x.Items)
		b.WriteByte(')')
	case *lang.ExprObject:
		fmt.Fprintf(b, "(obj %d", x.Token().Pos)
		for _, kv := range x.Items {
			b.WriteString(" (kv " + hx(kv.Key) + " ")
			dumpExpr(b, kv.Value)
			b.WriteByte(')')
		}
		b.WriteByte(')')
	case *lang.ExprUnary:
		postfix := 0
		if x.Postfix {
			postfix = 1
		}
		fmt.Fprintf(b, "(un %d %d %d ", int(x.OpToken.Tag), x.OpToken.Pos, postfix)
		dumpExpr(b, x.Expr)
		b.WriteByte(')')
	case *lang.ExprBinary:
		fmt.Fprintf(b, "(bin %d %d %d ", int(x.OpToken.Tag), x.OpToken.Pos, x.OpToken.Len)
		dumpExpr(b, x.Left)
		b.WriteByte(' ')
		dumpExpr(b, x.Right)
		b.WriteByte(')')
	case *lang.ExprCall:
		b.WriteString("(call ")
		dumpExpr(b, x.Func)
		dumpExprs(b, x.Args)
		b.WriteByte(')')
	case *lang.ExprFunction:
		dumpFn(b, x)
	case *lang.ExprMatch:
		fmt.Fprintf(b, "(match %d ", x.Token().Pos)
		dumpExpr(b, x.Value)
		for _, mc := range x.Cases {
			b.WriteString(" (case (pats")
			dumpExprs(b, mc.Exprs)
			b.WriteString(") ")
			dumpStmt(b, mc.Body)
			b.WriteByte(')')
		}
		b.WriteByte(')')
	default:
		panic(fmt.Sprintf("unknown expression node %T", e))
	}
}

func dumpStmt(b *strings.Builder, s lang.Statement) {
	switch x := s.(type) {
	case nil:
		b.WriteString("nil")
	case *lang.StatementBlock:
		fmt.Fprintf(b, "(block %d", x.Token().Pos)
		for _, st := range x.Body {
			b.WriteByte(' ')
			dumpStmt(b, st)
		}
		b.WriteByte(')')
	case *lang.StatementPrint:
		t := x.Token()
		fmt.Fprintf(b, "(print %d %d", int(t.Tag), t.Pos)
		dumpExprs(b, x.Args)
		b.WriteByte(')')
	case *lang.StatementExpr:
		b.WriteString("(expr ")
		dumpExpr(b, x.Expr)
		b.WriteByte(')')
	case *lang.StatementReturn:
		if x.Expr == nil {
			b.WriteString("(return)")
			return
		}
		b.WriteString("(return ")
		dumpExpr(b, x.Expr)
		b.WriteByte(')')
	case *lang.StatementBreak:
		fmt.Fprintf(b, "(break %d)", x.Token().Pos)
	case *lang.StatementContinue:
		fmt.Fprintf(b, "(continue %d)", x.Token().Pos)
	case *lang.StatementNext:
		fmt.Fprintf(b, "(next %d)", x.Token().Pos)
	case *lang.StatementExit:
		fmt.Fprintf(b, "(exit %d)", x.Token().Pos)
	case *lang.StatementIf:
		b.WriteString("(if ")
		dumpExpr(b, x.Expr)
		b.WriteByte(' ')
		dumpStmt(b, x.Body)
		b.WriteByte(' ')
		dumpStmt(b, x.ElseBody)
		b.WriteByte(')')
	case *lang.StatementWhile:
		b.WriteString("(while ")
		dumpExpr(b, x.Expr)
		b.WriteByte(' ')
		dumpStmt(b, x.Body)
		b.WriteByte(')')
	case *lang.StatementFor:
		b.WriteString("(for ")
		dumpExpr(b, x.PreExpr)
		b.WriteByte(' ')
		dumpExpr(b, x.Expr)
		b.WriteByte(' ')
		dumpExpr(b, x.PostExpr)
		b.WriteByte(' ')
		dumpStmt(b, x.Body)
		b.WriteByte(')')
	case *lang.StatementForIn:
		b.WriteString("(forin ")
		dumpIdent(b, x.Ident)
		b.WriteByte(' ')
		dumpIdent(b, x.IndexIdent)
		b.WriteByte(' ')
		dumpExpr(b, x.Iterable)
		b.WriteByte(' ')
		dumpStmt(b, x.Body)
		b.WriteByte(')')
	default:
		panic(fmt.Sprintf("unknown statement node %T", s))
	}
}
