module jqh

go 1.22.0

require github.com/alligator/jqawk v0.0.0

require (
	github.com/mattn/go-isatty v0.0.17
	golang.org/x/tools v0.27.0
)

require (
	golang.org/x/mod v0.22.0 // indirect
	golang.org/x/sync v0.9.0 // indirect
	golang.org/x/sys v0.27.0 // indirect
)

replace github.com/alligator/jqawk => /repo
