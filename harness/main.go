// jqh: ground-truth side of the jqawk differential test. See PROTOCOL.md.
//
// Usage: jqh <casefile>. One `RES <id> ...` line per case, flushed immediately.
package main

import (
	"bufio"
	"encoding/hex"
	"encoding/json"
	"errors"
	"fmt"
	"io"
	"os"
	"reflect"
	"strconv"
	"strings"
	"sync"
	"time"

	lang "github.com/alligator/jqawk/src"
)

const caseTimeout = 10 * time.Second

// ---------------------------------------------------------------- case-line fields

// badCase is panicked by the field cursor on any malformed case line.
type badCase struct{}

func bad() { panic(badCase{}) }

type cursor struct {
	f []string
	i int
}

func (c *cursor) next() string {
	if c.i >= len(c.f) || c.f[c.i] == "" {
		bad()
	}
	c.i++
	return c.f[c.i-1]
}

func (c *cursor) end() {
	if c.i != len(c.f) {
		bad()
	}
}

func (c *cursor) hex() string {
	s := c.next()
	if s == "-" {
		return ""
	}
	b, err := hex.DecodeString(s)
	if err != nil {
		bad()
	}
	return string(b)
}

func (c *cursor) int64() int64 {
	n, err := strconv.ParseInt(c.next(), 10, 64)
	if err != nil {
		bad()
	}
	return n
}

// count reads a non-negative decimal that is used as a repetition count.
func (c *cursor) count() int {
	n := c.int64()
	if n < 0 {
		bad()
	}
	return int(n)
}

func (c *cursor) bit() bool {
	switch c.next() {
	case "0":
		return false
	case "1":
		return true
	}
	bad()
	return false
}

func (c *cursor) f64() float64 {
	s := c.next()
	u, err := strconv.ParseUint(s, 16, 64)
	if len(s) != 16 || err != nil {
		bad()
	}
	return f64frombits(u)
}

// chunks reads `<fail:0|1> <nchunks> <chunk>{nchunks}`.
func (c *cursor) chunks() (fail bool, chunks []string) {
	fail = c.bit()
	n := c.count()
	for i := 0; i < n; i++ {
		chunks = append(chunks, c.hex())
	}
	return
}

// hx encodes a byte string as a protocol field.
func hx(s string) string {
	if s == "" {
		return "-"
	}
	return hex.EncodeToString([]byte(s))
}

func join(items []string) string {
	if len(items) == 0 {
		return "-"
	}
	return strings.Join(items, ",")
}

// ---------------------------------------------------------------- scripted I/O

var errSimulated = errors.New("simulated read failure")

// ioLog is the stdout writer of a run and the shared event log of its readers.
type ioLog struct {
	mu  sync.Mutex
	ev  []string
	out []byte
}

func (l *ioLog) add(e string) {
	l.mu.Lock()
	l.ev = append(l.ev, e)
	l.mu.Unlock()
}

func (l *ioLog) Write(p []byte) (int, error) {
	l.mu.Lock()
	l.out = append(l.out, p...)
	l.ev = append(l.ev, "W"+strconv.Itoa(len(p)))
	l.mu.Unlock()
	return len(p), nil
}

// fields returns the `<stdout>` and `<iolog>` protocol fields (safe while a leaked run is still going).
func (l *ioLog) fields() (stdout, iolog string) {
	l.mu.Lock()
	defer l.mu.Unlock()
	return hx(string(l.out)), join(l.ev)
}

// chunkReader hands out one chunk per Read; a short buffer gets a prefix and the rest stays pending.
type chunkReader struct {
	log    *ioLog
	chunks []string
	fail   bool
}

func (r *chunkReader) Read(p []byte) (int, error) {
	if len(r.chunks) == 0 {
		if r.fail {
			r.log.add("RX")
			return 0, errSimulated
		}
		r.log.add("RE")
		return 0, io.EOF
	}
	n := copy(p, r.chunks[0])
	if n == len(r.chunks[0]) {
		r.chunks = r.chunks[1:]
	} else {
		r.chunks[0] = r.chunks[0][n:]
	}
	r.log.add("R" + strconv.Itoa(n))
	return n, nil
}

// ---------------------------------------------------------------- errors, timeouts

// classify maps an error to `<outcome> <line> <col> <srcline>`.
func classify(err error) (outcome, pos string) {
	switch e := err.(type) {
	case nil:
		return "ok", "0 0 -"
	case lang.SyntaxError:
		return "syntax", fmt.Sprintf("%d %d %s", e.Line, e.Col, hx(e.SrcLine))
	case lang.RuntimeError:
		return "runtime", fmt.Sprintf("%d %d %s", e.Line, e.Col, hx(e.SrcLine))
	case lang.JsonError:
		return "json", "0 0 -"
	}
	return "raw", "0 0 -"
}

// guarded runs fn in a goroutine; abnormal(kind) builds the result for kind "panic" / "timeout".
// On timeout the goroutine is leaked.
func guarded(fn func() string, abnormal func(kind string) string) string {
	ch := make(chan string, 1)
	go func() {
		defer func() {
			if r := recover(); r != nil {
				ch <- abnormal("panic")
			}
		}()
		ch <- fn()
	}()
	select {
	case s := <-ch:
		return s
	case <-time.After(caseTimeout):
		return abnormal("timeout")
	}
}

// ---------------------------------------------------------------- RUN / EXPR

func stackDepth(ev *lang.Evaluator) int64 {
	if ev == nil {
		return -1
	}
	st := reflect.ValueOf(ev).Elem().FieldByName("stackTop")
	if !st.IsValid() || st.Kind() != reflect.Ptr || st.IsNil() {
		return -1
	}
	return st.Elem().FieldByName("depth").Int()
}

func rootJSON(ev *lang.Evaluator) (res string) {
	defer func() {
		if r := recover(); r != nil {
			res = "P"
		}
	}()
	s, err := ev.GetRootJson()
	if err != nil {
		return "!"
	}
	return hx(s)
}

func doRun(c *cursor) string {
	fuzz := c.bit()
	prog := c.hex()
	sels := []string{}
	for n := c.count(); n > 0; n-- {
		sels = append(sels, c.hex())
	}
	log := &ioLog{}
	files := []lang.InputFile{}
	for n := c.count(); n > 0; n-- {
		name := c.hex()
		fail, chunks := c.chunks()
		files = append(files, lang.InputFile{Name: name, Reader: &chunkReader{log, chunks, fail}})
	}
	c.end()
	return guarded(func() string {
		ev, err := lang.EvalProgram(prog, files, sels, log, fuzz)
		outcome, pos := classify(err)
		js := "~"
		if outcome == "ok" {
			js = rootJSON(ev)
		}
		stdout, iolog := log.fields()
		return fmt.Sprintf("%s %s %s %s %d %s", outcome, pos, stdout, js, stackDepth(ev), iolog)
	}, func(kind string) string {
		stdout, iolog := log.fields()
		return fmt.Sprintf("%s 0 0 - %s ~ -1 %s", kind, stdout, iolog)
	})
}

func doExpr(c *cursor) string {
	src, rootText := c.hex(), c.hex()
	c.end()
	var root any
	if rootText != "" {
		if err := json.Unmarshal([]byte(rootText), &root); err != nil {
			bad()
		}
	}
	log := &ioLog{}
	return guarded(func() string {
		cell, err := lang.EvalExpression(src, root, log)
		outcome, pos := classify(err)
		pretty := "~"
		if outcome == "ok" {
			pretty = "nil"
			if cell != nil {
				pretty = hx(cell.Value.PrettyString(false))
			}
		}
		stdout, _ := log.fields()
		return fmt.Sprintf("%s %s %s %s", outcome, pos, stdout, pretty)
	}, func(kind string) string {
		stdout, _ := log.fields()
		return fmt.Sprintf("%s 0 0 - %s ~", kind, stdout)
	})
}

// ---------------------------------------------------------------- LEX / PARSE / LINECOL

func doLex(c *cursor) (res string) {
	src := c.hex()
	c.end()
	var toks []string
	defer func() {
		if r := recover(); r != nil {
			res = join(toks) + " panic 0 0 -"
		}
	}()
	l := lang.NewLexer(src)
	for {
		t, err := l.Next()
		toks = append(toks, fmt.Sprintf("%d:%d:%d", int(t.Tag), t.Pos, t.Len))
		if err != nil || t.Tag == lang.EOF {
			status, pos := classify(err)
			return join(toks) + " " + status + " " + pos
		}
	}
}

func doParse(c *cursor, exprOnly bool) (res string) {
	src := c.hex()
	c.end()
	defer func() {
		if r := recover(); r != nil {
			res = "panic 0 0 - -"
		}
	}()
	lex := lang.NewLexer(src)
	p := lang.NewParser(&lex)
	var b strings.Builder
	var err error
	if exprOnly {
		var e lang.Expr
		if e, err = p.ParseExpression(); err == nil {
			dumpExpr(&b, e)
		}
	} else {
		var prog lang.Program
		if prog, err = p.Parse(); err == nil {
			dumpProgram(&b, &prog)
		}
	}
	status, pos := classify(err)
	if err != nil {
		return status + " " + pos + " -"
	}
	return status + " " + pos + " " + hx(b.String())
}

func doLineCol(c *cursor) string {
	src := c.hex()
	pos := c.int64()
	c.end()
	l := lang.NewLexer(src)
	srcLine, line, col := l.GetLineAndCol(int(pos))
	return fmt.Sprintf("%d %d %s", line, col, hx(srcLine))
}

// ---------------------------------------------------------------- case dispatch

func runCase(line string) (res string) {
	f := strings.Split(line, " ")
	id := "?"
	if len(f) >= 2 && f[1] != "" {
		id = f[1]
	}
	defer func() {
		if r := recover(); r != nil {
			if _, ok := r.(badCase); ok {
				res = "RES " + id + " badcase"
			} else {
				res = "RES " + id + " panic"
			}
		}
	}()
	if id == "?" {
		bad()
	}
	c := &cursor{f: f[2:]}
	var out string
	switch f[0] {
	case "RUN":
		out = doRun(c)
	case "EXPR":
		out = doExpr(c)
	case "LEX":
		out = doLex(c)
	case "PARSE":
		out = doParse(c, false)
	case "PARSEEXPR":
		out = doParse(c, true)
	case "LINECOL":
		out = doLineCol(c)
	case "PARSEF":
		out = doParseF(c)
	case "FMTF":
		out = doFmtF(c)
	case "FMTJ":
		out = doFmtJ(c)
	case "FOP":
		out = doFop(c)
	case "CAP":
		out = doCap(c)
	case "JSONDEC":
		out = doJSONDec(c)
	case "JSONENC":
		out = doJSONEnc(c)
	case "REGEX":
		out = doRegex(c)
	case "STRFN":
		out = doStrFn(c)
	case "CAPFROM":
		out = doCapFrom(c)
	case "SORTF":
		out = doSortF(c)
	default:
		out = "unsupported"
	}
	return "RES " + id + " " + out
}

func main() {
	if len(os.Args) != 2 {
		fmt.Fprintln(os.Stderr, "usage: jqh <casefile>")
		os.Exit(2)
	}
	file, err := os.Open(os.Args[1])
	if err != nil {
		fmt.Fprintln(os.Stderr, "jqh:", err)
		os.Exit(2)
	}
	defer file.Close()
	in := bufio.NewReaderSize(file, 1<<20) // ReadString has no line-length limit
	for {
		line, err := in.ReadString('\n')
		line = strings.TrimRight(line, "\r\n")
		if line != "" && line[0] != '#' {
			// Unbuffered write: the result is visible before the next case starts.
			os.Stdout.WriteString(runCase(line) + "\n")
		}
		if err != nil {
			if err != io.EOF {
				fmt.Fprintln(os.Stderr, "jqh:", err)
				os.Exit(2)
			}
			return
		}
	}
}
