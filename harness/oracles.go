package main

// Standard-library oracles: float parsing/formatting/arithmetic, slice growth, encoding/json.

import (
	"cmp"
	"encoding/json"
	"errors"
	"fmt"
	"io"
	"math"
	"regexp"
	"slices"
	"strconv"
	"strings"

	lang "github.com/alligator/jqawk/src"
)

func f64frombits(u uint64) float64 { return math.Float64frombits(u) }

// bits prints a float as 16 hex digits, every NaN as the canonical 7ff8000000000001.
func bits(x float64) string {
	if x != x {
		return "7ff8000000000001"
	}
	return fmt.Sprintf("%016x", math.Float64bits(x))
}

func flag(b bool) string {
	if b {
		return "1"
	}
	return "0"
}

func doParseF(c *cursor) string {
	s := c.hex()
	c.end()
	x, err := strconv.ParseFloat(s, 64)
	switch {
	case err == nil:
		return "ok " + bits(x)
	case errors.Is(err, strconv.ErrRange):
		return "range " + bits(x)
	}
	return "syntax"
}

func doFmtF(c *cursor) string {
	x := c.f64()
	c.end()
	return hx(strconv.FormatFloat(x, 'f', -1, 64))
}

func doFmtJ(c *cursor) string {
	x := c.f64()
	c.end()
	b, err := json.Marshal(x)
	if err != nil {
		return "!"
	}
	return hx(string(b))
}

func doFop(c *cursor) string {
	op := c.next()
	switch op {
	case "ofint":
		n := c.int64()
		c.end()
		return bits(float64(int(n)))
	case "mod":
		a, b := c.int64(), c.int64()
		c.end()
		if b == 0 {
			bad()
		}
		return strconv.Itoa(int(a) % int(b))
	case "neg", "floor", "ceil", "round", "trunc":
		x := c.f64()
		c.end()
		switch op {
		case "neg":
			return bits(-x)
		case "floor":
			return bits(math.Floor(x))
		case "ceil":
			return bits(math.Ceil(x))
		case "round":
			return bits(math.Round(x))
		}
		return strconv.FormatInt(int64(int(x)), 10) // trunc: Go's run-time float->int conversion
	case "add", "sub", "mul", "div", "lt", "eq", "gt":
		x, y := c.f64(), c.f64()
		c.end()
		switch op {
		case "add":
			return bits(x + y)
		case "sub":
			return bits(x - y)
		case "mul":
			return bits(x * y)
		case "div":
			return bits(x / y)
		case "lt":
			return flag(x < y)
		case "eq":
			return flag(x == y)
		}
		return flag(x > y)
	}
	bad()
	return ""
}

func doCap(c *cursor) string {
	n := c.count()
	c.end()
	cell := &lang.Cell{}
	s := make([]*lang.Cell, 0)
	var changes []string
	last := cap(s)
	for i := 0; i < n; i++ {
		s = append(s, cell)
		if cap(s) != last {
			last = cap(s)
			changes = append(changes, fmt.Sprintf("%d:%d", len(s), cap(s)))
		}
	}
	return join(changes)
}

func doJSONDec(c *cursor) string {
	fail, chunks := c.chunks()
	c.end()
	d := json.NewDecoder(&chunkReader{&ioLog{}, chunks, fail})
	var events []string
	for {
		var v any
		err := d.Decode(&v)
		if err == io.EOF {
			events = append(events, "EOF")
			break
		}
		if err != nil {
			events = append(events, "ERR")
			break
		}
		if b, err := json.Marshal(v); err != nil {
			events = append(events, "V!")
		} else {
			events = append(events, "V"+hx(string(b)))
		}
	}
	return join(events)
}

func doJSONEnc(c *cursor) string {
	text := c.hex()
	c.end()
	var v any
	if err := json.Unmarshal([]byte(text), &v); err != nil {
		return "!"
	}
	b, err := json.MarshalIndent(v, "", "  ")
	if err != nil {
		return "!"
	}
	return hx(string(b))
}

// REGEX <id> <pattern> <subject> -> m1 | m0 | bad   (regexp.Compile + MatchString)
func doRegex(c *cursor) string {
	pat := c.hex()
	subj := c.hex()
	c.end()
	re, err := regexp.Compile(pat)
	if err != nil {
		return "bad"
	}
	if re.MatchString(subj) {
		return "m1"
	}
	return "m0"
}

// STRFN <id> <fn> <s> [<sep>] -> hex | comma-separated hex pieces
// fn: upper lower (strings.ToUpper/ToLower), split (strings.Split(s, sep)),
// runes (for i, r := range s: comma separated "<offset>:<hex of string(r)>")
func doStrFn(c *cursor) string {
	fn := c.next()
	s := c.hex()
	switch fn {
	case "upper":
		c.end()
		return hx(strings.ToUpper(s))
	case "lower":
		c.end()
		return hx(strings.ToLower(s))
	case "split":
		sep := c.hex()
		c.end()
		parts := strings.Split(s, sep)
		out := make([]string, len(parts))
		for i, p := range parts {
			out[i] = hx(p)
		}
		return join(out)
	case "runes":
		c.end()
		var out []string
		for i, r := range s {
			out = append(out, fmt.Sprintf("%d:%s", i, hx(string(r))))
		}
		return join(out)
	}
	bad()
	return ""
}

// CAPFROM <id> <n> -> capacity after appending one cell to make([]*Cell, n, n)
// (the growth step from an exactly-sized slice, e.g. an array literal or decoded array)
func doCapFrom(c *cursor) string {
	n := c.count()
	c.end()
	s := make([]*lang.Cell, n, n)
	s = append(s, &lang.Cell{})
	return fmt.Sprintf("%d", cap(s))
}

// SORTF <id> <bits16hex>,... -> the same numbers sorted with slices.SortStableFunc + cmp.Compare
func doSortF(c *cursor) string {
	f := c.next()
	c.end()
	var xs []float64
	if f != "-" {
		for _, h := range strings.Split(f, ",") {
			u, err := strconv.ParseUint(h, 16, 64)
			if err != nil || len(h) != 16 {
				bad()
			}
			xs = append(xs, math.Float64frombits(u))
		}
	}
	slices.SortStableFunc(xs, func(a, b float64) int { return cmp.Compare(a, b) })
	out := make([]string, len(xs))
	for i, x := range xs {
		out[i] = bits(x)
	}
	return join(out)
}
