package main

// Standard-library oracles: float parsing/formatting/arithmetic, slice growth, encoding/json.

import (
	"encoding/json"
	"errors"
	"fmt"
	"io"
	"math"
	"strconv"

	lang "github.com/alligator/jqawk/src"
)

func f64frombits(u uint64) float64 { return math.Float64frombits(u) }

// bits prints a float as 16 hex digits, every NaN as the canonical 7ff8000000000001.
func bits(x float64) string {
	if x != x {
		return "7ff8000000000001"
	}
	return fmt.Sprintf("%016x", math.Float64bits(x))
}

func flag(b bool) string {
	if b {
		return "1"
	}
	return "0"
}

func doParseF(c *cursor) string {
	s := c.hex()
	c.end()
	x, err := strconv.ParseFloat(s, 64)
	switch {
	case err == nil:
		return "ok " + bits(x)
	case errors.Is(err, strconv.ErrRange):
		return "range " + bits(x)
	}
	return "syntax"
}

func doFmtF(c *cursor) string {
	x := c.f64()
	c.end()
	return hx(strconv.FormatFloat(x, 'f', -1, 64))
}

func doFmtJ(c *cursor) string {
	x := c.f64()
	c.end()
	b, err := json.Marshal(x)
	if err != nil {
		return "!"
	}
	return hx(string(b))
}

func doFop(c *cursor) string {
	op := c.next()
	switch op {
	case "ofint":
		n := c.int64()
		c.end()
		return bits(float64(int(n)))
	case "mod":
		a, b := c.int64(), c.int64()
		c.end()
		if b == 0 {
			bad()
		}
		return strconv.Itoa(int(a) % int(b))
	case "neg", "floor", "ceil", "round", "trunc":
		x := c.f64()
		c.end()
		switch op {
		case "neg":
			return bits(-x)
		case "floor":
			return bits(math.Floor(x))
		case "ceil":
			return bits(math.Ceil(x))
		case "round":
			return bits(math.Round(x))
		}
		return strconv.FormatInt(int64(int(x)), 10) // trunc: Go's run-time float->int conversion
	case "add", "sub", "mul", "div", "lt", "eq", "gt":
		x, y := c.f64(), c.f64()
		c.end()
		switch op {
		case "add":
			return bits(x + y)
		case "sub":
			return bits(x - y)
		case "mul":
			return bits(x * y)
		case "div":
			return bits(x / y)
		case "lt":
			return flag(x < y)
		case "eq":
			return flag(x == y)
		}
		return flag(x > y)
	}
	bad()
	return ""
}

func doCap(c *cursor) string {
	n := c.count()
	c.end()
	cell := &lang.Cell{}
	s := make([]*lang.Cell, 0)
	var changes []string
	last := cap(s)
	for i := 0; i < n; i++ {
		s = append(s, cell)
		if cap(s) != last {
			last = cap(s)
			changes = append(changes, fmt.Sprintf("%d:%d", len(s), cap(s)))
		}
	}
	return join(changes)
}

func doJSONDec(c *cursor) string {
	fail, chunks := c.chunks()
	c.end()
	d := json.NewDecoder(&chunkReader{&ioLog{}, chunks, fail})
	var events []string
	for {
		var v any
		err := d.Decode(&v)
		if err == io.EOF {
			events = append(events, "EOF")
			break
		}
		if err != nil {
			events = append(events, "ERR")
			break
		}
		if b, err := json.Marshal(v); err != nil {
			events = append(events, "V!")
		} else {
			events = append(events, "V"+hx(string(b)))
		}
	}
	return join(events)
}

func doJSONEnc(c *cursor) string {
	text := c.hex()
	c.end()
	var v any
	if err := json.Unmarshal([]byte(text), &v); err != nil {
		return "!"
	}
	b, err := json.MarshalIndent(v, "", "  ")
	if err != nil {
		return "!"
	}
	return hx(string(b))
}
