(* jqmodel: runs the extracted Coq model on a case file (harness/PROTOCOL.md).
   This driver only does I/O: hex decoding, conversion between OCaml ints and the extracted
   nat / N / Z / positive inductives, and printing of results (tokens, S-expressions). *)
open Jqmodel

(* ---------- conversions ---------- *)
let rec nat_of_int n = if n <= 0 then O else S (nat_of_int (n - 1))
let nat_of_int n =
  (* tail-recursive to survive large fuel values *)
  let rec go acc k = if k <= 0 then acc else go (S acc) (k - 1) in
  ignore nat_of_int; go O n
let int_of_nat n = let rec go acc = function O -> acc | S m -> go (acc + 1) m in go 0 n
let rec int_of_pos = function
  | XH -> 1 | XO p -> 2 * int_of_pos p | XI p -> 2 * int_of_pos p + 1
let rec pos_of_int n =
  if n <= 1 then XH else if n land 1 = 0 then XO (pos_of_int (n lsr 1)) else XI (pos_of_int (n lsr 1))
let n_of_int n = if n = 0 then N0 else Npos (pos_of_int n)
let int_of_n = function N0 -> 0 | Npos p -> int_of_pos p
let int_of_z = function Z0 -> 0 | Zpos p -> int_of_pos p | Zneg p -> - (int_of_pos p)
let z_of_int n = if n = 0 then Z0 else if n > 0 then Zpos (pos_of_int n) else Zneg (pos_of_int (-n))

(* arbitrary precision decimal <-> Z for int64 boundary values *)
let z_of_decimal (s : Stdlib.String.t) : z =
  let neg = Stdlib.String.length s > 0 && s.[0] = '-' in
  let digits = if neg || (Stdlib.String.length s > 0 && s.[0] = '+') then Stdlib.String.sub s 1 (Stdlib.String.length s - 1) else s in
  let ten = z_of_int 10 in
  let acc = ref Z0 in
  Stdlib.String.iter (fun c -> acc := Z.add (Z.mul !acc ten) (z_of_int (Stdlib.Char.code c - 48))) digits;
  if neg then Z.opp !acc else !acc
let decimal_of_z (z : z) : Stdlib.String.t =
  let ten = z_of_int 10 in
  let rec go z acc =
    if z = Z0 then acc
    else
      let q = Z.div z ten and r = Z.modulo z ten in
      go q (string_of_int (int_of_z r) ^ acc) in
  match z with
  | Z0 -> "0"
  | Zpos _ -> go z ""
  | Zneg _ -> "-" ^ go (Z.opp z) ""

(* 64-bit patterns as N, via hex strings *)
let n_of_hex (s : Stdlib.String.t) : n =
  let acc = ref N0 in
  let sixteen = n_of_int 16 in
  Stdlib.String.iter (fun c ->
    let d = match c with
      | '0'..'9' -> Stdlib.Char.code c - 48 | 'a'..'f' -> Stdlib.Char.code c - 87 | 'A'..'F' -> Stdlib.Char.code c - 55
      | _ -> failwith "hex" in
    acc := N.add (N.mul !acc sixteen) (n_of_int d)) s;
  !acc
let hex16_of_n (v : n) : Stdlib.String.t =
  let sixteen = n_of_int 16 in
  let rec go v k acc =
    if k = 0 then acc
    else
      let q = N.div v sixteen and r = N.modulo v sixteen in
      go q (k - 1) (Stdlib.String.make 1 "0123456789abcdef".[int_of_n r] ^ acc) in
  go v 16 ""

(* ---------- hex / bytes ---------- *)
let bytes_of_hex (s : Stdlib.String.t) : n list =
  if s = "-" then []
  else begin
    let len = Stdlib.String.length s / 2 in
    let hv c = match c with
      | '0'..'9' -> Stdlib.Char.code c - 48 | 'a'..'f' -> Stdlib.Char.code c - 87 | 'A'..'F' -> Stdlib.Char.code c - 55
      | _ -> failwith "hex" in
    let rec go i acc = if i < 0 then acc else go (i - 1) (n_of_int (hv s.[2*i] * 16 + hv s.[2*i+1]) :: acc) in
    go (len - 1) []
  end
let hex_of_bytes (b : n list) : Stdlib.String.t =
  match b with
  | [] -> "-"
  | _ ->
    let buf = Stdlib.Buffer.create 64 in
    Stdlib.List.iter (fun x -> Stdlib.Buffer.add_string buf (Stdlib.Printf.sprintf "%02x" (int_of_n x))) b;
    Stdlib.Buffer.contents buf
let hex_of_string (s : Stdlib.String.t) : Stdlib.String.t =
  if s = "" then "-" else begin
    let buf = Stdlib.Buffer.create 64 in
    Stdlib.String.iter (fun c -> Stdlib.Buffer.add_string buf (Stdlib.Printf.sprintf "%02x" (Stdlib.Char.code c))) s;
    Stdlib.Buffer.contents buf
  end

(* ---------- printing ---------- *)
let tagi t = int_of_nat (tag_index t)
let tok_str (t : token) = Stdlib.Printf.sprintf "%d:%d:%d" (tagi t.ttag) (int_of_nat t.tpos) (int_of_nat t.tlen)

let kind_index = function
  | BeginRule -> 0 | EndRule -> 1 | BeginFileRule -> 2 | EndFileRule -> 3 | PatternRule -> 4

let rec sexpr_expr (b : Stdlib.Buffer.t) (e : expr) : unit =
  let p = Stdlib.Buffer.add_string b in
  match e with
  | ELit t -> p (Stdlib.Printf.sprintf "(lit %d %d %d)" (tagi t.ttag) (int_of_nat t.tpos) (int_of_nat t.tlen))
  | EId t -> p (Stdlib.Printf.sprintf "(id %d %d %d)" (tagi t.ttag) (int_of_nat t.tpos) (int_of_nat t.tlen))
  | EArr (t, items) ->
    p (Stdlib.Printf.sprintf "(arr %d" (int_of_nat t.tpos));
    Stdlib.List.iter (fun x -> p " "; sexpr_expr b x) items; p ")"
  | EObj (t, items) ->
    p (Stdlib.Printf.sprintf "(obj %d" (int_of_nat t.tpos));
    Stdlib.List.iter (fun (k, v) -> p " (kv "; p (hex_of_bytes k); p " "; sexpr_expr b v; p ")") items; p ")"
  | EUn (x, op, pf) ->
    p (Stdlib.Printf.sprintf "(un %d %d %d " (tagi op.ttag) (int_of_nat op.tpos) (if pf then 1 else 0));
    sexpr_expr b x; p ")"
  | EBin (l, r, op) ->
    p (Stdlib.Printf.sprintf "(bin %d %d %d " (tagi op.ttag) (int_of_nat op.tpos) (int_of_nat op.tlen));
    sexpr_expr b l; p " "; sexpr_expr b r; p ")"
  | ECall (f, args) ->
    p "(call "; sexpr_expr b f;
    Stdlib.List.iter (fun x -> p " "; sexpr_expr b x) args; p ")"
  | EMatch (t, v, cases) ->
    p (Stdlib.Printf.sprintf "(match %d " (int_of_nat t.tpos)); sexpr_expr b v;
    Stdlib.List.iter (fun (pats, body) ->
      p " (case (pats"; Stdlib.List.iter (fun x -> p " "; sexpr_expr b x) pats; p ") ";
      sexpr_stmt b body; p ")") cases;
    p ")"
and sexpr_stmt (b : Stdlib.Buffer.t) (s : stmt) : unit =
  let p = Stdlib.Buffer.add_string b in
  match s with
  | SBlock (t, body) ->
    p (Stdlib.Printf.sprintf "(block %d" (int_of_nat t.tpos));
    Stdlib.List.iter (fun x -> p " "; sexpr_stmt b x) body; p ")"
  | SPrint (t, args) ->
    p (Stdlib.Printf.sprintf "(print %d %d" (tagi t.ttag) (int_of_nat t.tpos));
    Stdlib.List.iter (fun x -> p " "; sexpr_expr b x) args; p ")"
  | SExpr e -> p "(expr "; sexpr_expr b e; p ")"
  | SReturn (Some e) -> p "(return "; sexpr_expr b e; p ")"
  | SReturn None -> p "(return)"
  | SBreak t -> p (Stdlib.Printf.sprintf "(break %d)" (int_of_nat t.tpos))
  | SContinue t -> p (Stdlib.Printf.sprintf "(continue %d)" (int_of_nat t.tpos))
  | SNext t -> p (Stdlib.Printf.sprintf "(next %d)" (int_of_nat t.tpos))
  | SExit t -> p (Stdlib.Printf.sprintf "(exit %d)" (int_of_nat t.tpos))
  | SIf (c, body, els) ->
    p "(if "; sexpr_expr b c; p " "; sexpr_stmt b body; p " ";
    (match els with Some e -> sexpr_stmt b e | None -> p "nil"); p ")"
  | SWhile (c, body) -> p "(while "; sexpr_expr b c; p " "; sexpr_stmt b body; p ")"
  | SFor (a, c, post, body) ->
    p "(for "; sexpr_expr b a; p " "; sexpr_expr b c; p " "; sexpr_expr b post; p " "; sexpr_stmt b body; p ")"
  | SForIn (id, ix, it, body) ->
    p "(forin "; sexpr_expr b (EId id); p " ";
    (match ix with Some t -> sexpr_expr b (EId t) | None -> p "nil");
    p " "; sexpr_expr b it; p " "; sexpr_stmt b body; p ")"

let sexpr_prog (pr : program) : Stdlib.String.t =
  let b = Stdlib.Buffer.create 256 in
  let p = Stdlib.Buffer.add_string b in
  p "(prog (rules";
  Stdlib.List.iter (fun r ->
    p (Stdlib.Printf.sprintf " (rule %d " (kind_index r.rkind));
    (match r.rpattern with Some e -> sexpr_expr b e | None -> p "nil");
    p " "; sexpr_stmt b r.rbody; p ")") pr.prules;
  p ") (fns";
  Stdlib.List.iter (fun f ->
    p (Stdlib.Printf.sprintf " (fn %d %d (params" (int_of_nat f.fident.tpos) (int_of_nat f.fident.tlen));
    Stdlib.List.iter (fun s -> p " "; p (hex_of_bytes s)) f.fparams;
    p ") "; sexpr_stmt b f.fbody; p ")") pr.pfuncs;
  p "))";
  Stdlib.Buffer.contents b

let linecol_fields (src : n list) (pos : nat) : Stdlib.String.t =
  let ((text, line), col) = get_line_col src pos in
  Stdlib.Printf.sprintf "%d %d %s" (int_of_nat line) (int_of_z col) (hex_of_bytes text)

(* ---------- cases ---------- *)
let canon_bits (f : spec_float) : Stdlib.String.t = hex16_of_n (f_bits f)

let big_fuel = lazy (nat_of_int 3000000)

(* hex of all bytes written to stdout: the IoWrite chunks of the (newest-first) log, oldest first.
   Same function as the model's [output_of], computed here because Coq's [rev] is quadratic. *)
let hex_of_output (log : io_event list) : Stdlib.String.t =
  let buf = Stdlib.Buffer.create 256 in
  Stdlib.List.iter (function
    | IoWrite b -> Stdlib.List.iter (fun x -> Stdlib.Buffer.add_string buf (Stdlib.Printf.sprintf "%02x" (int_of_n x))) b
    | _ -> ()) (Stdlib.List.rev log);
  if Stdlib.Buffer.length buf = 0 then "-" else Stdlib.Buffer.contents buf

let run_case (fields : Stdlib.String.t list) : Stdlib.String.t =
  match fields with
  | "LEX" :: id :: src :: [] ->
    let s = bytes_of_hex src in
    let (toks, err) = lex_all s in
    let ts = match toks with [] -> "-" | _ -> Stdlib.String.concat "," (Stdlib.List.map tok_str toks) in
    (match err with
     | None -> Stdlib.Printf.sprintf "RES %s %s ok 0 0 -" id ts
     | Some pos -> Stdlib.Printf.sprintf "RES %s %s syntax %s" id ts (linecol_fields s pos))
  | ("PARSE" | "PARSEEXPR") as k :: id :: src :: [] ->
    let s = bytes_of_hex src in
    let fin res = match res with
      | `Ok str -> Stdlib.Printf.sprintf "RES %s ok 0 0 - %s" id (hex_of_string str)
      | `Err pos -> Stdlib.Printf.sprintf "RES %s syntax %s -" id (linecol_fields s pos)
      | `Fuel -> Stdlib.Printf.sprintf "RES %s fuel 0 0 - -" id
      | `Panic -> Stdlib.Printf.sprintf "RES %s panic 0 0 - -" id in
    if k = "PARSE" then
      fin (match parse_program s with
          | POk (pr, _) -> `Ok (sexpr_prog pr) | PErr pos -> `Err pos | PFuel -> `Fuel | PPanic -> `Panic)
    else
      fin (match parse_expression_src s with
          | POk (e, _) -> let b = Stdlib.Buffer.create 64 in sexpr_expr b e; `Ok (Stdlib.Buffer.contents b)
          | PErr pos -> `Err pos | PFuel -> `Fuel | PPanic -> `Panic)
  | "LINECOL" :: id :: src :: pos :: [] ->
    Stdlib.Printf.sprintf "RES %s %s" id (linecol_fields (bytes_of_hex src) (nat_of_int (int_of_string pos)))
  | "PARSEF" :: id :: str :: [] ->
    (match parse_float (bytes_of_hex str) with
     | PFok f -> Stdlib.Printf.sprintf "RES %s ok %s" id (canon_bits f)
     | PFrange f -> Stdlib.Printf.sprintf "RES %s range %s" id (canon_bits f)
     | PFsyntax -> Stdlib.Printf.sprintf "RES %s syntax" id
     | PFunsupported -> Stdlib.Printf.sprintf "RES %s unsupported" id)
  | "FMTF" :: id :: bits :: [] ->
    Stdlib.Printf.sprintf "RES %s %s" id (hex_of_bytes (format_f (f_of_bits (n_of_hex bits))))
  | "FMTJ" :: id :: bits :: [] ->
    (match format_json (f_of_bits (n_of_hex bits)) with
     | Some b -> Stdlib.Printf.sprintf "RES %s %s" id (hex_of_bytes b)
     | None -> Stdlib.Printf.sprintf "RES %s !" id)
  | "FOP" :: id :: op :: args ->
    let fb s = f_of_bits (n_of_hex s) in
    let b01 b = if b then "1" else "0" in
    let r = match op, args with
      | "add", [a; b] -> canon_bits (f_add (fb a) (fb b))
      | "sub", [a; b] -> canon_bits (f_sub (fb a) (fb b))
      | "mul", [a; b] -> canon_bits (f_mul (fb a) (fb b))
      | "div", [a; b] -> canon_bits (f_div (fb a) (fb b))
      | "neg", [a] -> canon_bits (f_neg (fb a))
      | "floor", [a] -> canon_bits (f_floor (fb a))
      | "ceil", [a] -> canon_bits (f_ceil (fb a))
      | "round", [a] -> canon_bits (f_round (fb a))
      | "lt", [a; b] -> b01 (f_ltb (fb a) (fb b))
      | "eq", [a; b] -> b01 (f_eqb (fb a) (fb b))
      | "gt", [a; b] -> b01 (f_gtb (fb a) (fb b))
      | "trunc", [a] -> decimal_of_z (f_trunc_int64 (fb a))
      | "ofint", [a] -> canon_bits (f_of_Z (z_of_decimal a))
      | _ -> "unsupported" in
    Stdlib.Printf.sprintf "RES %s %s" id r

  | "RUN" :: id :: fuzz :: prog :: rest ->
    (* RUN <id> <fuzz> <prog> <nsel> <sel>* <nfiles> (<name> <fail> <nchunks> <chunk>* )* *)
    let rest = ref rest in
    let next () = match !rest with x :: r -> rest := r; x | [] -> failwith "fields" in
    let nsel = int_of_string (next ()) in
    let sels = Stdlib.List.init nsel (fun _ -> bytes_of_hex (next ())) in
    let nfiles = int_of_string (next ()) in
    let files = Stdlib.List.init nfiles (fun _ ->
      let name = bytes_of_hex (next ()) in
      let fail = next () = "1" in
      let nch = int_of_string (next ()) in
      let chunks = Stdlib.List.init nch (fun _ -> bytes_of_hex (next ())) in
      (name, { chunks = chunks; fails = fail })) in
    if !rest <> [] then failwith "trailing";
    let res = eval_program (Stdlib.Lazy.force big_fuel) (bytes_of_hex prog) files sels (fuzz = "1") in
    let st = res.r_state in
    let iolog =
      let evs = Stdlib.List.filter (fun e -> match e with IoRaise | IoSignalAt _ -> false | _ -> true) (Stdlib.List.rev st.io) in
      match evs with
      | [] -> "-"
      | _ -> Stdlib.String.concat "," (Stdlib.List.map (function
          | IoWrite b -> Stdlib.Printf.sprintf "W%d" (Stdlib.List.length b)
          | IoRead k -> Stdlib.Printf.sprintf "R%d" (int_of_nat k)
          | IoReadEOF -> "RE"
          | IoReadFail -> "RX"
          | IoRaise | IoSignalAt _ -> "") evs) in
    let out = hex_of_output st.io in
    let errf (e : errinfo) = Stdlib.Printf.sprintf "%d %d %s" (int_of_nat e.eline) (int_of_z e.ecol) (hex_of_bytes e.esrcline) in
    let depth = int_of_nat (frame_depth st) in
    (match res.r_outcome with
     | OOk ->
       let j = match get_root_json st with
         | JsonText b -> hex_of_bytes b | JsonError -> "!" | JsonFuel -> "F" in
       Stdlib.Printf.sprintf "RES %s ok 0 0 - %s %s %d %s" id out j depth iolog
     | OSyntax e ->
       (* a syntax error of the PROGRAM returns no evaluator (depth -1); one of a selector does *)
       let d = if st.frames = [] then -1 else depth in
       Stdlib.Printf.sprintf "RES %s syntax %s %s ~ %d %s" id (errf e) out d iolog
     | ORuntime e -> Stdlib.Printf.sprintf "RES %s runtime %s %s ~ %d %s" id (errf e) out depth iolog
     | OJson -> Stdlib.Printf.sprintf "RES %s json 0 0 - %s ~ %d %s" id out depth iolog
     | ORaw -> Stdlib.Printf.sprintf "RES %s raw 0 0 - %s ~ %d %s" id out depth iolog
     | OPanic -> Stdlib.Printf.sprintf "RES %s panic 0 0 - %s ~ -1 %s" id out iolog
     | OFuel -> Stdlib.Printf.sprintf "RES %s fuel 0 0 - %s ~ -1 %s" id out iolog
     | OUnsupp -> Stdlib.Printf.sprintf "RES %s unsupported 0 0 - %s ~ -1 %s" id out iolog)
  | "EXPR" :: id :: src :: rootjson :: [] ->
    let doc = match bytes_of_hex rootjson with
      | [] -> Some JNull
      | b -> (match decode_next b with DValue (v, _) -> Some v | _ -> None) in
    (match doc with
     | None -> Stdlib.Printf.sprintf "RES %s badcase" id
     | Some doc ->
       let r = eval_expression_api (Stdlib.Lazy.force big_fuel) (bytes_of_hex src) doc in
       let out = hex_of_output r.x_state.io in
       let errf (e : errinfo) = Stdlib.Printf.sprintf "%d %d %s" (int_of_nat e.eline) (int_of_z e.ecol) (hex_of_bytes e.esrcline) in
       (match r.x_outcome with
        | OOk ->
          let p = match r.x_pretty with Some b -> hex_of_bytes b | None -> "F" in
          Stdlib.Printf.sprintf "RES %s ok 0 0 - %s %s" id out p
        | OSyntax e -> Stdlib.Printf.sprintf "RES %s syntax %s %s ~" id (errf e) out
        | ORuntime e -> Stdlib.Printf.sprintf "RES %s runtime %s %s ~" id (errf e) out
        | OJson -> Stdlib.Printf.sprintf "RES %s json 0 0 - %s ~" id out
        | ORaw -> Stdlib.Printf.sprintf "RES %s raw 0 0 - %s ~" id out
        | OPanic -> Stdlib.Printf.sprintf "RES %s panic 0 0 - %s ~" id out
        | OFuel -> Stdlib.Printf.sprintf "RES %s fuel 0 0 - %s ~" id out
        | OUnsupp -> Stdlib.Printf.sprintf "RES %s unsupported 0 0 - %s ~" id out))
  | "JSONDEC" :: id :: fail :: nch :: chunks ->
    let n = int_of_string nch in
    if Stdlib.List.length chunks <> n then failwith "chunks";
    let rd = { chunks = Stdlib.List.map bytes_of_hex chunks; fails = (fail = "1") } in
    let rec loop d acc k =
      if k = 0 then Stdlib.List.rev ("FUEL" :: acc) else
      let ((r, d'), _) = dec_step d in
      match r with
      | SValue v ->
        let h = match marshal_compact v with Some b -> hex_of_bytes b | None -> "!" in
        loop d' (("V" ^ h) :: acc) (k - 1)
      | SEof -> Stdlib.List.rev ("EOF" :: acc)
      | SErr -> Stdlib.List.rev ("ERR" :: acc)
      | SUnsupported -> Stdlib.List.rev ("UNSUPPORTED" :: acc) in
    Stdlib.Printf.sprintf "RES %s %s" id (Stdlib.String.concat "," (loop (dec_init rd) [] 100000))
  | "JSONENC" :: id :: js :: [] ->
    (match decode_next (bytes_of_hex js) with
     | DValue (v, _) ->
       (match marshal_indent v with
        | Some b -> Stdlib.Printf.sprintf "RES %s %s" id (hex_of_bytes b)
        | None -> Stdlib.Printf.sprintf "RES %s !" id)
     | _ -> Stdlib.Printf.sprintf "RES %s !" id)
  | "REGEX" :: id :: pat :: subj :: [] ->
    (match regex_match (bytes_of_hex pat) (bytes_of_hex subj) with
     | RxMatch true -> Stdlib.Printf.sprintf "RES %s m1" id
     | RxMatch false -> Stdlib.Printf.sprintf "RES %s m0" id
     | RxBadPattern -> Stdlib.Printf.sprintf "RES %s bad" id
     | RxUnsupported -> Stdlib.Printf.sprintf "RES %s unsupported" id)
  | "STRFN" :: id :: fn :: args ->
    let pieces l = match l with [] -> "-" | _ -> Stdlib.String.concat "," (Stdlib.List.map hex_of_bytes l) in
    (match fn, args with
     | "upper", [s] -> (match to_upper (bytes_of_hex s) with
         | CaseOk b -> Stdlib.Printf.sprintf "RES %s %s" id (hex_of_bytes b)
         | CaseUnsupported -> Stdlib.Printf.sprintf "RES %s unsupported" id)
     | "lower", [s] -> (match to_lower (bytes_of_hex s) with
         | CaseOk b -> Stdlib.Printf.sprintf "RES %s %s" id (hex_of_bytes b)
         | CaseUnsupported -> Stdlib.Printf.sprintf "RES %s unsupported" id)
     | "split", [s; sep] -> Stdlib.Printf.sprintf "RES %s %s" id (pieces (split (bytes_of_hex s) (bytes_of_hex sep)))
     | "runes", [s] ->
       let rs = runes (bytes_of_hex s) in
       let str = match rs with [] -> "-" | _ -> Stdlib.String.concat "," (Stdlib.List.map (fun (i, b) ->
         Stdlib.Printf.sprintf "%d:%s" (int_of_nat i) (hex_of_bytes b)) rs) in
       Stdlib.Printf.sprintf "RES %s %s" id str
     | _ -> Stdlib.Printf.sprintf "RES %s badcase" id)
  | "CAPFROM" :: id :: n :: [] ->
    Stdlib.Printf.sprintf "RES %s %d" id (int_of_nat (grow_cap (nat_of_int (int_of_string n))))
  | "SORTF" :: id :: l :: [] ->
    let xs = if l = "-" then [] else Stdlib.List.map (fun h -> f_of_bits (n_of_hex h)) (Stdlib.String.split_on_char ',' l) in
    let ys = sort_floats xs in
    Stdlib.Printf.sprintf "RES %s %s" id (match ys with [] -> "-" | _ -> Stdlib.String.concat "," (Stdlib.List.map canon_bits ys))
  | _ :: id :: _ -> Stdlib.Printf.sprintf "RES %s unsupported" id
  | _ -> "RES ? badcase"

let () =
  let file = Sys.argv.(1) in
  let ic = open_in_bin file in
  (try
     while true do
       let line = input_line ic in
       let line = if Stdlib.String.length line > 0 && line.[Stdlib.String.length line - 1] = '\r'
         then Stdlib.String.sub line 0 (Stdlib.String.length line - 1) else line in
       if Stdlib.String.length line > 0 && line.[0] <> '#' then begin
         let fields = Stdlib.String.split_on_char ' ' line in
         let out =
           try run_case fields
           with Stack_overflow -> (match fields with _ :: id :: _ -> "RES " ^ id ^ " stackoverflow" | _ -> "RES ? stackoverflow")
              | Failure m -> (match fields with _ :: id :: _ -> "RES " ^ id ^ " badcase " ^ m | _ -> "RES ? badcase")
         in
         print_string out; print_newline ()
       end
     done
   with End_of_file -> ());
  close_in ic
