"""Build step shared by every check: everything is rebuilt from /repo's current working tree.

  1. go build of /repo -> .build/jqawk, of the harness (module jqh, replace => /repo) -> .build/jqh
  2. translator gen: /repo/src/*.go -> coq/theories/Gen/Generated.v (rewritten only when it changes)
  3. `make` of the Coq development (incremental): model, proofs, Props/*.v
  4. extraction + ocamlopt of the model -> .build/ocaml/jqmodel (cached by a hash of the model sources)

A flock on .build/lock serialises builds so that checks may be started concurrently.
"""
import os, sys, subprocess, hashlib, fcntl, shutil, time, json, re

VERIF = os.path.dirname(os.path.dirname(os.path.abspath(__file__)))
BUILD = os.path.join(VERIF, ".build")
COQ = os.path.join(VERIF, "coq")
REPO = os.environ.get("VERIF_REPO", "/repo")

GOENV = dict(os.environ, GOFLAGS="-mod=mod", GOPROXY="off", GOSUMDB="off", GOTOOLCHAIN="local")


class BuildError(Exception):
    def __init__(self, stage, log):
        super().__init__(stage)
        self.stage = stage
        self.log = log


def sh(cmd, cwd=None, env=None, timeout=3600):
    p = subprocess.run(cmd, cwd=cwd, env=env, stdout=subprocess.PIPE, stderr=subprocess.STDOUT,
                       timeout=timeout, shell=isinstance(cmd, str))
    return p.returncode, p.stdout.decode("utf-8", "replace")


def model_sources():
    """The .v files listed in _CoqProject (the whole development)."""
    out = []
    for line in open(os.path.join(COQ, "_CoqProject")):
        line = line.strip()
        if line.endswith(".v"):
            out.append(line)
    return out


EXTRACT_DIRS = ("Base/", "Num/F64.v", "Syntax/", "Gen/", "Json/JValue.v", "Json/Decode.v", "Json/Encode.v",
                "Oracle/Utf8.v", "Oracle/Strings.v", "Oracle/Sort.v", "Oracle/Slice.v", "Oracle/Regex.v",
                "Sem/", "Cli/", "Spec/", "Extract/")


def extraction_hash():
    h = hashlib.sha256()
    files = []
    for root, _, names in os.walk(os.path.join(COQ, "theories")):
        for n in names:
            if n.endswith(".v"):
                rel = os.path.relpath(os.path.join(root, n), os.path.join(COQ, "theories"))
                if any(rel.startswith(d) or rel == d for d in EXTRACT_DIRS):
                    files.append(rel)
    for rel in sorted(files):
        h.update(rel.encode())
        h.update(open(os.path.join(COQ, "theories", rel), "rb").read())
    h.update(open(os.path.join(VERIF, "ocaml", "main.ml"), "rb").read())
    return h.hexdigest()


def build_all(verbose=False):
    """Returns a dict describing the build: {'generated_changed': bool, 'coq_ok': bool, 'coq_log': str,
    'broken_files': [...]}.  Raises BuildError when /repo itself does not build (infrastructure, exit 2)."""
    os.makedirs(BUILD, exist_ok=True)
    info = {"generated_changed": False, "coq_ok": True, "coq_log": "", "broken_files": []}
    with open(os.path.join(BUILD, "lock"), "w") as lock:
        fcntl.flock(lock, fcntl.LOCK_EX)
        t0 = time.time()
        # 1. the repository and the harness
        rc, log = sh(["go", "build", "-o", os.path.join(BUILD, "jqawk"), "."], cwd=REPO, env=GOENV)
        if rc != 0:
            raise BuildError("go build /repo", log)
        # the harness is built from a copy whose go.mod points at the repository under test
        hsrc = os.path.join(VERIF, "harness")
        hdir = os.path.join(BUILD, "harness-src")
        os.makedirs(hdir, exist_ok=True)
        for n in os.listdir(hsrc):
            if n.endswith(".go"):
                shutil.copyfile(os.path.join(hsrc, n), os.path.join(hdir, n))
        gomod = open(os.path.join(hsrc, "go.mod")).read().replace("=> /repo", "=> " + REPO)
        open(os.path.join(hdir, "go.mod"), "w").write(gomod)
        shutil.copyfile(os.path.join(REPO, "go.sum"), os.path.join(hdir, "go.sum"))
        rc, log = sh(["go", "build", "-tags", "verif", "-o", os.path.join(BUILD, "jqh"), "."], cwd=hdir, env=GOENV)
        info["harness_ok"] = rc == 0
        if rc != 0:
            # the tree builds but the harness does not build against it: the exported API (or the AST the
            # harness dumps) changed shape.  Not an infrastructure failure: the correspondence can no longer
            # be run, which every check reports as a broken obligation; checks that also drive the real
            # binary still do so.
            info["harness_log"] = log[-1500:]
            try:
                os.remove(os.path.join(BUILD, "jqh"))
            except OSError:
                pass
        # 2. translator
        rc, log = sh(["go", "build", "-o", os.path.join(BUILD, "gen"), "."], cwd=os.path.join(VERIF, "gen"), env=GOENV)
        if rc != 0:
            raise BuildError("go build gen", log)
        new = os.path.join(BUILD, "Generated.v.new")
        rc, log = sh([os.path.join(BUILD, "gen"), os.path.join(REPO, "src"), new,
                      os.path.join(VERIF, "gen", "reference", "Generated.v")])
        target = os.path.join(COQ, "theories", "Gen", "Generated.v")
        # tables the translator could not extract from the current source (it then emits the reference
        # table of the pinned tree): the properties tied to them report the lost tie (framework.TABLE_PROPS)
        info["gen_missing"] = []
        try:
            info["gen_missing"] = json.load(open(new + ".status.json")).get("missing", []) if rc == 0 else []
        except Exception:
            pass
        if rc != 0:
            # a source shape the translator does not recognise: a broken obligation, not silently skipped
            info["coq_ok"] = False
            info["coq_log"] = "translator gen failed:\n" + log
            info["broken_files"] = ["Gen/Generated.v (translator: %s)" % log.strip().splitlines()[-1] if log.strip() else "gen"]
            info["gen_failed"] = True
        else:
            old = open(target, "rb").read() if os.path.exists(target) else b""
            if open(new, "rb").read() != old:
                shutil.copyfile(new, target)
                info["generated_changed"] = True
        rc, log = sh([os.path.join(BUILD, "gen"), "tests", os.path.join(REPO, "jqawk_test.go"),
                      os.path.join(REPO, "testdata", "fuzz"), os.path.join(BUILD, "seeds.json")])
        # 3. Coq
        mk, cp = os.path.join(COQ, "Makefile"), os.path.join(COQ, "_CoqProject")
        if not os.path.exists(mk) or os.path.getmtime(mk) < os.path.getmtime(cp):
            rc, log = sh("coq_makefile -f _CoqProject -o Makefile", cwd=COQ)
        if info["coq_ok"]:
            rc, log = sh("timeout 3000 make -k -j16 2>&1", cwd=COQ)
            info["coq_log"] = log
            if rc != 0:
                info["coq_ok"] = False
                info["broken_files"] = sorted(set(re.findall(r'File "\./theories/([^"]+)", line', log)))
                if "Gen/GenCheck.v" in info["broken_files"]:
                    # which side conditions fail decides which properties lose their tie by table
                    gf = gencheck_failures()
                    if gf:
                        info["gencheck_failed"] = gf
                        info["broken_files"].remove("Gen/GenCheck.v")
                        if not info["broken_files"]:
                            info["coq_ok"] = True
        # 4. OCaml model
        h = extraction_hash()
        odir = os.path.join(BUILD, "ocaml")
        os.makedirs(odir, exist_ok=True)
        stamp = os.path.join(odir, "hash")
        have = open(stamp).read().strip() if os.path.exists(stamp) else ""
        model_vo_ok = os.path.exists(os.path.join(COQ, "theories", "Cli", "Cli.vo"))
        if (have != h or not os.path.exists(os.path.join(odir, "jqmodel"))) and model_vo_ok:
            rc, log = sh("timeout 900 coqc -R %s JQ %s 2>&1" % (os.path.join(COQ, "theories"),
                          os.path.join(COQ, "theories", "Extract", "Extract.v")), cwd=odir)
            if rc != 0:
                info["coq_ok"] = False
                info["coq_log"] += "\nextraction failed:\n" + log
                info["broken_files"].append("Extract/Extract.v")
            else:
                shutil.copyfile(os.path.join(VERIF, "ocaml", "main.ml"), os.path.join(odir, "main.ml"))
                rc, log = sh("ocamlfind ocamlopt -O3 -w -a jqmodel.mli jqmodel.ml main.ml -o jqmodel 2>&1", cwd=odir)
                if rc != 0:
                    raise BuildError("ocamlopt", log)
                open(stamp, "w").write(h)
        info["model_ok"] = os.path.exists(os.path.join(odir, "jqmodel"))
        info["build_s"] = round(time.time() - t0, 1)
    return info


GEN_TABLES = ["token_tags", "precedences", "keyword_table", "op1_table", "op2_table", "quote_chars", "rule_table", "rule_kind_names",
              "value_tag_names", "truthy_cases", "copy_cases", "array_proto_names", "obj_proto_names", "str_proto_names", "num_proto_names",
              "runtime_names", "ws_chars", "comment_chars", "escape_table", "is_type_names", "printf_directives", "compound_table",
              "native_arities", "call_depth_limit", "fuzzing_loop_limit", "fill_limit", "printf_width_limit"]


def gencheck_failures():
    """Gen/GenCheck.v (side conditions tying the generated tables to the model) does not compile: find out
    WHICH lemmas fail.  Compiles scratch copies of the file with the failing lemma cut out, until it compiles.
    Returns [{'lemma': name, 'tables': [generated tables its statement mentions], 'error': text}] or None."""
    src = open(os.path.join(COQ, "theories", "Gen", "GenCheck.v")).read()
    work = os.path.join(BUILD, "gencheck")
    shutil.rmtree(work, ignore_errors=True)
    os.makedirs(work)
    path = os.path.join(work, "GenCheckScratch.v")
    failed = []
    try:
        for _ in range(60):
            open(path, "w").write(src)
            rc, log = sh("timeout 600 coqc -R %s JQ %s 2>&1" % (os.path.join(COQ, "theories"), path), cwd=work)
            if rc == 0:
                return failed
            m = re.search(r'GenCheckScratch\.v", line (\d+)', log)
            if not m:
                return None
            line = int(m.group(1))
            offs = [mm.start() for mm in re.finditer(r'^(?:Lemma|Theorem)\s', src, re.M)]
            pos = sum(len(l) + 1 for l in src.split("\n")[:line - 1])
            starts = [o for o in offs if o <= pos]
            if not starts:
                return None
            a = starts[-1]
            e = re.compile(r'\b(?:Qed|Defined)\.').search(src, a)
            if not e:
                return None
            block = src[a:e.end()]
            name = re.match(r'(?:Lemma|Theorem)\s+([A-Za-z0-9_\']+)', block).group(1)
            stmt = block.split("Proof.")[0]
            failed.append({"lemma": name, "tables": [t for t in GEN_TABLES if re.search(r'\b%s\b' % t, stmt)],
                           "error": " ".join(log.strip().splitlines()[-3:])[:300]})
            src = src[:a] + "(* cut: %s *)" % name + src[e.end():]
        return None
    finally:
        shutil.rmtree(work, ignore_errors=True)


def dep_closure(files):
    """The files of the development (relative to theories/) that the given Props files depend on,
    transitively, themselves included (from coq_makefile's .Makefile.d).  None when unknown."""
    dpath = os.path.join(COQ, ".Makefile.d")
    if not os.path.exists(dpath):
        return None
    deps = {}
    for line in open(dpath):
        if ".vo " not in line.split(":")[0] + " " or ":" not in line:
            continue
        lhs, rhs = line.split(":", 1)
        tgt = [t for t in lhs.split() if t.endswith(".vo")]
        if not tgt:
            continue
        key = tgt[0][len("theories/"):-1] if tgt[0].startswith("theories/") else None
        if key is None:
            continue
        deps[key] = [r[len("theories/"):-1] for r in rhs.split() if r.endswith(".vo") and r.startswith("theories/")]
    todo = [f if "/" in f else "Props/" + f for f in files]
    seen = set()
    while todo:
        f = todo.pop()
        if f in seen:
            continue
        seen.add(f)
        if f not in deps:
            return None
        todo.extend(deps[f])
    return seen


def props_status(files):
    """Recompile the given Props/*.v files and collect their theorems and Print Assumptions output.
    Returns list of dicts {file, theorem, assumptions, ok}."""
    out = []
    for f in files:
        # a bare name is a file of Props/; a name with a directory is relative to theories/
        path = os.path.join(COQ, "theories", f) if "/" in f else os.path.join(COQ, "theories", "Props", f)
        if not os.path.exists(path):
            out.append({"file": f, "theorem": "(file missing)", "assumptions": "", "ok": False})
            continue
        src = open(path).read()
        # obligations: every Theorem/Corollary, plus any Lemma that is given a Print Assumptions
        theorems = re.findall(r'^\s*(?:Theorem|Corollary)\s+([A-Za-z0-9_\']+)', src, re.M)
        printed = re.findall(r'Print Assumptions\s+([A-Za-z0-9_\']+)', src)
        for n in re.findall(r'^\s*Lemma\s+([A-Za-z0-9_\']+)', src, re.M):
            if n in printed and n not in theorems:
                theorems.append(n)
        rc, log = sh("timeout 900 coqc -R %s JQ %s 2>&1" % (os.path.join(COQ, "theories"), path), cwd=COQ)
        if rc != 0:
            for t in theorems or ["(none)"]:
                out.append({"file": f, "theorem": t, "assumptions": log[-400:], "ok": False})
            continue
        # split the output of Print Assumptions
        blocks = {}
        cur = None
        order = re.findall(r'Print Assumptions\s+([A-Za-z0-9_\']+)', src)
        chunks = re.split(r'(?=Closed under the global context|Axioms:)', log)
        chunks = [c for c in chunks if c.startswith("Closed under") or c.startswith("Axioms:")]
        for name, c in zip(order, chunks):
            blocks[name] = c.strip()
        for t in theorems:
            a = blocks.get(t, "(no Print Assumptions)")
            ok = a.startswith("Closed under the global context") or allowed_axioms(a)
            out.append({"file": f, "theorem": t, "assumptions": a[:600], "ok": ok})
    return out


def coqchk_props(files):
    """Thorough tier: re-check the compiled Props files and everything they depend on with the
    independent checker. Returns (ok, summary text)."""
    mods = []
    for f in files:
        rel = f if "/" in f else "Props/" + f
        mods.append("JQ." + rel[:-2].replace("/", "."))
    rc, log = sh("timeout 3000 coqchk -silent -o -R theories JQ %s 2>&1" % " ".join(mods), cwd=COQ)
    tail = log[log.find("CONTEXT SUMMARY"):] if "CONTEXT SUMMARY" in log else log[-800:]
    ok = (rc == 0 and "Axioms: <none>" in tail and "type-in-type: <none>" in tail
          and "unsafe (co)fixpoints: <none>" in tail and "positivity is assumed: <none>" in tail)
    return ok, " ".join(tail.split())[:600]


ALLOWED = ("ClassicalDedekindReals.sig_forall_dec", "ClassicalDedekindReals.sig_not_dec",
           "FunctionalExtensionality.functional_extensionality_dep", "Classical_Prop.classic",
           "ProofIrrelevance.proof_irrelevance", "Eqdep.Eq_rect_eq.eq_rect_eq", "JMeq.JMeq_eq")


def allowed_axioms(text):
    if not text.startswith("Axioms:"):
        return False
    names = re.findall(r'^([A-Za-z0-9_.\']+)\s*:', text[len("Axioms:"):], re.M)
    return bool(names) and all(any(n.endswith(a) or n == a for a in ALLOWED) for n in names)


if __name__ == "__main__":
    try:
        i = build_all()
        print(json.dumps({k: v for k, v in i.items() if k != "coq_log"}, indent=1))
        if not i["coq_ok"]:
            print(i["coq_log"][-3000:])
            sys.exit(1)
    except BuildError as e:
        print("BUILD FAILED at", e.stage)
        print(e.log[-3000:])
        sys.exit(2)
