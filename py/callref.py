"""A small family of jqawk programs about calls, frames and matches, with an independent interpreter that says what
each program of the family prints (used by the C08 oracle; never by the model).

The family is restricted so that the expectation follows from the property statement and the README alone:
  * every function has its own parameter / local names; globals are created by BEGIN before any call;
  * recursive functions use parameters and globals only (no locals), the call graph is otherwise a DAG;
  * names are never created inside a match body, pattern-bound names are never assigned to;
  * an expression contains at most one call with side effects, and then nothing else that could observe the order;
  * arrays passed as arguments are changed by element stores only (never push/pop: arrays are slices).

AST (tuples)
  expr:  ("num", x) ("str", s) ("null",) ("var", name) ("dollar",) ("bin", op, l, r) ("call", fname, [expr]) ("asg", name, expr[, parens])
         ("match", expr, [([pat], "expr", expr) | ([pat], "block", [stmt])]) ("arr", [expr]) ("idx", expr, expr) ("okey", expr) = {k: expr, j: 0}.k
  pat:   ("plit", value) ("pname", name) ("parr", [pat])
  stmt:  ("assign", name, expr) ("idxassign", name, expr, expr) ("incr", name) ("print", [expr]) ("expr", expr)
         ("if", expr, [stmt], [stmt] | None) ("for", var, count, [stmt]) ("forin", var, expr, [stmt])
         ("while", var, count, [stmt]) ("return", expr | None) ("next",) ("exit",) ("break",) ("continue",)
  program: {"funcs": [(name, [params], [stmt])], "begin": [stmt], "rules": [(pattern expr | None, [stmt])], "end": [stmt]}
"""
import pyref
from pyref import UNSET


# ---------------------------------------------------------------- source text

def lit(v):
    if isinstance(v, float) and v < 0:
        return "(-" + pyref.fmt_f(-v) + ")"
    return pyref.literal(v)


def src_expr(e):
    t = e[0]
    if t == "num":
        return lit(float(e[1]))
    if t == "str":
        return lit(e[1])
    if t == "null":
        return "null"
    if t == "var":
        return e[1]
    if t == "dollar":
        return "$"
    if t == "bin":
        return "(" + src_expr(e[2]) + " " + e[1] + " " + src_expr(e[3]) + ")"
    if t == "call":
        return e[1] + "(" + ", ".join(src_expr(a) for a in e[2]) + ")"
    if t == "arr":
        return "[" + ", ".join(src_expr(a) for a in e[1]) + "]"
    if t == "idx":
        return src_expr(e[1]) + "[" + src_expr(e[2]) + "]"
    if t == "okey":
        return "({k: " + src_expr(e[1]) + ", j: 0}.k)"       # parenthesised: a match body that starts with "{" is a block
    if t == "asg":
        # an assignment used as an expression; e[3]: write the parentheses (needed wherever an operator follows or precedes)
        return ("(%s = %s)" if (len(e) > 3 and e[3]) else "%s = %s") % (e[1], src_expr(e[2]))
    if t == "match":
        cases = []
        for pats, kind, body in e[2]:
            p = ", ".join(src_pat(x) for x in pats)
            if kind == "expr":
                cases.append(p + " => " + src_expr(body))
            else:
                cases.append(p + " => {\n" + src_block(body, 2) + "\n }")
        return "match (" + src_expr(e[1]) + ") {\n " + ",\n ".join(cases) + "\n }"     # a newline alone would let "[p] =>" index the previous body
    raise ValueError(e)


def src_pat(p):
    if p[0] == "plit":
        return pyref.literal(p[1])
    if p[0] == "pname":
        return p[1]
    return "[" + ", ".join(src_pat(x) for x in p[1]) + "]"


def src_block(stmts, ind=1):
    pad = " " * ind
    return "\n".join(pad + src_stmt(s, ind) for s in stmts)


def src_body(stmts, ind):
    return "{\n" + src_block(stmts, ind + 1) + "\n" + " " * ind + "}"


def src_stmt(s, ind=1):
    t = s[0]
    if t == "assign":
        return s[1] + " = " + src_expr(s[2])
    if t == "idxassign":
        return s[1] + "[" + src_expr(s[2]) + "] = " + src_expr(s[3])
    if t == "incr":
        return s[1] + "++"
    if t == "print":
        return "print " + ", ".join(src_expr(a) for a in s[1])
    if t == "expr":
        return src_expr(s[1])
    if t == "if":
        r = "if (" + src_expr(s[1]) + ") " + src_body(s[2], ind)
        if s[3] is not None:
            r += " else " + src_body(s[3], ind)
        return r
    if t == "for":
        return "for (%s = 0; %s < %d; %s++) %s" % (s[1], s[1], s[2], s[1], src_body(s[3], ind))
    if t == "forin":
        return "for (%s in %s) %s" % (s[1], src_expr(s[2]), src_body(s[3], ind))
    if t == "while":
        return "%s = 0\n%swhile (%s < %d) %s" % (s[1], " " * ind, s[1], s[2], src_body([("incr", s[1])] + s[3], ind))
    if t == "return":
        return "return" if s[1] is None else "return " + src_expr(s[1])
    if t in ("next", "exit", "break", "continue"):
        return t
    raise ValueError(s)


def src_program(p):
    parts = []
    for name, params, body in p["funcs"]:
        parts.append("function %s(%s) %s" % (name, ", ".join(params), src_body(body, 0)))
    if p.get("begin") is not None:
        parts.append("BEGIN " + src_body(p["begin"], 0))
    for pat, body in p["rules"]:
        parts.append((src_expr(pat) + " " if pat is not None else "") + src_body(body, 0))
    if p.get("end") is not None:
        parts.append("END " + src_body(p["end"], 0))
    return "\n".join(parts)


# ---------------------------------------------------------------- interpreter

class RErr(Exception):
    pass


class TooDeep(Exception):
    """the interpreter refuses deep recursion (those cases have analytic expectations)"""


class _Return(Exception):
    def __init__(self, v):
        self.v = v


class _Next(Exception):
    pass


class _Exit(Exception):
    pass


class _Break(Exception):
    pass


class _Continue(Exception):
    pass


class Interp:
    def __init__(self, prog, limit, max_depth=200, max_steps=3000000):
        self.p = prog
        self.funcs = {name: (params, body) for name, params, body in prog["funcs"]}
        self.frames = [{}]
        self.out = []
        self.limit = limit
        self.max_depth = max_depth
        self.steps = max_steps
        self.dollar = None
        self.completed = 0          # calls / matches finished so far
        self.history = False        # a call or match completed before another began

    # -- variables
    def cell(self, name):
        for f in reversed(self.frames):
            if name in f:
                return f
        self.frames[-1][name] = UNSET
        return self.frames[-1]

    def get(self, name):
        return self.cell(name)[name]

    def set(self, name, v):
        self.cell(name)[name] = v

    def push(self, frame):
        if len(self.frames) > self.limit:
            raise RErr("call depth limit exceeded")
        if len(self.frames) > self.max_depth:
            raise TooDeep()
        self.frames.append(frame)

    # -- expressions
    def ev(self, e):
        self.steps -= 1
        if self.steps < 0:
            raise TooDeep()
        t = e[0]
        if t == "num":
            return float(e[1])
        if t == "str":
            return e[1]
        if t == "null":
            return None
        if t == "var":
            return self.get(e[1])
        if t == "dollar":
            return self.dollar
        if t == "bin":
            l = self.ev(e[2])
            r = self.ev(e[3])
            try:
                v = pyref.binop(e[1], l, r)
            except pyref.RuntimeErr as x:
                raise RErr(str(x))
            if isinstance(v, str) and len(v) > 120:
                raise TooDeep()         # s = s + s over a long input: not a program of the family
            return v
        if t == "arr":
            return [self.ev(a) for a in e[1]]
        if t == "idx":
            a = self.ev(e[1])
            i = self.ev(e[2])
            if isinstance(a, list) and isinstance(i, float) and 0 <= int(i) < len(a):
                return a[int(i)]
            raise TooDeep()     # outside the family
        if t == "okey":
            return self.ev(e[1])
        if t == "asg":
            v = self.ev(e[2])
            self.set(e[1], v)       # an unknown name is created in the frame that is current where the assignment is written
            return v
        if t == "call":
            return self.call(e[1], [self.ev(a) for a in e[2]])
        if t == "match":
            return self.match(e)
        raise ValueError(e)

    def call(self, name, args):
        params, body = self.funcs[name]
        if self.completed:
            self.history = True
        frame = {}
        for i, pn in enumerate(params):
            frame[pn] = args[i] if i < len(args) else None
        self.push(frame)
        try:
            self.block(body)
            return None
        except _Return as r:
            return r.v
        finally:
            self.frames.pop()
            self.completed += 1

    def match(self, e):
        v = self.ev(e[1])
        for pats, kind, body in e[2]:
            for p in pats:
                b = self.pmatch(p, v)
                if b is None:
                    continue
                if self.completed:
                    self.history = True
                self.push(dict(b))
                try:
                    if kind == "expr":
                        return self.ev(body)
                    self.block(body)
                    return None
                finally:
                    self.frames.pop()
                    self.completed += 1
        return None

    def pmatch(self, p, v):
        """bindings or None"""
        if p[0] == "pname":
            return {p[1]: v}
        if p[0] == "plit":
            if v is UNSET:
                return None
            try:
                return {} if pyref.compare(v, p[1]) == 0 else None
            except pyref.RuntimeErr as x:
                raise RErr(str(x))
        if not isinstance(v, list) or len(v) != len(p[1]):
            return None
        b = {}
        for sp, item in zip(p[1], v):
            sb = self.pmatch(sp, item)
            if sb is None:
                return None
            b.update(sb)
        return b

    # -- statements
    def block(self, stmts):
        for s in stmts:
            self.st(s)

    def loop_body(self, body):
        """returns True when the loop must stop"""
        try:
            self.block(body)
        except _Break:
            return True
        except _Continue:
            pass
        return False

    def st(self, s):
        self.steps -= 1
        if self.steps < 0:
            raise TooDeep()
        t = s[0]
        if t == "assign":
            v = self.ev(s[2])
            self.set(s[1], v)
        elif t == "idxassign":
            i = self.ev(s[2])
            v = self.ev(s[3])
            a = self.get(s[1])
            if not (isinstance(a, list) and isinstance(i, float) and 0 <= int(i) < len(a)):
                raise TooDeep()
            a[int(i)] = v
        elif t == "incr":
            self.set(s[1], pyref.num(self.get(s[1])) + 1)
        elif t == "print":
            vals = [self.ev(a) for a in s[1]]
            self.out.append(" ".join(pyref.pretty(v) for v in vals) + "\n")
        elif t == "expr":
            self.ev(s[1])
        elif t == "if":
            if pyref.truthy(self.ev(s[1])):
                self.block(s[2])
            elif s[3] is not None:
                self.block(s[3])
        elif t == "for":
            self.set(s[1], 0.0)
            while pyref.truthy(pyref.binop("<", self.get(s[1]), float(s[2]))):
                if self.loop_body(s[3]):
                    break
                self.set(s[1], pyref.num(self.get(s[1])) + 1)
        elif t == "while":
            self.set(s[1], 0.0)
            while pyref.truthy(pyref.binop("<", self.get(s[1]), float(s[2]))):
                if self.loop_body([("incr", s[1])] + s[3]):
                    break
        elif t == "forin":
            self.cell(s[1])
            it = self.ev(s[2])
            if not isinstance(it, list):
                raise TooDeep()
            for item in list(it):
                self.set(s[1], item)
                if self.loop_body(s[3]):
                    break
        elif t == "return":
            raise _Return(None if s[1] is None else self.ev(s[1]))
        elif t == "next":
            raise _Next()
        elif t == "exit":
            raise _Exit()
        elif t == "break":
            raise _Break()
        elif t == "continue":
            raise _Continue()
        else:
            raise ValueError(s)

    # -- driver (awk order; one input file holding one JSON value)
    def run(self, doc):
        """returns (outcome, stdout text)"""
        try:
            if self.p.get("begin") is not None:
                self.dollar = None
                self.block(self.p["begin"])
            items = doc if isinstance(doc, list) else [doc]
            for i, item in enumerate(items):
                self.dollar = item
                if isinstance(doc, list):
                    self.frames[0]["$index"] = float(i)
                try:
                    for pat, body in self.p["rules"]:
                        if pat is not None and not pyref.truthy(self.ev(pat)):
                            continue
                        self.block(body)
                except _Next:
                    pass
            if self.p.get("end") is not None:
                self.dollar = None
                self.block(self.p["end"])
        except _Exit:
            return "ok", "".join(self.out)
        except RErr:
            return "runtime", "".join(self.out)
        return "ok", "".join(self.out)


# ---------------------------------------------------------------- generator

GLOBALS = ["g0", "g1", "g2", "g3"]


class Gen:
    def __init__(self, rng, quiet=False):
        self.r = rng
        self.quiet = quiet          # no print inside rules / functions (long histories)
        self.funcs = []             # (name, params, body)
        self.info = {}              # name -> dict(pure, next, exit, arity, recursive)
        self.mcount = 0
        self.pnames = []            # pattern-bound names
        self.locals = []            # locals of non-recursive functions
        self.params = []

    def ch(self, l):
        return self.r.choice(l)

    # ---- pure expressions over the given readable names
    def pure(self, names, d=2, callees=()):
        r = self.r
        k = r.random()
        if d <= 0 or k < 0.3:
            if names and r.random() < 0.6:
                return ("var", self.ch(names))
            return ("num", r.randint(0, 9))
        if k < 0.6:
            return ("bin", self.ch(["+", "-", "*", "+"]), self.pure(names, d - 1, callees), self.pure(names, d - 1, callees))
        if k < 0.85 and callees:
            f = self.ch(callees)
            n = self.info[f]["arity"] + self.ch([0, 0, 0, -1, 1, 2])
            args = [self.pure(names, d - 1, callees) for _ in range(max(0, n))]
            if self.info[f]["recursive"]:
                args = [("num", r.randint(0, 8))] + args[1:]
            return ("call", f, args)
        if k < 0.93:
            return self.pure_match(names, d, callees)
        if k < 0.96:
            return ("okey", self.pure(names, d - 1, callees))
        return ("idx", ("arr", [self.pure(names, d - 1, callees) for _ in range(3)]), ("num", r.randint(0, 2)))

    def pure_match(self, names, d, callees):
        r = self.r
        self.mcount += 1
        m = "m%d" % self.mcount
        self.pnames.append(m)
        subj = self.pure(names, d - 1, callees)
        cases = []
        if r.random() < 0.5:
            cases.append(([("plit", float(r.randint(0, 3))), ("plit", float(r.randint(4, 6)))], "expr", self.pure(names, d - 1, callees)))
        if r.random() < 0.3:
            # an array alternative that cannot match a number, followed by the catch-all
            cases.append(([("parr", [("pname", m)])], "expr", ("var", m)))
        cases.append(([("pname", m)], "expr", ("bin", "+", ("var", m), self.pure(names, d - 1, callees))))
        return ("match", subj, cases)

    def cond(self, names, callees=()):
        return ("bin", self.ch(["<", ">", "==", "!=", "<=", ">="]), self.pure(names, 1, callees), ("num", self.r.randint(0, 6)))

    # ---- functions
    def add_func(self, name, params, body, **info):
        self.funcs.append((name, params, body))
        d = dict(pure=False, next=False, exit=False, arity=len(params), recursive=False, prints=False)
        d.update(info)
        self.info[name] = d

    def make_functions(self, n):
        """functions are generated last-first so that earlier ones may call later ones"""
        made = []
        k = n
        while k > 0:
            k -= 1
            name = "F%d" % k
            pure_callees = [f for f in made if self.info[f]["pure"]]
            kind = self.ch(["pure", "pure", "rec", "mutual", "effect", "effect", "signal", "retmatch", "looper", "arrstore"])
            ar = self.r.randint(0, 3)
            params = ["%s%d" % (c, k) for c in "abc"[:ar]]
            if kind == "pure":
                self.f_pure(name, params, pure_callees)
            elif kind == "rec":
                self.f_rec(name, k, pure_callees)
            elif kind == "mutual" and k >= 1:
                self.f_mutual(name, "F%d" % (k - 1), k)
                made.append(name)
                self.params += ["a%d" % k]
                k -= 1
                name = "F%d" % k
                self.params += ["a%d" % k]
                made.append(name)
                continue
            elif kind == "signal":
                self.f_signal(name, k, params, pure_callees)
            elif kind == "retmatch":
                self.f_retmatch(name, k, pure_callees)
            elif kind == "looper":
                self.f_looper(name, k, pure_callees)
            elif kind == "arrstore":
                self.f_arrstore(name, k)
            else:
                self.f_effect(name, k, params, made)
            self.params += [p for p in self.funcs[-1][1]]
            made.append(name)
        self.funcs.sort(key=lambda f: f[0])
        if self.r.random() < 0.5:
            self.r.shuffle(self.funcs)

    def f_pure(self, name, params, callees):
        body = []
        if params and self.r.random() < 0.5:
            body.append(("if", self.cond(params, callees), [("return", self.pure(params, 2, callees))], None))
        body.append(("return", self.pure(params, 2, callees)))
        self.add_func(name, params, body, pure=True)

    def f_rec(self, name, k, callees):
        a, b = "a%d" % k, "b%d" % k
        style = self.r.randint(0, 3)
        if style == 0:      # accumulate
            body = [("if", ("bin", "<=", ("var", a), ("num", 0)), [("return", ("var", b))], None),
                    ("return", ("call", name, [("bin", "-", ("var", a), ("num", 1)), ("bin", "+", ("var", b), ("var", a))]))]
            params = [a, b]
        elif style == 1:    # tree recursion
            body = [("if", ("bin", "<", ("var", a), ("num", 2)), [("return", ("var", a))], None),
                    ("return", ("bin", "+", ("call", name, [("bin", "-", ("var", a), ("num", 1))]),
                                ("call", name, [("bin", "-", ("var", a), ("num", 2))])))]
            params = [a]
        elif style == 2:    # recursion through a match with an expression body
            self.mcount += 1
            m = "m%d" % self.mcount
            self.pnames.append(m)
            body = [("return", ("match", ("var", a), [([("plit", 0.0)], "expr", ("var", b)),
                                                      ([("pname", m)], "expr", ("call", name, [("bin", "-", ("var", m), ("num", 1)),
                                                                                               ("bin", "+", ("var", b), ("num", 2))]))]))]
            params = [a, b]
        else:               # return from inside a match block inside a loop, recursing
            self.mcount += 1
            m = "m%d" % self.mcount
            self.pnames.append(m)
            body = [("if", ("bin", "<=", ("var", a), ("num", 0)), [("return", ("num", 7))], None),
                    ("match", ("var", a), [([("pname", m)], "block", [("return", ("bin", "+", ("call", name, [("bin", "-", ("var", m), ("num", 1))]), ("num", 1)))])]),
                    ("return", ("num", -1))]
            body[1] = ("expr", body[1])
            params = [a]
        self.add_func(name, params, body, pure=True, recursive=True)

    def f_mutual(self, n1, n0, k):
        a1, a0 = "a%d" % k, "a%d" % (k - 1)
        self.add_func(n1, [a1], [("if", ("bin", "<=", ("var", a1), ("num", 0)), [("return", ("num", 100))], None),
                                 ("return", ("bin", "+", ("call", n0, [("bin", "-", ("var", a1), ("num", 1))]), ("num", 1)))],
                      pure=True, recursive=True)
        self.add_func(n0, [a0], [("if", ("bin", "<=", ("var", a0), ("num", 0)), [("return", ("num", 200))], None),
                                 ("return", ("bin", "*", ("call", n1, [("bin", "-", ("var", a0), ("num", 1))]), ("num", 1)))],
                      pure=True, recursive=True)

    def f_effect(self, name, k, params, made):
        r = self.r
        t, u = "t%d" % k, "u%d" % k
        self.locals += [t, u]
        pure_callees = [f for f in made if self.info[f]["pure"]]
        names = params + GLOBALS
        body = [("assign", t, self.pure(names, 2, pure_callees))]
        prints = False
        if params:
            body.append(("assign", params[0], ("bin", "+", ("var", params[0]), ("num", 1))))     # by value: invisible outside
        body.append(("assign", self.ch(GLOBALS), self.pure(names + [t], 2, pure_callees)))
        if r.random() < 0.5:
            body.append(("assign", u, ("bin", "*", ("var", t), ("num", 2))))
        if not self.quiet and r.random() < 0.7:
            body.append(("print", [("str", name)] + [("var", x) for x in params + [t]]))
            prints = True
        nxt = exi = False
        eff = [f for f in made if not self.info[f]["pure"]]
        if eff and r.random() < 0.4:
            f = self.ch(eff)
            body.append(("expr", ("call", f, [self.pure(names + [t], 1) for _ in range(self.info[f]["arity"])])))
            nxt, exi, prints = self.info[f]["next"], self.info[f]["exit"], prints or self.info[f]["prints"]
        w = r.random()
        if w < 0.5:
            body.append(("return", self.pure(names + [t], 2, pure_callees)))
        elif w < 0.7:
            body.append(("return", None))
        self.add_func(name, params, body, next=nxt, exit=exi, prints=prints)

    def f_signal(self, name, k, params, callees):
        """next / exit executed inside a function, under a condition on the first parameter, at some nesting"""
        r = self.r
        a = "a%d" % k
        params = [a] + params[1:]
        sig = self.ch(["next", "next", "next", "exit"])
        self.mcount += 1
        m = "m%d" % self.mcount
        self.pnames.append(m)
        inner = [(sig,)]
        w = r.randint(0, 3)
        if w == 1:
            inner = [("for", "i%d" % k, 3, [("if", ("bin", "==", ("var", "i%d" % k), ("num", 1)), [(sig,)], None)])]
            self.locals.append("i%d" % k)
        elif w == 2:
            inner = [("expr", ("match", ("var", a), [([("pname", m)], "block", [(sig,)])]))]
        elif w == 3:
            inner = [("forin", "e%d" % k, ("arr", [("num", 1), ("num", 2)]), [("expr", ("match", ("var", "e%d" % k), [([("plit", 2.0)], "block", [(sig,)])]))])]
            self.locals.append("e%d" % k)
        thr = r.randint(0, 6)
        body = [("assign", self.ch(GLOBALS), ("bin", "+", ("var", a), ("num", r.randint(0, 3)))),
                ("if", ("bin", self.ch([">", "<", "=="]), ("var", a), ("num", thr)), inner, None),
                ("return", ("bin", "+", ("var", a), ("num", 1)))]
        self.add_func(name, params, body, next=sig == "next", exit=sig == "exit")

    def f_retmatch(self, name, k, callees):
        """return from inside a match block / loop / conditional"""
        r = self.r
        a = "a%d" % k
        self.mcount += 1
        m = "m%d" % self.mcount
        self.pnames.append(m)
        i = "i%d" % k
        self.locals.append(i)
        style = r.randint(0, 2)
        if style == 0:
            body = [("for", i, 4, [("expr", ("match", ("var", i), [([("plit", 2.0)], "block", [("return", ("bin", "+", ("var", a), ("var", i)))]),
                                                                  ([("pname", m)], "expr", ("var", m))]))]),
                    ("return", ("num", -5))]
        elif style == 1:
            body = [("expr", ("match", ("arr", [("var", a), ("num", 3)]),
                              [([("parr", [("plit", 9.0), ("pname", m)])], "block", [("return", ("str", "nine"))]),
                               ([("parr", [("pname", m), ("pname", m + "b")])], "block",
                                [("if", ("bin", ">", ("var", m), ("num", 2)), [("return", ("bin", "*", ("var", m), ("var", m + "b")))], None)])])),
                    ("return", ("var", a))]
            self.pnames.append(m + "b")
        else:
            body = [("while", i, 5, [("if", ("bin", ">=", ("var", i), ("var", a)), [("return", ("var", i))], None),
                                     ("expr", ("match", ("var", i), [([("pname", m)], "block", [("if", ("bin", "==", ("var", m), ("num", 3)), [("return", ("num", 33))], None)])]))]),
                    ("return", None)]
        self.add_func(name, [a], body, pure=True)

    def f_looper(self, name, k, callees):
        """break / continue leaving a match block; many completed matches inside one call"""
        a = "a%d" % k
        self.mcount += 1
        m = "m%d" % self.mcount
        self.pnames.append(m)
        i, t = "i%d" % k, "t%d" % k
        self.locals += [i, t]
        body = [("assign", t, ("num", 0)),
                ("for", i, 6, [("expr", ("match", ("var", i), [([("plit", 1.0)], "block", [("continue",)]),
                                                              ([("plit", 4.0)], "block", [("break",)]),
                                                              ([("pname", m)], "block", [("assign", t, ("bin", "+", ("var", t), ("bin", "+", ("var", m), ("var", a))))])]))]),
                ("return", ("var", t))]
        self.add_func(name, [a], body, pure=True)

    def f_arrstore(self, name, k):
        """element stores through a parameter are seen by the caller, a store to the scalar parameter is not"""
        a, b = "a%d" % k, "b%d" % k
        body = [("idxassign", a, ("num", self.r.randint(0, 2)), ("var", b)),
                ("idxassign", a, ("num", 1), ("bin", "+", ("idx", ("var", a), ("num", 1)), ("num", 1))),
                ("assign", b, ("num", 99)),
                ("return", ("idx", ("var", a), ("num", 0)))]
        self.add_func(name, [a, b], body, arr=True)

    # ---- statements of rules
    def call_expr(self, fname, names, callees):
        n = self.info[fname]["arity"] + self.ch([0, 0, 0, -1, 1, 2])
        args = [self.pure(names, 1, callees) for _ in range(max(0, n))]
        if args and self.r.random() < 0.3:
            args[0] = ("var", self.ch(GLOBALS))       # a scalar variable by value
        if self.info[fname].get("arr"):
            first = ("var", "ga") if self.r.random() < 0.7 else ("arr", [self.pure(names, 1, callees) for _ in range(3)])
            args = [first, self.pure(names, 1, callees)] + args[2:]
        return ("call", fname, args)

    def rule_stmts(self, names, ctx, n):
        """ctx: 'begin' | 'rule' | 'end'"""
        r = self.r
        out = []
        fn = [f for f in self.info if ctx == "rule" or not self.info[f]["next"]]
        pure_f = [f for f in fn if self.info[f]["pure"]]
        eff_f = [f for f in fn if not self.info[f]["pure"]]
        for _ in range(n):
            k = r.random()
            g = self.ch(GLOBALS)
            if k < 0.3 and eff_f:
                f = self.ch(eff_f)
                c = self.call_expr(f, names, pure_f)
                if not self.quiet:
                    out.append(("print", [("str", "<")] + [("var", x) for x in GLOBALS]))
                out.append(self.ch([("assign", g, c), ("expr", c), ("expr", c)] + ([] if self.quiet else [("print", [("str", "r"), c])])))
                if not self.quiet:
                    out.append(("print", [("str", ">")] + [("var", x) for x in GLOBALS]))
            elif k < 0.55 and pure_f:
                e = self.pure(names, 2, pure_f)
                out.append(("assign", g, e) if self.quiet or r.random() < 0.5 else ("print", [("str", "v"), e]))
            elif k < 0.7:
                out.append(self.match_stmt(names, pure_f, g))
            elif k < 0.8:
                body = self.rule_stmts(names, ctx, 1)
                out.append(("if", self.cond(names, pure_f), body, self.rule_stmts(names, ctx, 1) if r.random() < 0.4 else None))
            elif k < 0.88:
                free = [v for v in ["ri", "rj"] if v not in names]
                if not free:
                    continue
                v = self.ch(free)
                out.append(("for", v, r.randint(1, 3), self.rule_stmts([x for x in names] + [v], ctx, 1)))
            elif k < 0.93 and ctx == "rule":
                out.append(("if", self.cond(names), [("next",)], None))
            elif k < 0.95 and ctx != "begin":
                out.append(("if", ("bin", "==", self.pure(names, 1), ("num", r.randint(20, 40))), [("exit",)], None))
            else:
                out.append(("assign", g, self.pure(names, 2, pure_f)))
        return out

    def match_stmt(self, names, callees, g):
        r = self.r
        self.mcount += 1
        m = "m%d" % self.mcount
        self.pnames += [m, m + "b"]
        subj = self.ch([self.pure(names, 1, callees), ("arr", [self.pure(names, 1, callees), self.pure(names, 1, callees)])])
        cases = []
        if subj[0] == "arr":
            cases.append(([("parr", [("plit", float(r.randint(0, 4))), ("pname", m + "b")])], "expr", ("var", m + "b")))
            body = ("bin", "+", ("var", m), ("var", m + "b"))
            if r.random() < 0.5:
                cases.append(([("parr", [("pname", m), ("pname", m + "b")])], "expr", body))
            else:
                cases.append(([("parr", [("pname", m), ("pname", m + "b")])], "block",
                              [("assign", g, body)] + ([] if self.quiet else [("print", [("str", "mb"), ("var", m), ("var", m + "b")])])))
        else:
            cases.append(([("plit", float(r.randint(0, 5)))], "expr", ("num", 50)))
            if r.random() < 0.5:
                cases.append(([("pname", m)], "expr", ("bin", "*", ("var", m), ("num", 2))))
            else:
                cases.append(([("pname", m)], "block", [("assign", g, ("bin", "-", ("var", m), ("num", 1)))]))
        e = ("match", subj, cases)
        w = r.random()
        if w < 0.4:
            return ("assign", g, e)
        if w < 0.7 and not self.quiet:
            return ("print", [("str", "m"), e])
        return ("expr", e)

    # ---- whole programs
    def program(self, nfuncs, nrules):
        r = self.r
        self.make_functions(nfuncs)
        begin = [("assign", g, ("num", i + 1)) for i, g in enumerate(GLOBALS)] + [("assign", "ga", ("arr", [("num", 1), ("num", 2), ("num", 3)]))]
        begin += self.rule_stmts(list(GLOBALS), "begin", r.randint(0, 2))
        rules = []
        for _ in range(nrules):
            names = list(GLOBALS) + ["$"]
            pure_f = [f for f in self.info if self.info[f]["pure"]]
            names_e = GLOBALS + []
            pat = None
            w = r.random()
            if w < 0.25:
                pat = ("bin", self.ch(["<", ">", "!="]), ("dollar",), ("num", r.randint(0, 5)))
            elif w < 0.45 and pure_f:
                f = self.ch(pure_f)
                pat = ("bin", self.ch(["<", ">", "!="]), ("call", f, [("dollar",)] * self.info[f]["arity"]), ("num", r.randint(0, 9)))
            elif w < 0.55:
                self.mcount += 1
                m = "m%d" % self.mcount
                self.pnames.append(m)
                pat = ("match", ("dollar",), [([("plit", float(r.randint(0, 3)))], "expr", ("num", 0)), ([("pname", m)], "expr", ("bin", "+", ("var", m), ("num", 1)))])
            sig = [f for f in self.info if self.info[f]["next"] or self.info[f]["exit"]]
            if w >= 0.55 and w < 0.75 and sig:
                f = self.ch(sig)
                pat = ("bin", ">", ("call", f, [("dollar",)] + [("num", 1)] * (self.info[f]["arity"] - 1)), ("num", r.randint(0, 4)))
            body = self.rule_stmts_dollar(r.randint(1, 4))
            rules.append((pat, body))
        end = []
        if not self.quiet or True:
            end.append(("print", [("str", "E")] + [("var", g) for g in GLOBALS + ["ga"]]))
        end += self.rule_stmts(list(GLOBALS), "end", r.randint(0, 2))
        probe_names = sorted(set(self.params + self.pnames + self.locals))
        self.funcs.append(("pr_", [], [("print", [("str", "P")] + [("var", x) for x in probe_names])]))
        end.append(("expr", ("call", "pr_", [])))
        end.append(("print", [("str", "D")] + [("var", x) for x in probe_names]))
        return {"funcs": self.funcs, "begin": begin, "rules": rules, "end": end}

    def rule_stmts_dollar(self, n):
        """rule bodies: like rule_stmts, with $ readable; after calls, parameter and pattern names are probed"""
        names = list(GLOBALS)
        body = []
        stmts = self.rule_stmts(names, "rule", n)
        # substitute $ for some variable reads at the top level of call arguments
        stmts = [self.with_dollar(s) for s in stmts]
        for s in stmts:
            body.append(s)
            if self.r.random() < 0.3 and not self.quiet:
                pool = self.params + self.pnames
                if pool:
                    body.append(("expr", ("call", "pr_", [])) if self.r.random() < 0.5 else
                                ("print", [("str", "p")] + [("var", self.ch(pool)) for _ in range(min(3, len(pool)))]))
        return body

    def with_dollar(self, x):
        if isinstance(x, tuple):
            if x and x[0] == "num" and self.r.random() < 0.35:
                return ("dollar",)
            if x and x[0] in ("plit", "for", "while"):
                if x[0] == "plit":
                    return x
                return (x[0], x[1], x[2], [self.with_dollar(s) for s in x[3]])
            return tuple(self.with_dollar(y) for y in x)
        if isinstance(x, list):
            return [self.with_dollar(y) for y in x]
        return x


def count_nodes(p, kinds):
    n = 0

    def walk(x):
        nonlocal n
        if isinstance(x, tuple):
            if x and x[0] in kinds:
                n += 1
            for y in x:
                walk(y)
        elif isinstance(x, list):
            for y in x:
                walk(y)
        elif isinstance(x, dict):
            for y in x.values():
                walk(y)
    walk(p)
    return n
