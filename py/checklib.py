"""Helpers shared by the check modules c01/c02/c03/c11/c20: tolerant projection, running the real
binary, a tokenizer for splicing program texts, pre-screening of generated cases on the implementation."""
import os, re, subprocess, tempfile, shutil, resource
from concurrent.futures import ThreadPoolExecutor
from jqlib import BUILD, JQAWK, RunRes, run_impl, NPROC


class _Any:
    """Compares equal to everything: the projection of a result that carries no information
    (the model runner was killed: a resource artefact of the test bench, not an answer)."""

    def __eq__(self, other):
        return True

    def __ne__(self, other):
        return False

    def __hash__(self):
        return 0

    def __repr__(self):
        return "<no answer>"


ANY = _Any()

LEGAL = ("ok", "syntax", "runtime", "json")
INCONCLUSIVE = ("timeout", "noresult", "badcase")


def abnormal(impl):
    """One-line description if the implementation result is a crash / leaked signal, else None."""
    if impl.outcome in LEGAL or impl.outcome in INCONCLUSIVE:
        if impl.json == "P":
            return "GetRootJson panicked after a successful run"
        return None
    if impl.outcome == "raw":
        return "an internal error value (control-flow signal) surfaced to the caller"
    if impl.outcome == "panic":
        return "internal panic (recovered by the harness)"
    if impl.outcome == "crash":
        return "the process died (Go runtime crash)"
    return "illegal outcome %r" % impl.outcome


# ---------------------------------------------------------------- the real binary

def _limits():
    try:
        resource.setrlimit(resource.RLIMIT_CORE, (0, 0))
    except Exception:
        pass


class CliRes:
    def __init__(self, rc, out, err, timed_out):
        self.rc, self.out, self.err, self.timed_out = rc, out, err, timed_out

    def trace(self):
        e = self.err
        for needle in (b"goroutine ", b"panic:", b"fatal error:"):
            if needle in e:
                return needle.decode()
        return None

    def why_bad(self):
        """C01's promise about the tool: exits by itself with 0, or non-zero plus a diagnostic, never a trace."""
        if self.timed_out:
            return None
        if self.rc < 0:
            return "killed by signal %d" % -self.rc
        t = self.trace()
        if t:
            return "stack trace on stderr (%r), exit status %d" % (t, self.rc)
        if self.rc not in (0, 1):
            return "exit status %d" % self.rc
        if self.rc != 0 and not self.err.strip():
            return "exit status %d without a diagnostic" % self.rc
        return None


def run_cli(args, stdin=None, timeout=10, cwd=None):
    try:
        p = subprocess.run([JQAWK] + list(args), input=stdin if stdin is not None else b"", stdout=subprocess.PIPE,
                           stderr=subprocess.PIPE, timeout=timeout, cwd=cwd, preexec_fn=_limits)
        return CliRes(p.returncode, p.stdout, p.stderr, False)
    except subprocess.TimeoutExpired as e:
        return CliRes(None, e.stdout or b"", e.stderr or b"", True)


class Scratch:
    def __enter__(self):
        os.makedirs(BUILD, exist_ok=True)
        self.dir = tempfile.mkdtemp(prefix="cli-", dir=BUILD)
        self.n = 0
        return self

    def __exit__(self, *a):
        shutil.rmtree(self.dir, ignore_errors=True)

    def file(self, data, suffix=""):
        self.n += 1
        p = os.path.join(self.dir, "f%d%s" % (self.n, suffix))
        with open(p, "wb") as f:
            f.write(data if isinstance(data, bytes) else data.encode("utf-8", "surrogateescape"))
        return p


def pmap(fn, items, jobs=None):
    with ThreadPoolExecutor(max_workers=jobs or NPROC) as ex:
        return list(ex.map(fn, items))


# ---------------------------------------------------------------- pre-screening on the implementation

def light_enough(res, max_events=1200, max_out=40000):
    """The extracted model is quadratic in the number of output events; cases whose implementation run is
    output-heavy or timed out are checked on the implementation only."""
    if res.outcome in ("timeout", "noresult", "badcase", "crash"):
        return False
    if len(res.stdout) > max_out:
        return False
    if res.iolog not in ("-", "?") and res.iolog.count(",") + 1 > max_events:
        return False
    return True


def prescreen(lines_by_id, **kw):
    """lines_by_id: {id: line}. Runs the implementation; returns ({id: RunRes}, set of ids light enough for the model)."""
    impl = run_impl(list(lines_by_id.values()))
    res = {i: RunRes(impl.get(i, [])) for i in lines_by_id}
    return res, {i for i, r in res.items() if light_enough(r, **kw)}


# ---------------------------------------------------------------- tokens (for splicing / mutation)

TOKEN_RE = re.compile(r"""
      \s+
    | [A-Za-z_][A-Za-z0-9_]*
    | \$[A-Za-z_][A-Za-z0-9_]*
    | [0-9]+(?:\.[0-9]+)?
    | "(?:[^"\\\n]|\\.)*"
    | '(?:[^'\\\n]|\\.)*'
    | \+\+|--|\+=|-=|\*=|/=|%=|==|!=|<=|>=|&&|\|\||!~|=>
    | .
""", re.X | re.S)


def tokens(src):
    return TOKEN_RE.findall(src)
