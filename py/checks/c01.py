"""C01: every run ends in success or one of the three reported error kinds, never a crash.

Streams: (a) control statements planted in every syntactic position the quantifier lists, (b) random
grammatical programs (genprog), (c) near-grammatical mutants, (d) arbitrary bytes and the repository's own
test/fuzz seeds; inputs valid / JSONL / malformed / empty; 0-2 selectors.  The oracle is the property itself:
the outcome of lang.EvalProgram is ok, syntax, runtime or json -- never a leaked signal (`raw`), a panic, a
dead process -- and GetRootJson does not panic afterwards.  extra() runs a sample through the real binary."""
import os, json, re
from framework import Check, Case
from jqlib import run_case, simple_run, RunRes, BUILD, VERIF, run_impl
import genprog
from checklib import (ANY, abnormal, run_cli, Scratch, pmap, prescreen, tokens, LEGAL, light_enough)

CTLS = ["next", "exit", "return", "return 7", "break", "continue"]

# ---- statement wrappers: where a control statement S sits inside a statement
STMT_WRAPS = [
    "%s",
    "if (true) %s",
    "if (false) { print 0 } else %s",
    "{ %s }",
    "while (true) { print \"w\"\n %s\n print \"w2\"\n break }",
    "for (i = 0; i < 2; i++) { print \"l\"\n %s\n print \"l2\" }",
    "for (v in [1, 2]) { %s }",
    "for (k, v in {a: 1, b: 2}) %s",
    "for (c in \"ab\") { if (c == \"a\") %s\n print c }",
    "while (n < 2) { n++\n for (j = 0; j < 2; j++) { %s }\n print \"o\" }",
]

# ---- expression forms embedding a statement (the only way a statement gets into an expression position)
EXPR_FORMS = [
    "match (1) { 1 => { %s } }",
    "match (7) { q => { print \"m\"\n %s } }",
    "match ([1, 2]) { [a, b] => { %s }, _ => 0 }",
    "match (1) { 1 => match (2) { 2 => { %s } } }",
]

# ---- expression contexts (E is one of the forms above) as statements
EXPR_STMTS = [
    "x = %s",
    "print %s",
    "print 1, %s, 2",
    "if (%s) { print \"t\" } else { print \"e\" }",
    "while (%s) { print \"wb\"\n break }",
    "for (%s; i < 2; i++) { print \"fb\" }",
    "for (i = 0; %s; i++) { print \"fb\"\n break }",
    "for (i = 0; i < 2; %s) { i++ }",
    "for (v in %s) { print v }",
    "for (v in [1, 2]) { x = %s }",
    "y = [1, %s, 3]",
    "y = {k: %s}",
    "y = [1, 2][%s]",
    "y = 1 + %s",
    "y = %s + 1",
    "y = !%s",
    "y = -%s",
    "y = true && %s",
    "y = false || %s",
    "y = num(%s)",
    "z = [1]\n z.push(%s)",
    "printf(\"%%v\\n\", %s)",
    "y = match (%s) { _ => 1 }",
    "y = match (1) { 1 => %s }",
    "z = [1]\n z[%s] = 5",
    "y = (%s) is number",
    "y = \"a\" ~ %s",
    "y = 1 < %s",
    "u.k = %s",
]

# ---- rule contexts: where a statement goes (%s), what else surrounds it
RULE_CTX = [
    "BEGIN { print \"a\"\n %s\n print \"b\" }\nEND { print \"end\" }",
    "END { print \"a\"\n %s\n print \"b\" }",
    "BEGINFILE { print \"a\"\n %s\n print \"b\" }\n{ print \"p\" }",
    "ENDFILE { print \"a\"\n %s\n print \"b\" }\n{ print \"p\" }\nEND { print \"end\" }",
    "{ print \"a\"\n %s\n print \"b\" }\n{ print \"second\" }\nEND { print \"end\" }",
    "$ > 1 { %s }\n{ print \"second\", $ }",
    "function f(x) { print \"f\"\n %s\n print \"g\" }\nBEGIN { f(1)\n print \"b\" }",
    "function f(x) { %s\n return 1 }\n{ print \"p\", f($) }\nEND { print \"end\" }",
    "function f(x) { %s }\nEND { f(1)\n print \"b\" }",
    "function f(x) { %s }\nBEGINFILE { f(1)\n print \"b\" }\n{ print }",
    "function f(x) { %s }\nENDFILE { y = f(1) }\n{ print }",
    "function f(x) { %s\n return true }\nf($) { print \"body\", $ }\nEND { print \"end\" }",
    "function g(x) { %s }\nfunction f(x) { g(x)\n print \"after g\" }\n{ f($)\n print \"p\" }",
    "function f(x) { for (i = 0; i < 2; i++) { %s }\n print \"g\" }\n{ f($) }",
]

# ---- where an expression E is the rule pattern / a selector
PATTERN_CTX = [
    "%s { print \"x\", $ }\n{ print \"y\", $ }\nEND { print \"end\" }",
    "{ print \"first\" }\n%s\nEND { print \"end\" }",
    "BEGIN { print \"b\" }\n!%s { print \"x\" }",
]

INPUT_SETS = [
    ["[1,2,3]"], ['{"a":[1,2],"b":{"c":null}}'], ["[1]\n[2,3]\n"], ["[1,"], [""], [], ["[1,2]", '{"a":1}'], ["3 \"s\" null"],
    ["[1] ] [2]"], ["[[1,2],[3]]"], ["nul"], ["{\"a\":1}{\"a\":2}"],
]
SELECTOR_SETS = [[], [], [], ["$"], ["$[0]"], ["$.a"], ["$", "$[1]"], ["$.a", "$.b"]]
BAD_SELECTORS = ["", ")", "$.", "next", "exit", "1 +", "$[", "match ($) { _ => { exit } }", "match ($) { _ => { next } }",
                 "match (1) { 1 => { break } }", "match (1) { 1 => { return 1 } }", "match (1) { 1 => { continue } }",
                 "f()", "$ = 1", "$.x.y.z = 2", "print", "{", "1 / 0", "$file", "$index", "x", "printf", "[1].pop", "\"\\q\"", "/(/", "1 ~ \"(\""]

INSERT_TOKENS = ["next", "exit", "return", "break", "continue", "BEGIN", "END", "BEGINFILE", "ENDFILE", "function", "match", "=>", "{", "}",
                 "(", ")", "[", "]", ",", ";", "\n", "print", "printf", "if", "else", "while", "for", "in", "is", "$", "$x", "=", "==", "!", "~",
                 "\"", "'", "/", "\\", "1", "x", ".", "+", "++", "--", "_", "null", "0x", "1e5", "@", "#", "\x00", "\udcff", "é"]


# ---- recursion that runs into the call-depth limit: which frame is the one too many (a function's, a match case's)
# depends on the shape and on the number of frames below the recursion, so every shape is entered at every offset
RUNAWAY_FUNCS = [
    "function f(n) { return f(n + 1) }",
    "function f(n) { f(n) }",
    "function f(n) { return match (n) { 0 => 0, x => f(n) } }",
    "function f(n) { match (n) { q => { f(q) } } }",
    "function f(n) { match (n) { q => { return f(q) } } }",
    "function f(n) { return [f(n)] }",
    "function f(n) { return g(n) }\nfunction g(n) { return match (n) { _ => f(n) } }",
    "function f(n) { return match (n) { _ => match (n) { _ => f(n) } } }",
    "function f(n) { return match (n) { _ => match (n) { _ => match (n) { _ => f(n) } } } }",
    "function f(n) { for (v in [1]) { x = match (v) { 1 => f(n) } } }",
    "function f(n) { return match (n) { _ => f(n) } + 1 }",
    "function f(n) { return match ([n, n]) { [a, b] => f(a), _ => 0 } }",
    "function f(n) { while (true) { x = match (n) { _ => { f(n)\n break } } } }",
    "function f(n) { print match (n) { _ => f(n) } }",
    "function f(n) { return f(match (n) { _ => n }) }",
    "function f(n) { return match (f(n)) { _ => 1 } }",
]
# (template with %s for the call f(1), frames below the recursion)
RUNAWAY_ENTRIES = [
    ("BEGIN { print \"start\"\n print %s\n print \"done\" }", 0),
    ("{ print \"start\"\n x = %s\n print \"done\" }", 0),
    ("END { print \"start\"\n %s\n print \"done\" }", 0),
    ("BEGINFILE { print \"start\"\n x = [%s]\n print \"done\" }", 0),
    ("ENDFILE { print \"start\"\n x = %s\n print \"done\" }", 0),
    ("%s { print \"body\" }\nEND { print \"end\" }", 0),
    ("BEGIN { print match (1) { 1 => %s } }", 1),
    ("{ print match ($) { _ => %s } }", 1),
    ("BEGIN { match (1) { 1 => { print \"m\"\n x = %s } } }", 1),
    ("function w1(n) { return %s }\nBEGIN { print w1(1) }", 1),
    ("function w1(n) { return %s }\n{ print w1($) }", 1),
    ("function w1(n) { return w2(n) }\nfunction w2(n) { x = %s\n return x }\nBEGIN { print w1(0) }", 2),
    ("function w1(n) { return match (n) { _ => %s } }\nEND { print w1(0) }", 2),
    ("BEGIN { print match (1) { 1 => match (2) { 2 => %s } } }", 2),
    ("function w1(n) { return match (n) { _ => match (1) { 1 => %s } } }\nBEGINFILE { print w1(0) }", 3),
    ("function w1(n) { return w2(n) }\nfunction w2(n) { return w3(n) }\nfunction w3(n) { return %s }\nmatch (1) { 1 => w1(0) } { print \"body\" }", 4),
    ("function w1(n) { return match (n) { _ => w2(n) } }\nfunction w2(n) { return match (n) { _ => w3(n) } }\nfunction w3(n) { return [%s] }\nBEGIN { x = w1(1) }", 5),
]


def nested_match(depth, inner="1"):
    return "match(1){1=>" * depth + inner + "}" * depth


def recursion_cases(rng, quick, limit):
    """(tag, prog, inputs, selectors)"""
    out = []
    for funcs in RUNAWAY_FUNCS:
        entries = RUNAWAY_ENTRIES if not quick else rng.sample(RUNAWAY_ENTRIES, 9)
        for tmpl, below in entries:
            out.append(("recursion", funcs + "\n" + tmpl % "f(1)", ["[1]"], []))
    # finite recursion ending within two frames of the limit, every shape of the C20 check, every offset
    try:
        from checks.c20 import SHAPES, call_text
    except Exception:
        SHAPES, call_text = {}, None
    for shape, (funcs, per) in SHAPES.items():
        for tmpl, below in (RUNAWAY_ENTRIES if not quick else rng.sample(RUNAWAY_ENTRIES, 4)):
            base = (limit - below) // per
            for d in (base - 1, base, base + 1, base + 2):
                out.append(("recursion", funcs + "\n" + tmpl % call_text(shape, d), ["[1]"], []))
    # syntactically nested match expressions: every frame is a match frame
    for d in (limit - 2, limit - 1, limit, limit + 1, limit + 2):
        out.append(("nested-match", "BEGIN { print " + nested_match(d) + " }", [], []))
        out.append(("nested-match", "{ print }", ["[1]"], [nested_match(d)]))
        out.append(("nested-match", "function f(n) { return " + nested_match(d - 1, "n") + " }\n{ print f($) }", ["[1, 2]"], []))
        out.append(("nested-match", nested_match(d) + " { print \"body\", $ }", ["[7]"], []))
        out.append(("nested-match", "BEGIN { x = " + nested_match(d, "{ exit }") + " }", [], ["$"]))
    return out


# ---- index stress: every receiver kind x every index magnitude/kind x read, store, ++, +=, nested, and $-paths on input
IDX_RECEIVERS = [("\"\"", 0), ("\"abc\"", 3), ("\"é\"", 2), ("\"héllo wörld\"", 13), ("[]", 0), ("[1, 2, 3]", 3), ("[[1, 2], \"ab\", {k: [7]}]", 3),
                 ("{a: 1, k: [1, 2]}", 2), ("{}", 0), ("5", 1), ("null", 0), ("true", 0), ("/ab/", 2), ("unset_receiver", 0), ("lab", 0), ("printf", 0)]
IDX_FIXED = ["0", "1", "2", "-1", "-2", "-3", "-4", "0.5", "-0.5", "1.9", "-1.9", "(1000000000 * 1000000000)", "(-1000000000 * 1000000000)",
             "9223372036854775808", "-9223372036854775808", "9223372036854775807", "4294967296", "-4294967297", "2147483648",
             "num(\"nan\")", "num(\"inf\")", "num(\"-inf\")", "\"0\"", "\"x\"", "\"k\"", "\"\"", "true", "null", "[1]", "{}", "/a/", "unset_index", "-0"]
IDX_OPS = [
    "print r[%s]", "x = r[%s]\n print x, r", "r[%s] = 1\n print r", "r[%s]++\n print r", "y = ++r[%s]\n print y, r", "y = r[%s]--\n print y", "r[%s] += 1\n print r",
    "print r[%s][%s]", "r[%s][%s] = 1\n print r", "print r[%s].k", "r[%s].k = 1\n print r", "print r[%s].length()", "print r[%s] is string, r[%s] is null",
    "for (v in r[%s]) { print v }", "print match (r[%s]) { null => \"n\", q => q }", "print json(r[%s])", "z = [r[%s], r[%s]]\n print z",
]
IDX_DOCS = ["[\"abc\", \"\", \"é\"]", "[[1, 2, 3], [], [[1]]]", "[{\"a\": 1, \"s\": \"abc\", \"l\": [1, 2]}, {}]", "\"abc\"", "\"\"", "[5, null, true]",
            "{\"s\": \"abc\", \"l\": [1, 2, 3]}", "7", "null"]
IDX_DOLLAR_OPS = ["{ print $[%s] }", "{ print $.s[%s], $.l[%s] }", "{ $[%s] = 1\n print $ }", "{ $[%s]++\n print $ }", "{ $.s[%s] = \"z\"\n print $ }",
                  "{ print $[%s][%s] }", "{ $[%s][%s] += 1\n print $ }", "BEGINFILE { print $[%s] }\nENDFILE { print $[%s] }", "$[%s] { print \"hit\", $ }"]


def index_cases(rng, quick):
    out = []
    for recv, n in IDX_RECEIVERS:
        idxs = IDX_FIXED + ["%d" % v for v in {n - 1, n, n + 1, -n, -n - 1, -n - 2}]
        for op in IDX_OPS:
            for i in (rng.sample(idxs, 9) if quick else idxs):
                init = "" if recv == "unset_receiver" else "r = %s\n " % recv
                if recv in ("lab", "printf"):
                    # a function cannot be stored: index it where it stands
                    body = op.replace("r[", recv + "[").replace(", r", "").replace("print r", "print 1")
                    init = ""
                else:
                    body = op
                body = body.replace("%s", i)
                prog = "function lab(s) { return s }\nBEGIN { print \"start\"\n %s%s\n print \"done\" }" % (init, body)
                out.append(("index", prog, [], []))
    for doc in IDX_DOCS:
        for op in IDX_DOLLAR_OPS:
            for i in (rng.sample(IDX_FIXED, 6) if quick else IDX_FIXED):
                i = i.replace("unset_index", "u")
                out.append(("index", op.replace("%s", i) + "\nEND { print \"done\" }", [doc], []))
        for i in (rng.sample(IDX_FIXED, 8) if quick else IDX_FIXED):
            if "unset" in i:
                continue
            out.append(("index", "{ print }", [doc], ["$[%s]" % i]))
            out.append(("index", "{ print }", [doc], ["$.s[%s]" % i, "$[%s][%s]" % (i, i)]))
    return out


# ---- escape sequences in string literals: a backslash followed by every byte value, the literal ending 0-6 characters
# after it (hex digits, as a \uXXXX / \xXX reader would consume them, and non-digits), in every position a literal can take
ESC_CTX = [
    "BEGIN { print \"id: @@\" }",
    "BEGIN { x = 'v@@'\n print x }",
    "\"@@\" { print }\nEND { print \"end\" }",
    "BEGIN { o = {\"k@@\": 1}\n print o }",
    "BEGIN { printf(\"@@\\n\") }",
    "BEGIN { print match (\"a\") { \"@@\" => 1, _ => 2 } }",
    "{ print $[\"@@\"] }",
    "function f(s) { return s }\nEND { print f(\"@@\") }",
    "BEGIN { print \"a\" ~ \"@@\" }",
    "BEGIN { print [\"@@\"].length(), \"@@\".length() }",
    "SELECTOR",
]
ESC_HEX_TAILS = ["", "1", "1f", "1f6", "1F60", "1f600", "00e9zz"]
ESC_OTHER_TAILS = ["g", "zzzz", "{1f600}", "+123", "-1", " 12", "\\", "\\n", "é", "12\udcff"]


def escape_cases(rng, quick):
    out = []

    def add(ch, tail):
        lit = "\\" + ch + tail
        ctx = rng.choice(ESC_CTX)
        if ctx == "SELECTOR":
            out.append(("escape", "{ print }", ["[1]"], ["\"a" + lit + "\""]))
        else:
            out.append(("escape", ctx.replace("@@", lit), ["[1, \"a\"]"], []))

    every = [bytes([b]).decode("utf-8", "surrogateescape") for b in range(256)]
    alnum = [c for c in every if c.isascii() and c.isalnum()]
    rest = [c for c in every if c not in alnum]
    # every letter and digit, the literal truncated at every length after it
    for ch in alnum:
        for tail in ESC_HEX_TAILS:
            add(ch, tail)
        for tail in (rng.sample(ESC_OTHER_TAILS, 1 if quick else len(ESC_OTHER_TAILS))):
            add(ch, tail)
            add(ch, tail + " end")
    for ch in rest:
        for tail in (rng.sample(ESC_HEX_TAILS + ESC_OTHER_TAILS, 1) if quick else ESC_HEX_TAILS + ESC_OTHER_TAILS):
            add(ch, tail)
    if not quick:
        for ch in every:
            for tail in ESC_HEX_TAILS + ESC_OTHER_TAILS:
                for _ in range(2):
                    add(ch, tail)
    return out


# ---- diagnostics of the tool: a syntax / runtime error located after text that is wider or narrower in bytes than in
# characters (2-, 3-, 4-byte characters, combining marks, tabs, bytes that are not UTF-8), on the error's line before and after
# the error, on other lines, in selectors.  All of them go through the real binary (extra()): the error printer must not crash.
DIAG_WIDE = ["é", "日", "😀", "\t", "e\u0301", "\udcff", "\u200b", "a"]
DIAG_COUNTS = [1, 3, 8, 20, 60, 200]
DIAG_PROGS = [
    ("{ print \"@@\" / $.n }", ["[{\"n\": 0}]"]),
    ("BEGIN { print \"@@\", 1 / 0 }", []),
    ("BEGIN { print \"@@\", \"\\q\" }", []),
    ("BEGIN { x = \"@@\"; x.y.z = 1 }", []),
    ("BEGIN { print \"@@\" )", []),
    ("BEGIN { print \"@@\" +* 2 }", []),
    ("BEGIN { print \"@@\" } }", []),
    ("BEGIN { print \"@@", []),
    ("BEGIN { print '@@', 1 / 0, \"trailing text after the position of the error, on the same line\" }", []),
    ("BEGIN {\n print 1\n print \"@@\", 1 / 0\n}", []),
    ("# @@\nBEGIN { print 1 / 0 }", []),
    ("BEGIN { print 1 / 0 } # @@", []),
    ("BEGIN { print 1 / 0, \"@@\" }", []),
    ("BEGIN { print 1 ) } # @@", []),
    ("function f(s) { return s / 0 }\n{ print \"@@\", f(\"@@\") }", ["[1]"]),
    ("{ print /@@/ ~ 1, $.a.b.c = 2 }", ["[1]"]),
    ("@@ BEGIN { print 1 }", []),
    ("SELECTOR \"@@\" / 0", ["[1]"]),
    ("SELECTOR \"@@\" )", ["[1]"]),
]


def diag_cases(rng, quick):
    out = []
    for tmpl, inputs in DIAG_PROGS:
        for w in DIAG_WIDE:
            for n in (rng.sample(DIAG_COUNTS[:3], 1) + rng.sample(DIAG_COUNTS[3:], 1) if quick else DIAG_COUNTS):
                text = tmpl.replace("@@", w * n)
                if text.startswith("SELECTOR "):
                    out.append(("diag", "{ print }", inputs, [text[9:]]))
                else:
                    out.append(("diag", text, inputs, []))
    return out


# ---- values that contain themselves, as operands of every operation.  A traversal without a cycle check does not end in an
# error value but in the death of the process (Go stack exhaustion), so these cases are first run in small isolated batches.
# (name, setup statements, X, Y): X and Y are two DISTINCT values of the same cyclic shape
def cyc_ring(n, mixed):
    st = []
    for pre in "cd":
        for i in range(n):
            st.append("%s%d = %s" % (pre, i, "{n: 0}" if (mixed and i % 2) else "[0]"))
        for i in range(n):
            nxt = "%s%d" % (pre, (i + 1) % n)
            st.append(("%s%d.n = %s" if (mixed and i % 2) else "%s%d[0] = %s") % (pre, i, nxt))
    return "\n ".join(st)


CYC_BUILD = [
    ("self-array", "a = [1]\n a[0] = a\n b = [1]\n b[0] = b", "a", "b"),
    ("self-array-from-empty", "a = []\n a[0] = a\n b = []\n b[0] = b", "a", "b"),
    ("self-array-among-scalars", "a = [1, \"s\", 0, null]\n a[2] = a\n b = [1, \"s\", 0, null]\n b[2] = b", "a", "b"),
    ("self-array-twice", "a = [0, 0]\n a[0] = a\n a[1] = a\n b = [0, 0]\n b[0] = b\n b[1] = b", "a", "b"),
    ("mutual-arrays", "a = [0]\n b = [0]\n a[0] = b\n b[0] = a", "a", "b"),
    ("mutual-arrays-two-pairs", "a = [0]\n a2 = [0]\n a[0] = a2\n a2[0] = a\n b = [0]\n b2 = [0]\n b[0] = b2\n b2[0] = b", "a", "b"),
    ("two-levels", "a = [[0]]\n a[0][0] = a\n b = [[0]]\n b[0][0] = b", "a", "b"),
    ("self-object", "a = {}\n a.me = a\n b = {}\n b.me = b", "a", "b"),
    ("self-object-two-members", "a = {k: 1}\n a.me = a\n a.l = a\n b = {k: 1}\n b.me = b\n b.l = b", "a", "b"),
    ("mutual-objects", "a = {}\n b = {}\n a.me = b\n b.me = a", "a", "b"),
    ("object-in-array-in-object", "a = {}\n l = [0]\n a.l = l\n l[0] = a\n b = {}\n m = [0]\n b.l = m\n m[0] = b", "a", "b"),
    ("array-in-object-in-array", "o = {}\n a = [0]\n o.me = a\n a[0] = o\n p = {}\n b = [0]\n p.me = b\n b[0] = p", "a", "b"),
    ("cycle-below-the-top", "c = [1]\n c[0] = c\n d = [1]\n d[0] = d\n a = [1, c]\n b = [1, d]", "a", "b"),
    ("cycle-in-a-member", "c = {}\n c.me = c\n d = {}\n d.me = d\n a = {me: c, k: 2}\n b = {me: d, k: 2}", "a", "b"),
    ("ring-of-3", cyc_ring(3, False), "c0", "d0"),
    ("ring-of-4-mixed", cyc_ring(4, True), "c0", "d0"),
    ("ring-of-12", cyc_ring(12, False), "c0", "d0"),
    ("ring-of-40-mixed", cyc_ring(40, True), "c0", "d0"),
    ("ring-entered-at-two-places", cyc_ring(5, True), "c0", "c2"),
]
CYC_FUNCS = ("function idf(p) { return p }\nfunction eqf(p, q) { return p == q }\n"
             "function walk(p, n) { if (n == 0) { return p }\n return walk(p[0], n - 1) }\n")
CYC_OPS = [
    "print X == Y", "print X != Y", "print X < Y", "print X <= Y", "print X > Y", "print X >= Y",
    "print X == X", "print X != X", "print X < X", "print X >= X",
    "print X == 1", "print 1 != X", "print X == null", "print null < X", "print X == \"s\"", "print X == u", "print u != X", "print X == [1]", "print {} != X",
    "print [Y].contains(X)", "print X.contains(Y)", "print X.contains(X)", "print [1, X, Y].contains(Y)", "print [[Y]].contains([X])", "print [1, 2].contains(X)",
    "print [X, Y].sort()", "print X.sort()", "print [Y, 1, X, \"s\"].sort()", "z = [X, Y, X]\n z.sort()\n print z.length()",
    "print match (X) { 1 => \"one\", \"s\" => \"str\", null => \"null\", _ => \"other\" }", "print match (X) { [q] => q == Y, _ => \"other\" }",
    "print match (X) { [[[q]]] => 1, [q] => 2, _ => 3 }", "print match ([X, Y]) { [p, q] => p == q, _ => 0 }", "print match (1) { 1 => X } == Y",
    "print match (X) { q => q } != Y", "match (X) { q => { print q == Y } }", "print match (X) { [1] => 1, [[1]] => 2, [null] => 3, _ => 4 }",
    "print X", "print X, Y", "print [X, Y], {k: X}", "printf(\"%v %v\\n\", X, Y)", "printf(\"%s\\n\", X)", "printf(\"%20v|%-20v|\\n\", X, Y)", "printf(\"%f\\n\", X)",
    "printf(X)", "printf(\"%v\\n\")",
    "print json(X)", "print json([1, X])", "print json({k: [Y]})", "s = json(X)\n print \"after\"",
    "print X.pluck(\"me\")", "print X.pluck(\"me\", \"l\", \"n\")", "print {k: X, j: Y}.pluck(\"k\")", "print X.pluck(X)", "print {k: 1}.pluck(X)",
    "for (v in X) { print v }", "for (k, v in X) { print k, v == Y }", "for (v in X) { for (w in v) { print w != X } }", "for (v in [X, Y]) { print v == X }",
    "z = [1, 2]\n print z[X]", "z = [1, 2]\n z[X] = 1\n print z", "q = {}\n q[X] = 1\n print q", "print X[X]", "X[Y] = 1\n print X", "print X[0] == X", "print X[0][0] != Y",
    "print X.me == X", "print X[0] == Y[0]", "print X.me.me != Y.me", "print X.n == Y.n",
    "print idf(X) == Y", "print eqf(X, Y)", "print eqf(X, X)", "print walk(X, 7) == walk(Y, 7)", "print walk(X, 3) != X", "print num(X)", "print X.length(), Y.length()",
    "print X + \"\"", "print \"\" + X + Y", "print X + Y", "print X - Y", "print X ~ \"a\"", "print \"a\" ~ X", "print -X", "print !X, !!Y", "print X && Y", "print (X || Y) == X",
    "print X is array, X is object",
    "X.push(Y)\n print X", "X.push(X)\n print X == Y", "print \"a,b\".split(X)", "print X.pop() == Y", "print X.popfirst() != X",
    "c = X\n c[1] = 5\n print c == X", "e = [X]\n f = [Y]\n print e == f", "e = {k: X}\n f = {k: Y}\n print e != f", "x1 = X\n x2 = X\n print x1 == x2",
    "$ = X", "$ = [X, Y]\n print $ == X", "$ = X\n print $ == Y", "print $ == X",
    "if (X == Y) { print \"eq\" } else { print \"ne\" }", "while (X != Y) { print \"loop\"\n break }", "print X == Y || true", "print true || X == Y",
    "print (X == Y) == (Y == X)", "n = 0\n for (i = 0; i < 3; i++) { if (X != Y) { n++ } }\n print n",
]
# (template with SETUP, OP; inputs)
CYC_CTX = [
    ("BEGIN { print \"start\"\n SETUP\n OP\n print \"done\" }", []),
    ("BEGIN { print \"start\"\n SETUP\n OP\n print \"done\" }", []),
    ("BEGIN { SETUP }\n{ print \"start\"\n OP\n print \"done\" }\nEND { print \"end\" }", ["[1, 2]"]),
    ("{ SETUP\n OP }", ["{\"k\": 1}"]),
    ("BEGIN { SETUP }\nEND { print \"start\"\n OP\n print \"done\" }", ["[1]"]),
    ("function run() { SETUP\n OP\n return 1 }\nBEGINFILE { print run() }", ["[1]"]),
    ("ENDFILE { SETUP\n OP }", ["[1]"]),
]
# the cycle made of the input itself: every record contains itself; the previous record is the second value
CYC_INPUT = "{ $.me = $\n a = $\n if (prev is object) { b = prev\n OP }\n prev = $ }"
CYC_PATTERN = ["BEGIN { SETUP }\nX == Y { print \"hit\" }\n{ print \"second\" }", "BEGIN { SETUP }\n!(X != Y) { print \"hit\" }",
               "BEGIN { SETUP }\n[Y].contains(X) { print \"hit\" }", "BEGIN { SETUP }\nmatch (X) { 1 => 1, _ => 0 } { print \"hit\" }"]


def cyclic_cases(rng, quick):
    out = []

    def add(ctx, inputs, b, op, sels=()):
        name, setup, x, y = b
        body = op.replace("X", x).replace("Y", y)
        prog = CYC_FUNCS + ctx.replace("SETUP", setup).replace("OP", body)
        out.append(("cyclic", prog, list(inputs), list(sels)))

    for op in CYC_OPS:
        for b in (rng.sample(CYC_BUILD, 3) if quick else CYC_BUILD):
            ctx, inputs = CYC_CTX[0] if rng.random() < 0.6 else rng.choice(CYC_CTX)
            add(ctx, inputs, b, op)
    for b in CYC_BUILD:
        for op in (rng.sample(CYC_OPS, 6) if quick else []):
            ctx, inputs = rng.choice(CYC_CTX)
            add(ctx, inputs, b, op)
        for pat in CYC_PATTERN:
            name, setup, x, y = b
            out.append(("cyclic", pat.replace("SETUP", setup).replace("X", x).replace("Y", y), ["[1, 2]"], []))
        # -o of a cyclic root, a selector that builds nothing cyclic on a root that is
        out.append(("cyclic", "{ %s\n $ = %s }" % (b[1], b[2]), ["0"], []))
    for op in (rng.sample(CYC_OPS, 40) if quick else CYC_OPS):
        body = op.replace("X", "a").replace("Y", "b")
        out.append(("cyclic", CYC_FUNCS + CYC_INPUT.replace("OP", body), ["[{\"n\": 1}, {\"n\": 1}, {\"n\": 2}]"], []))
    return out


def isolated_prescreen(lines_by_id, group=6, stop_after=10):
    """runs the cases in small batches, a few at a time; stops once `stop_after` of them ended abnormally.
    Returns {id: RunRes} for the cases that were run."""
    ids = list(lines_by_id)
    groups = [ids[i:i + group] for i in range(0, len(ids), group)]
    res, bad = {}, 0
    wave = 12
    for w in range(0, len(groups), wave):
        part = groups[w:w + wave]
        for g, r in zip(part, pmap(lambda g: run_impl([lines_by_id[i] for i in g], timeout=120, jobs=1), part, jobs=6)):
            for i in g:
                res[i] = RunRes(r.get(i, []))
                if abnormal(res[i]):
                    bad += 1
        if bad >= stop_after:
            break
    return res


# ---- receivers rebound while the arguments of their own method call are evaluated: the method is looked up and bound
# first, then the arguments run; every method x every kind the variable can be re-assigned to x three ways of re-assigning
REBIND_METHODS = [("[3,1,2]", "length"), ("[3,1,2]", "push"), ("[3,1,2]", "pop"), ("[3,1,2]", "popfirst"), ("[3,1,2]", "contains"),
                  ("[3,1,2]", "sort"), ("{\"a\": 1}", "length"), ("{\"a\": 1}", "pluck"), ("\"a,b\"", "length"), ("\"a,b\"", "split"),
                  ("\"a,b\"", "lower"), ("\"a,b\"", "upper"), ("2.5", "floor"), ("2.5", "ceil"), ("2.5", "round")]
REBIND_NEW = ["1", "\"s\"", "null", "[9]", "{\"z\": 2}", "true", "/r/", "u_n_s_e_t"]


def rebind_cases(rng, quick):
    out = []
    for recv, m in REBIND_METHODS:
        for new in REBIND_NEW:
            progs = [
                "BEGIN { r = %s\n print r.%s(r = %s)\n print r\n print \"done\" }" % (recv, m, new),
                "function set() { r = %s\n return \",\" }\nBEGIN { r = %s\n print r.%s(set())\n print r\n print \"done\" }" % (new, recv, m),
                "BEGIN { r = %s\n print r.%s(\"a\", r = %s, r)\n print \"done\" }" % (recv, m, new),
                "function clear() { s = %s }\n{ s = $\n print s.%s(clear())\n print s }" % (new, m),
                "{ o = {\"k\": $}\n print o.k.%s(o.k = %s)\n print o }" % (m, new),
            ]
            pairs = [(prog, ["[%s]" % recv] if k >= 3 else []) for k, prog in enumerate(progs)]
            for prog, inputs in (pairs if not quick else rng.sample(pairs, 3)):
                out.append(("rebind", prog, inputs, []))
    return out


def planted_programs():
    """The finite family (a): every control statement x wrapper x rule context, every expression form x context."""
    out = []
    for ctl in CTLS:
        for w in STMT_WRAPS:
            for rc in RULE_CTX:
                out.append(("stmt", rc % (w % ctl)))
        for ef in EXPR_FORMS:
            e = ef % ctl
            for es in EXPR_STMTS:
                for rc in RULE_CTX[:8] + RULE_CTX[11:12]:
                    out.append(("expr", rc % (es % e)))
            for pc in PATTERN_CTX:
                out.append(("pattern", pc % e))
    return out


def selector_cases():
    out = []
    for ctl in CTLS:
        for ef in EXPR_FORMS:
            e = ef % ctl
            for prog in ["{ print }", "BEGIN { print \"b\" }\nBEGINFILE { print \"bf\" }\n{ print $ }\nENDFILE { print \"ef\" }\nEND { print \"e\" }"]:
                out.append((prog, [e]))
                out.append((prog, ["$", e]))
                out.append((prog, ["[1, %s]" % e]))
    return out


def mutate(rng, src):
    toks = tokens(src)
    if not toks:
        return rng.choice(INSERT_TOKENS)
    k = rng.random()
    i = rng.randrange(len(toks))
    if k < 0.22:
        del toks[i]
    elif k < 0.44:
        toks.insert(i, rng.choice(INSERT_TOKENS) + rng.choice(["", " "]))
    elif k < 0.54:
        toks.insert(i, toks[i])
    elif k < 0.64 and len(toks) > 1:
        j = rng.randrange(len(toks))
        toks[i], toks[j] = toks[j], toks[i]
    elif k < 0.80:
        s = "".join(toks)
        return s[:rng.randrange(len(s) + 1)]
    elif k < 0.88:
        toks[i] = rng.choice(INSERT_TOKENS)
    else:
        b = bytearray("".join(toks).encode("utf-8", "surrogateescape"))
        if b:
            b[rng.randrange(len(b))] = rng.randrange(256)
        return bytes(b).decode("utf-8", "surrogateescape")
    return "".join(toks)


def rand_bytes(rng):
    n = rng.choice([0, 1, 2, 3, 5, 8, 13, 21, 40])
    if rng.random() < 0.5:
        return bytes(rng.randrange(256) for _ in range(n)).decode("utf-8", "surrogateescape")
    alpha = "{}()[]$.,;=+-*/%!~<>&|\"'\\ \n\tabenxit01BEGINDFL_:#@"
    return "".join(rng.choice(alpha) for _ in range(n * 2))


def rand_inputs(rng):
    k = rng.random()
    if k < 0.45:
        return [genprog.rand_input(rng) for _ in range(rng.choice([1, 1, 2]))]
    if k < 0.7:
        return list(rng.choice(INPUT_SETS))
    if k < 0.85:
        t = genprog.rand_input(rng)
        cut = rng.randrange(len(t) + 1)
        return [t[:cut] + rng.choice(["", "]", "}", "x", ",", "\x00"]) + (t[cut:] if rng.random() < 0.5 else "")]
    return []


def call_depth_limit():
    try:
        src = open(os.path.join(VERIF, "coq", "theories", "Gen", "Generated.v")).read()
        n = int(re.search(r"Definition\s+call_depth_limit\s*:\s*Z\s*:=\s*([0-9]+)", src).group(1))
        return n if 100 <= n <= 10000 else 4096
    except Exception:
        return 4096


def enc(s):
    """program / selector / input text -> bytes (arbitrary bytes travel as surrogate escapes, as in jqlib.hx)"""
    return s if isinstance(s, bytes) else s.encode("utf-8", "surrogateescape")


def mk_line(cid, prog, inputs, sels):
    files = []
    for i, t in enumerate(inputs):
        b = enc(t)
        files.append(("<test%d>" % (i + 1), [b[k:k + 512] for k in range(0, len(b), 512)], False))
    return run_case(cid, enc(prog), files, [enc(s) for s in sels], True)


class C01(Check):
    pid = "C01"
    props = ["C01_legal.v"]
    rule = ("(a) next/exit/return/break/continue planted in every position: BEGIN/END/BEGINFILE/ENDFILE/pattern bodies, rule patterns and "
            "loop headers and every operand slot (through match blocks), function bodies reached from every rule kind, nested loops, "
            "selectors; recursion into the call-depth limit (16 runaway shapes and 8 finite shapes ending within two frames of the limit x 17 ways of "
            "entering with 0-5 frames below, limit-2..limit+2 syntactically nested match expressions as program, pattern, function and selector); "
            "index stress (16 receiver kinds x 39 index values incl. negative, past the end, fractional, 1e18, 2^63, NaN, non-numbers x 17 "
            "read/store/++/+=/nested forms, and $-paths and selectors on 9 input documents); values that contain themselves (19 shapes: self-containing "
            "and mutually containing arrays and objects, mixed, rings of 3-40, cycles below the top, records made cyclic by $.me = $) as operands of "
            "every operation (comparisons with another cyclic value, themselves and scalars, contains, sort, match subjects, print, printf, json, -o, "
            "pluck, for-in, index, argument, arithmetic, ~, push/pop), first run in isolated batches because a missing cycle check kills the process; (b) random grammatical programs; (c) token-level mutants and truncations of (a),(b) and the repository seeds; "
            "(d) random bytes and the repository's test/fuzz seeds; inputs valid/JSONL/malformed/empty, 0-2 selectors. "
            "non-trivial = the program text is not empty and (it parses or at least one rule or selector ran)")

    def project(self, r):
        # outcome class, stdout and the -o document; a killed model run carries no information
        if r.outcome == "crash":
            return ANY
        return (r.outcome, r.stdout, r.json)

    def generate(self, rng, tier):
        quick = tier == "quick"
        specs = []      # (tag, prog, inputs, selectors)
        planted = planted_programs()
        if quick:
            planted = rng.sample(planted, 700)
        for kind, prog in planted:
            specs.append(("planted-" + kind, prog, list(rng.choice(INPUT_SETS[:4] if rng.random() < 0.7 else INPUT_SETS)),
                          list(rng.choice(SELECTOR_SETS[:5]))))
        sc = selector_cases()
        for prog, sels in (rng.sample(sc, 60) if quick else sc):
            specs.append(("planted-selector", prog, list(rng.choice(INPUT_SETS[:3] + INPUT_SETS[6:7])), sels))
        for s in BAD_SELECTORS:
            specs.append(("selector", "BEGIN { print \"b\" }\n{ print }\nEND { print \"e\" }", ["[1,2]\n{\"a\":1}"], [s]))
            specs.append(("selector", "{ print }", ["[[1]]"], ["$", s]))
        # -o with nothing processed, exit everywhere
        for prog in ["", "BEGIN { exit }", "{}", "END { print 1 }", "BEGINFILE { exit }", "{ exit }", "ENDFILE { exit }", "END { exit }",
                     "BEGIN { next }", "END { next }", "BEGINFILE { next }", "ENDFILE { next }", "{ next }"]:
            for inputs in ([], [""], [" \n"], ["[1]"], ["", ""], ["[]"]):
                specs.append(("noinput", prog, inputs, list(rng.choice(SELECTOR_SETS[:5]))))
        specs += recursion_cases(rng, quick, call_depth_limit())
        specs += index_cases(rng, quick)
        specs += rebind_cases(rng, quick)
        specs += escape_cases(rng, quick)
        specs += diag_cases(rng, quick)
        nrand = 300 if quick else 30000
        base = []
        for _ in range(nrand):
            prog = genprog.rand_program(rng, max_depth=rng.choice([2, 3]))
            base.append(prog)
            sels = []
            if rng.random() < 0.25:
                sels = [rng.choice(["$", "$.k", "$.list", "$[0]", "$.name.z", "$[1]"] + BAD_SELECTORS) for _ in range(rng.choice([1, 1, 2]))]
            specs.append(("random", prog, rand_inputs(rng), sels))
        seeds = []
        try:
            seeds = json.load(open(os.path.join(BUILD, "seeds.json")))
        except Exception:
            pass
        for s in seeds:
            if not isinstance(s.get("prog"), str):
                continue
            inputs = [x for x in (s.get("json"), s.get("json2")) if x]
            specs.append(("seed", s["prog"], inputs, []))
            base.append(s["prog"])
        base += [p for _, p in planted[:200]]
        nmut = 450 if quick else 40000
        for _ in range(nmut):
            src = rng.choice(base)
            if not isinstance(src, str):
                continue
            m = mutate(rng, src)
            if rng.random() < 0.2:
                m = mutate(rng, m)
            if len(m) > 60000:
                continue
            sels = [mutate(rng, rng.choice(["$", "$.a[0]", "match ($) { _ => { exit } }"]))] if rng.random() < 0.1 else []
            specs.append(("mutant", m, rand_inputs(rng), sels))
        nbytes = 120 if quick else 6000
        for _ in range(nbytes):
            specs.append(("bytes", rand_bytes(rng), rand_inputs(rng), [rand_bytes(rng)] if rng.random() < 0.1 else []))

        lines, info = {}, {}
        for k, (tag, prog, inputs, sels) in enumerate(specs):
            cid = "c%d" % k
            lines[cid] = mk_line(cid, prog, inputs, sels)
            info[cid] = (tag, prog, inputs, sels)
        # output-heavy runs are checked on the implementation only (see checklib.light_enough)
        pre, light = prescreen(lines)
        # cyclic operands: isolated batches first (a missing cycle check kills the process); what ends abnormally there is
        # reported from that run (extra()), the rest joins the other cases
        self._isolated_bad = []
        cyc_lines = {}
        for tag, prog, inputs, sels in cyclic_cases(rng, quick):
            cid = "y%d" % len(cyc_lines)
            cyc_lines[cid] = mk_line(cid, prog, inputs, sels)
            info[cid] = (tag, prog, inputs, sels)
        iso = isolated_prescreen(cyc_lines)
        self._cyclic_not_run = len(cyc_lines) - len(iso)
        for cid, r in iso.items():
            lines[cid] = cyc_lines[cid]
            pre[cid] = r
            if light_enough(r):
                light.add(cid)
        cases = []
        for cid, line in lines.items():
            tag, prog, inputs, sels = info[cid]
            meta = {"prog": prog, "inputs": inputs, "selectors": sels, "stream": tag}
            r = pre[cid]
            if tag == "cyclic" and abnormal(r):
                c = Case(cid, None, dict(meta, line=line, isolated_run=abnormal(r)), True, (tag,))
                self._isolated_bad.append((c, abnormal(r)))
                cases.append(c)
                continue
            nontrivial = bool(prog.strip()) and (r.outcome != "syntax" or r.iolog != "-" or len(tokens(prog)) > 1)
            c = Case(cid, line, meta, nontrivial, (tag,))
            # (a million-element auto-fill is a single step for the implementation, not for the model's lists)
            # (thousands of nested match expressions: the model's parser needs minutes)
            if (cid not in light or "1000000" in prog or tag == "nested-match" or len(prog) > 8000) and not abnormal(r):
                # judged here, on the implementation alone: the extracted model is too slow for it
                c.meta["impl_only"] = "output-heavy or slow (%s, %d bytes of output)" % (r.outcome, len(r.stdout))
                c.meta["line"] = line
                c.line = None
            cases.append(c)
        return cases

    def oracle(self, case, impl):
        return abnormal(impl)

    # ------------------------------------------------------------------ the real binary
    def extra(self, ctx):
        rng, tier = ctx["rng"], ctx["tier"]
        viol = []
        stats = {}
        stats["impl_only_cases"] = sum(1 for c in ctx["cases"] if "impl_only" in c.meta)
        # (2) a sample through the binary
        impl = ctx["impl"]
        pool = [c for c in ctx["cases"] if "prog" in c.meta and "inputs" in c.meta and (c.line or "nested-match" in c.tags)]
        cand = []
        for c in pool:
            r = RunRes(impl.get(c.id, []))
            prog = c.meta["prog"]
            loops = ("while" in prog) or ("for" in prog)
            if r.outcome in ("ok", "syntax", "json") or (r.outcome == "runtime" and not loops) or r.outcome not in LEGAL:
                cand.append(c)
        n = 260 if tier == "quick" else 2500
        forced = [c for c in cand if "noinput" in c.tags or "planted-selector" in c.tags or "selector" in c.tags]
        rng.shuffle(forced)
        sample = forced[:n // 3]
        # recursion into the call-depth limit: all of them (quick: 150), the limit must be an ordinary error in the tool too
        deep = [c for c in pool if "recursion" in c.tags or "nested-match" in c.tags]
        rng.shuffle(deep)
        sample += deep[:150] if tier == "quick" else deep
        chosen = set(sample)
        rest = [c for c in cand if c not in chosen]
        sample += rng.sample(rest, max(0, min(len(rest), n - len(forced[:n // 3]))))
        modes = ["plain", "plain", "o-", "ofile", "argprog", "stdin"]
        jobs = [(c, rng.choice(modes)) for c in sample]
        # the error printer: every diagnostics case, program given as file and as argument
        diag = [c for c in pool if "diag" in c.tags and c not in chosen]
        jobs += [(c, rng.choice(["plain", "argprog"])) for c in diag]
        stats["cli_diag_runs"] = len(diag)
        with Scratch() as sc:
            def one(job):
                c, mode = job
                prog = enc(c.meta["prog"])
                inputs = [enc(t) for t in c.meta.get("inputs", [])]
                sels = [enc(s) for s in c.meta.get("selectors", [])]
                if any(b"\x00" in s for s in sels):
                    return None
                args = []
                for s in sels:
                    args += ["-r", s]
                if mode == "o-":
                    args += ["-o", "-"]
                elif mode == "ofile":
                    args += ["-o", sc.file(b"", ".out")]
                stdin = b""
                if mode == "argprog" and b"\x00" not in prog and not prog.startswith(b"-") and prog:
                    tail = [prog]
                else:
                    args += ["-f", sc.file(prog, ".jqawk")]
                    tail = []
                if mode == "stdin" and len(inputs) <= 1:
                    stdin = inputs[0] if inputs else b""
                else:
                    tail += [sc.file(t, ".json") for t in inputs]
                res = run_cli(args + tail, stdin, timeout=10)
                why = res.why_bad()
                if not why and not res.timed_out and "diag" in c.tags and res.rc == 0:
                    lib = RunRes(impl.get(c.id, [])).outcome
                    if lib in ("syntax", "runtime"):
                        why = "exit status 0 and no diagnostic although the run ends in a %s error" % lib
                if why:
                    meta = dict(c.meta, cli_args=[a.decode("utf-8", "replace") if isinstance(a, bytes) else a for a in args + tail], mode=mode,
                                stderr=res.err[:600].decode("utf-8", "replace"), exit_status=res.rc)
                    return (Case(c.id + "-cli", None, meta, True, c.tags), "jqawk binary: " + why)
                return "timeout" if res.timed_out else None
            results = pmap(one, jobs)
        viol += [r for r in results if isinstance(r, tuple)]
        stats["cli_runs"] = len(jobs)
        stats["cli_timeouts"] = sum(1 for r in results if r == "timeout")
        # (2b) values that contain themselves: what died in the isolated batches, and a sample through the binary
        for c, why in getattr(self, "_isolated_bad", [])[:5]:
            viol.append((c, "cyclic value as an operand: " + why))
        stats["cyclic_cases_not_run_after_10_failures"] = getattr(self, "_cyclic_not_run", 0)
        cyc = [c for c in ctx["cases"] if "cyclic" in c.tags and "prog" in c.meta]
        import random as _random
        r2 = _random.Random(len(ctx["cases"]))
        r2.shuffle(cyc)
        cyc = cyc[:90 if tier == "quick" else 1500]
        with Scratch() as sc:
            def one_cyc(c):
                args = ["-f", sc.file(enc(c.meta["prog"]), ".jqawk")]
                if c.meta["prog"].startswith("{ ") and c.meta["inputs"] == ["0"]:
                    args = ["-o", "-"] + args
                res = run_cli(args + [sc.file(enc(t), ".json") for t in c.meta["inputs"]], b"", timeout=60)
                why = res.why_bad()
                if why:
                    meta = dict(c.meta, stderr=res.err[:300].decode("utf-8", "replace"), exit_status=res.rc)
                    meta.pop("line", None)
                    return (Case(c.id + "-cli", None, meta, True, c.tags), "cyclic value as an operand, jqawk binary: " + why)
                return None
            cres = []
            for w in range(0, len(cyc), 30):
                cres += [r for r in pmap(one_cyc, cyc[w:w + 30], jobs=6) if r]
                if len(cres) >= 5:
                    break
        viol += cres[:5]
        stats["cyclic_cli_runs"] = len(cyc)
        # (3) fixed CLI probes: -o with nothing processed (several ways), selectors that exit / signal
        probes = [
            (["-o", "-", "{}"], b""), (["-o", "-", "BEGIN { exit }"], b"[1]"), (["-o", "-", "{ exit }"], b""), (["-o", "-", ""], b""),
            (["-o", "-", "END { print 1 }"], b" \n "), (["-r", "match (1) { 1 => { exit } }", "{ print }"], b"[1]"),
            (["-r", "match (1) { 1 => { exit } }", "-o", "-", "{ print }"], b"[1]"),
            (["-r", "match (1) { 1 => { next } }", "{ print }"], b"[1]"), (["BEGIN { next }"], b"[1]"), (["END { next }"], b"[1]"),
            (["BEGINFILE { next }"], b"[1]"), (["ENDFILE { next }"], b"[1]"), (["match (1) { 1 => { next } } { print }"], b"[1]"),
            (["function f() { next } BEGIN { f() }"], b""), (["{ print }", "/nonexistent/file.json"], b""),
            (["-f", "/nonexistent/prog"], b""), (["-o", "/nonexistent/dir/out.json", "{}"], b"[1]"), (["{ print"], b"[1]"), (["{ print }"], b"[1"),
            (["{ print 1/0 }"], b"[1]"), ([], b"[1]"), (["-r", ")", "{ print }"], b"[1]"),
        ]
        for args, stdin in probes:
            res = run_cli(args, stdin, timeout=10)
            why = res.why_bad()
            if why:
                viol.append((Case("probe", None, {"cli_args": args, "stdin": stdin.decode(), "stderr": res.err[:600].decode("utf-8", "replace"),
                                                  "exit_status": res.rc}, True, ("probe",)), "jqawk binary: " + why))
        stats["cli_probes"] = len(probes)
        # (4) the known stack exhaustion (F-C20-stack): one tagged probe, library and binary
        prog = "function f(x) { return " + "!" * 60000 + "f(x) }\nBEGIN { f(1) }"
        meta = {"prog": "function f(x) { return !!!...(60000 times)...f(x) }\\nBEGIN { f(1) }", "bytes": len(prog)}
        r = RunRes(run_impl([simple_run("stk", prog, [], [], True)], timeout=120).get("stk", []))
        why = abnormal(r)
        if why:
            viol.append((Case("stack-probe-lib", None, meta, True, ("F-C20-stack",)), "deeply nested expression in a recursive function: " + why))
        with Scratch() as sc:
            res = run_cli(["-f", sc.file(prog)], b"", timeout=120)
        why = res.why_bad()
        if why:
            viol.append((Case("stack-probe-cli", None, dict(meta, exit_status=res.rc, stderr=res.err[:200].decode("utf-8", "replace")), True,
                              ("F-C20-stack",)), "deeply nested expression in a recursive function, jqawk binary: " + why))
        return viol, stats

    def known_finding(self, case, why):
        if case is not None and "F-C20-stack" in case.tags:
            return "F-C20-stack"
        return None


CHECK = C01()
