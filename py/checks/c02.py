"""C02: rules run in awk order over every input shape, with $, $index and $file bound.

Tracing programs (every rule prints its own id and the bindings the statement promises) are run over
generated configurations files x values x selectors; the expected trace is computed from the
configuration alone by `expected()` below, a direct transcription of the documented schedule."""
import json, os, shutil, subprocess, tempfile
from concurrent.futures import ThreadPoolExecutor
from framework import Check, Case
from jqlib import run_case, JQAWK, BUILD
import pyref

INVALID = object()


class Exit(Exception):
    pass


class Next(Exception):
    pass


# ------------------------------------------------------------------ selectors (only combinations whose value is documented)

def sel_eval(path, v):
    """path: list of ('k', key) | ('i', index). INVALID when a step is not plainly defined."""
    for n, (kind, x) in enumerate(path):
        last = n == len(path) - 1
        if kind == "k":
            if not isinstance(v, dict):
                return INVALID
            if x in v:
                v = v[x]
            elif last:
                v = None
            else:
                return INVALID
        else:
            if not isinstance(v, list):
                return INVALID
            if 0 <= x < len(v):
                v = v[x]
            elif x >= len(v):
                if not last:
                    return INVALID
                v = None
            elif -len(v) <= x < 0:
                v = v[x]
            else:
                return INVALID
    return v


def sel_text(path):
    s = "$"
    for kind, x in path:
        s += ("." + x) if kind == "k" else "[%d]" % x
    return s


SEL_PATHS = [[], [("k", "a")], [("k", "b")], [("k", "zz")], [("i", 0)], [("i", 1)], [("i", -1)], [("i", 7)],
             [("k", "a"), ("i", 0)], [("k", "b"), ("k", "x")], [("i", 0), ("k", "a")], [("i", 1), ("i", 0)]]


# ------------------------------------------------------------------ patterns

# patterns whose value does not depend on $: one of every kind of value.  A rule runs iff that value is truthy: a regex, null and
# an unset variable are not (a regex is not matched against $ implicitly), a function, an array and an object always are
VALUE_PATS = {
    "/^M/": False, "/a/": False, "/./": False, "/^$/": False, "/.*/": False, "/[0-9]/": False, "rxf()": False, "!/a/": True, "!rxf()": True,
    "idf": True, "\"a\"": True, "\"\"": False, "\"0\"": True, "'Mark'": True, "0": False, "1": True, "0.0": False, "-1": True, "1 - 1": False,
    "[]": True, "[0]": True, "({})": True, "({a: 0})": True, "null": False, "unsetvar": False, "!null": True,
}
PREAMBLE = {"rxf": "function rxf() { return /^M/ }", "idf": "function idf(x) { return x }"}


def pat_eval(p, v):
    if p in VALUE_PATS:
        return VALUE_PATS[p]
    if p is None or p == "true":
        return True
    if p == "false":
        return False
    if p == "$":
        return pyref.truthy(v)
    if p == "!$":
        return not pyref.truthy(v)
    if p == "$ > 1":
        return pyref.binop(">", v, 1.0)
    if p == "$ == 2":
        return pyref.binop("==", v, 2.0)
    if p.startswith("$ is "):
        return pyref.kind(v) == {"number": "num", "string": "str", "null": "null", "array": "array", "object": "object",
                                 "bool": "bool"}[p[5:]]
    raise ValueError(p)


CONST_PATS = [None, None, "true", "false"]
ANY_PATS = ["$", "!$", "$ is number", "$ is string", "$ is null", "$ is array", "$ is object", "$ is bool"]
SCALAR_PATS = ["$ > 1", "$ == 2"]


# ------------------------------------------------------------------ the documented schedule

def expected(cfg):
    """Returns the expected stdout (str). Every run of a configuration ends successfully."""
    out = []
    count = {}
    with_index = cfg["with_index"]

    def body(rule, dollar, index, fname):
        """execute the body of one rule activation"""
        rid, kind = rule["id"], rule["kind"]
        if rule["bodyless"]:
            out.append(pyref.pretty(dollar))
            return
        fields = [rid, pyref.pretty(dollar)]
        if kind == "P" and with_index:
            fields.append(pyref.pretty(index))
        if kind in ("BF", "P", "EF"):
            fields.append(fname)
        line = " ".join(fields)
        plant = rule.get("plant")
        if plant is None:
            out.append(line)
            if rule.get("write"):
                # the rule assigns to $ after tracing it: visible to the rest of this body only
                out.append(rid + "w " + pyref.pretty(rule["write"][1]))
            return
        count[rid] = count.get(rid, 0) + 1
        hit = plant["at"] == 0 or count[rid] == plant["at"]
        if plant["where"] == "before":
            if hit:
                raise Exit() if plant["what"] == "exit" else Next()
            out.append(line)
        elif plant["where"] == "after":
            out.append(line)
            if hit:
                raise Exit() if plant["what"] == "exit" else Next()
        else:
            out.append(line)
            if hit:
                raise Exit() if plant["what"] == "exit" else Next()
            out.append(rid + "z")

    rules = cfg["rules"]
    by = lambda k: [r for r in rules if r["kind"] == k]

    def pattern_rules(dollar, index, fname):
        try:
            for r in by("P"):
                fx = r.get("pfx")
                if fx is not None:
                    # the pattern calls a function that executes next / exit when `when` holds of $, and yields `value` otherwise
                    # (or is never reached: the call sits behind a short-circuit)
                    if fx["reached"] and pat_eval(fx["when"], dollar):
                        raise Exit() if fx["what"] == "exit" else Next()
                    if fx["value"]:
                        body(r, dollar, index, fname)
                elif pat_eval(r["pat"], dollar):
                    body(r, dollar, index, fname)
        except Next:
            pass

    try:
        for r in by("B"):
            body(r, None, None, None)
        for fname, values in cfg["files"]:
            for v in values:
                roots = [sel_eval(p, v) for p in cfg["selectors"]] or [v]
                for root in roots:
                    for r in by("BF"):
                        body(r, root, None, fname)
                    if isinstance(root, list):
                        for i, e in enumerate(root):
                            pattern_rules(e, i, fname)
                    else:
                        pattern_rules(root, None, fname)
                    for r in by("EF"):
                        body(r, root, None, fname)
        for r in by("E"):
            body(r, None, None, None)
    except Exit:
        pass
    return "".join(l + "\n" for l in out)


# ------------------------------------------------------------------ program text

KW = {"B": "BEGIN", "BF": "BEGINFILE", "EF": "ENDFILE", "E": "END"}


def rule_text(rule, with_index, rng):
    rid, kind = rule["id"], rule["kind"]
    head = KW.get(kind, rule["pat"] or "")
    if rule["bodyless"]:
        return head
    args = ['"%s"' % rid, "$"]
    if kind == "P" and with_index:
        args.append("$index")
    if kind in ("BF", "P", "EF"):
        args.append("$file")
    pr = "print " + ", ".join(args)
    plant = rule.get("plant")
    sep = rng.choice(["\n  ", "; "])
    if plant is None:
        stmts = [pr]
        if rule.get("write"):
            stmts += [rule["write"][0], 'print "%sw", $' % rid]
    else:
        c = "c" + rid
        inc = rng.choice(["%s = %s + 1" % (c, c), "%s++" % c, "%s += 1" % c])
        what = plant["what"]
        if plant["at"] == 0:
            ctl = what
        else:
            ctl = rng.choice(["if (%s == %d) %s", "if (%s == %d) { %s }"]) % (c, plant["at"], what)
        if plant["where"] == "before":
            stmts = [inc, ctl, pr]
        elif plant["where"] == "after":
            stmts = [inc, pr, ctl]
        else:
            stmts = [inc, pr, ctl, 'print "%sz"' % rid]
    text = ""
    for i, st in enumerate(stmts):
        if i > 0:
            text += "\n  " if stmts[i - 1].endswith("}") else sep      # `};` is not in the grammar
        text += st
    return (head + " { " if head else "{ ") + text + " }"


def program_text(cfg, rng):
    parts = []
    rules = cfg["rules"]
    for i, r in enumerate(rules):
        parts.append(rule_text(r, cfg["with_index"], rng))
    for name, text in sorted(PREAMBLE.items()):
        if any(r["kind"] == "P" and r["pat"] and name in r["pat"] for r in rules):
            parts.insert(rng.randrange(len(parts) + 1), text)
    for text in cfg.get("funcs", []):
        parts.insert(rng.randrange(len(parts) + 1), text)
    return rng.choice(["\n", "\n\n", " \n"]).join(parts)


# ------------------------------------------------------------------ inputs

SCALARS = [0, 1, 2, 3, 2.5, -1, 10, "a", "", "two words", "é", "10", True, False, None, "Mark", "Mary"]
NAMES = ["Mark", "Beth", "Mary", "a", "", "M", "10"]


def rand_elem(rng, depth=1):
    k = rng.random()
    if k < 0.6 or depth <= 0:
        return rng.choice(SCALARS)
    if k < 0.8:
        return [rand_elem(rng, depth - 1) for _ in range(rng.randint(0, 3))]
    return {key: rand_elem(rng, depth - 1) for key in rng.sample(["a", "b", "x", "k"], rng.randint(0, 3))}


def rand_value(rng, mode):
    if mode == "arrays":
        k = rng.random()
        n = rng.randint(0, 4)
        if k < 0.25:
            return [rng.choice([0, 1, 2, 3, 2.5, -1, 10]) for _ in range(n)]
        if k < 0.35:
            return [rng.choice(NAMES) for _ in range(n)]
        if k < 0.5:
            return [[rand_elem(rng, 0) for _ in range(rng.randint(0, 3))] for _ in range(n)]
        if k < 0.65:
            return [{"a": rand_elem(rng, 1), "b": rng.choice(SCALARS)} for _ in range(n)]
        return [rand_elem(rng, 1) for _ in range(n)]
    if mode == "objects":
        d = {}
        for key in ("a", "b", "c", "x"):
            if rng.random() < 0.8:
                d[key] = rng.choice([lambda: [rand_elem(rng, 1) for _ in range(rng.randint(0, 4))],
                                     lambda: {"x": rand_elem(rng, 1)}, lambda: rng.choice(SCALARS)])()
        return d
    k = rng.random()
    if k < 0.4:
        return [rand_elem(rng, 1) for _ in range(rng.randint(0, 4))]
    if k < 0.6:
        return {key: rand_elem(rng, 1) for key in rng.sample(["a", "b", "x", "k"], rng.randint(0, 3))}
    return rng.choice(SCALARS)


def stream_text(values, rng):
    texts = [json.dumps(v, ensure_ascii=rng.random() < 0.5, separators=rng.choice([(",", ":"), (", ", ": ")])) for v in values]
    s = rng.choice(["", "", " ", "\n"])
    for i, t in enumerate(texts):
        if i > 0:
            seps = [" ", "\n", "\n\n", "\t", " \r\n"]
            if texts[i - 1][-1] in "]}" and t[0] in "[{":
                seps.append("")
            s += rng.choice(seps)
        s += t
    return s + rng.choice(["", "", "\n", " "])


FILE_NAMES = ["a.json", "b.json", "dir/c.json", "<stdin>", "data 1.json", "x"]


def seen_by_patterns(cfg):
    """every value a pattern rule may see as $"""
    out = []
    for _, values in cfg["files"]:
        for v in values:
            for root in [sel_eval(p, v) for p in cfg["selectors"]] or [v]:
                out += root if isinstance(root, list) else [root]
    return out


def gen_config(rng, k, names=None):
    """names: the input file names to use (any strings; two names that denote the same path share their values)"""
    mode = rng.choice(["arrays", "arrays", "objects", "mixed"])
    if names is None:
        nfiles = rng.choice([0, 1, 1, 2, 2, 3])
        names = rng.sample(FILE_NAMES, nfiles)
    files = []
    held = {}
    for n in names:
        key = os.path.normpath(n)
        if key not in held:
            nv = rng.choice([0, 1, 1, 2, 3])
            held[key] = [rand_value(rng, mode) for _ in range(nv)]
        files.append((n, held[key]))
    allvals = [v for _, vs in files for v in vs]
    sels = []
    for _ in range(rng.choice([0, 0, 1, 2])):
        p = rng.choice(SEL_PATHS)
        if any(sel_eval(p, v) is INVALID for v in allvals):
            p = []
        sels.append(p)
    cfg = {"files": files, "selectors": sels}
    roots = [r for _, vs in files for v in vs for r in ([sel_eval(p, v) for p in sels] or [v])]
    cfg["with_index"] = bool(roots) and all(isinstance(r, list) for r in roots) and rng.random() < 0.9
    seen = seen_by_patterns(cfg)
    pats = CONST_PATS + ANY_PATS
    if all(not isinstance(v, (list, dict)) for v in seen):
        pats = pats + SCALAR_PATS * 2
    rules = []
    weights = rng.choice([[0, 1, 2, 3], [0, 1, 1, 2], [1, 2, 3]])
    for kind in ("B", "BF", "P", "EF", "E"):
        for i in range(rng.choice(weights)):
            r = {"id": "%s%d" % (kind, i + 1), "kind": kind, "pat": None, "bodyless": False}
            if kind == "P":
                r["pat"] = rng.choice(pats) if rng.random() < 0.7 else rng.choice(sorted(VALUE_PATS))
                if r["pat"] is not None and rng.random() < 0.2:
                    r["bodyless"] = True
            elif rng.random() < 0.06:
                r["bodyless"] = True
            rules.append(r)
    rng.shuffle(rules)
    # a body-less rule swallows a following `{ ... }` as its body: the next rule must not start with `{`
    for i in range(len(rules) - 1):
    # (nor with a prefix operator, which the expression parser would try to continue with)
        if rules[i]["bodyless"] and rules[i + 1]["kind"] == "P" and rules[i + 1]["pat"] in (None, "!$"):
            rules[i + 1]["pat"] = "true" if rules[i + 1]["pat"] is None else "$"
        # (nor with `[`, `(`, `/`, `-`, which would continue the body-less rule's pattern as an index, a call, a division ...)
        if rules[i]["bodyless"] and rules[i + 1]["kind"] == "P" and rules[i + 1]["pat"] in VALUE_PATS:
            rules[i]["bodyless"] = False
    cfg["rules"] = rules
    # plants
    if rules and rng.random() < 0.8:
        nplants = rng.choice([1, 1, 2])
        cand = [r for r in rules if not r["bodyless"]]
        rng.shuffle(cand)
        for r in cand[:nplants]:
            what = rng.choice(["next", "exit"]) if r["kind"] == "P" else ("exit" if rng.random() < 0.5 else None)
            if what is None:
                continue
            # number of activations of this body without plants, to aim the counter inside the run
            acts = activations(cfg, r)
            at = 0 if rng.random() < 0.15 else rng.randint(1, max(1, acts + (1 if rng.random() < 0.2 else 0)))
            r["plant"] = {"what": what, "at": at, "where": rng.choice(["before", "after", "mid"])}
    # writes to $: a BEGIN / END rule starts with $ null and an ENDFILE rule with $ bound to the root whatever an earlier rule of
    # the same kind stored in $ (what a write in a BEGINFILE or pattern rule does to later rules is not part of the statement)
    for r in rules:
        if r["bodyless"] or "plant" in r or rng.random() >= 0.3:
            continue
        if r["kind"] in ("B", "E"):
            r["write"] = rng.choice(WRITES_NULL)
        elif r["kind"] == "EF":
            r["write"] = rng.choice(WRITES_ANY)
    return cfg


WRITES_ANY = [("$ = 5", 5.0), ("$ = \"w\"", "w"), ("$ = [1, 2]", [1.0, 2.0]), ("$ = {a: 1}", {"a": 1.0}), ("$ = true", True), ("$ = 0", 0.0),
              ("n = 6\n  $ = n", 6.0), ("$ = [[7]]", [[7.0]])]
WRITES_NULL = WRITES_ANY + [("$++", 1.0), ("$ += 2", 2.0), ("$--", -1.0)]


def activations(cfg, rule):
    saved = [(r, r.pop("plant", None)) for r in cfg["rules"]]
    try:
        exp = expected(cfg)
    finally:
        for r, p in saved:
            if p is not None:
                r["plant"] = p
    rid = rule["id"]
    return sum(1 for l in exp.splitlines() if l == rid or l.startswith(rid + " "))


# ------------------------------------------------------------------ the real binary: input file NAMES
# "for each file in the order given ... with $file naming the current file": a name is a name, whatever characters it is made of.
# Every name of this pool exists as a file in the scratch directory of every run (the ones not on the command line as decoys that
# hold a value of their own), so that a name read as a wildcard pattern, as an option, trimmed, unquoted, or resolved to another
# file than the one it spells shows in the trace: glob metacharacters (with files around that the pattern would match, and
# that it would not), spaces, leading dashes, names that are prefixes of each other, two spellings of one path, shell syntax.
HOSTILE = ["shard[2].json", "shard2.json", "a*.json", "a1.json", "ab.json", "a.json", "b.json", "c.json", "?.json", "x.json", "[ab].json",
           "[!a].json", "[^a].json", "[a-c].json", "*", "?", "[", "]", "[]", "[a-c]", "a", "b", "ab", "abc", "a.json.bak", "a.jso", "*.json", "**",
           "a**json", "a?.json", "data 1.json", "data ?.json", "data *.json", " lead.json", "trail.json ", "two  spaces.json",
           "-dash.json", "--", "-", "-o", "-r", "-f", "--version", "-x*.json",
           "d/x.json", "d/y.json", "d/*.json", "d/[x].json", "[d]/x.json", "./a.json", "d/../a.json", "d//x.json", "a\\*.json", "\\a.json",
           "a\\.json", "<stdin>", "\u00e9*.json", "\u00e91.json", "{a,b}.json", "~", "$HOME", "a.json;b.json", "'q'.json", "\"dq\".json", "a.json b.json",
           "%s.json", "a.json,b.json", "#c.json", "a.JSON", "A.json"]


def cli_scenario(rng, k):
    n = rng.choice([1, 2, 2, 3, 3, 4])
    how = rng.random()
    if how < 0.3:
        # a name with a metacharacter next to names it would match as a pattern
        group = rng.choice([["shard[2].json", "shard2.json"], ["a*.json", "a1.json", "ab.json", "a.json"], ["?.json", "x.json", "a.json"],
                            ["[ab].json", "a.json", "b.json"], ["*", "a", "b"], ["d/*.json", "d/x.json", "d/y.json"], ["data ?.json", "data 1.json"],
                            ["a\\*.json", "a*.json", "a1.json"], ["[a-c]", "a", "b"], ["*.json", "a.json", "x.json"], ["a?.json", "ab.json", "a1.json"],
                            ["[!a].json", "b.json", "x.json"], ["[d]/x.json", "d/x.json"], ["\u00e9*.json", "\u00e91.json"], ["-x*.json", "-dash.json"]])
        names = [rng.choice(group) for _ in range(n)]
        if rng.random() < 0.7:
            names[0] = group[0]
    elif how < 0.45:
        # names that are prefixes / spellings of each other
        group = rng.choice([["a", "ab", "abc", "a.json", "a.jso", "a.json.bak"], ["a.json", "./a.json", "d/../a.json"], ["d/x.json", "d//x.json"],
                            ["a.json", "a.JSON", "A.json"], ["a.json b.json", "a.json", "b.json"], ["a.json;b.json", "a.json,b.json", "a.json"]])
        names = [rng.choice(group) for _ in range(n)]
    else:
        names = [rng.choice(HOSTILE) for _ in range(n)]
    if n >= 2 and rng.random() < 0.25:
        names[rng.randrange(1, n)] = names[0]           # the same file given twice
    while True:
        cfg = gen_config(rng, k, names)
        if any(r["kind"] in ("BF", "P", "EF") and not r["bodyless"] for r in cfg["rules"]):
            return cfg


# ------------------------------------------------------------------ next / exit executed while a PATTERN is being evaluated
# "`next` abandons the remaining rules for that element only, `exit` ends the whole run": wherever the statement is executed.
# A pattern is an expression, so the statement gets there through a function the pattern calls (directly, through a second
# function, from inside a sub-expression of the pattern, behind a short-circuit that skips it) or through a match block.
# (pattern text with @ for the call, truth of the pattern given the function's result v, is the call reached)
PFX_SHAPES = [
    ("@", lambda v: v, True), ("@", lambda v: v, True), ("!@", lambda v: not v, True), ("(@ && true)", lambda v: v, True), ("(false || @)", lambda v: v, True),
    ("(true && @)", lambda v: v, True), ("[@][0]", lambda v: v, True), ("idf(@)", lambda v: v, True), ("(@ == true)", lambda v: v, True),
    ("(\"x\" + @)", lambda v: True, True), ("[@]", lambda v: True, True), ("(@)", lambda v: v, True), ("!!@", lambda v: v, True),
    ("(@ || false)", lambda v: v, True), ("(1 + @ > 1)", lambda v: v, True), ("match (@) { q => q }", lambda v: v, True),
    ("(false && @)", lambda v: False, False), ("(true || @)", lambda v: True, False), ("(0 && @)", lambda v: False, False),
]
PFX_WHEN = ["true", "false", "$", "!$", "$ is number", "$ is string", "$ is null", "$ is array", "$ is object", "$ is bool"]


def add_pattern_effects(rng, cfg):
    """turn 1-3 pattern rules of a configuration into rules whose pattern executes next / exit"""
    rules = cfg["rules"]
    prules = [i for i, r in enumerate(rules) if r["kind"] == "P"]
    if not prules:
        return False
    seen = seen_by_patterns(cfg)
    whens = list(PFX_WHEN)
    if all(not isinstance(v, (list, dict)) for v in seen):
        whens += SCALAR_PATS * 3
    funcs = []
    for n, i in enumerate(rng.sample(prules, min(len(prules), rng.choice([1, 1, 2, 3])))):
        r = rules[i]
        what = rng.choice(["next", "next", "next", "exit"])
        when = rng.choice(whens)
        ret = rng.random() < 0.7
        fn = "pf%d" % n
        cond = when.replace("$", "v")
        style = rng.randrange(5)
        if style == 0:
            funcs.append("function %s(v) { if (%s) %s; return %s }" % (fn, cond, what, "true" if ret else "false"))
        elif style == 1:
            funcs.append("function %s(v) {\n  if (%s) { %s }\n  return %s\n}" % (fn, cond, what, "true" if ret else "false"))
        elif style == 2:
            # through a second function
            funcs.append("function %s(v) { return %sin(v) }" % (fn, fn))
            funcs.append("function %sin(v) { if (%s) { print \"never\", %s }\n  return %s }" % (
                fn, cond, "match (1) { 1 => { %s } }" % what, "true" if ret else "false"))
        elif style == 3:
            # in a match block inside the function
            funcs.append("function %s(v) { match (%s) { true => { %s }, _ => { return %s } }\n  return %s }" % (
                fn, "!!(%s)" % cond, what, "true" if ret else "false", "true" if ret else "false"))
        else:
            # inside a loop of the function
            funcs.append("function %s(v) { for (i = 0; i < 2; i++) { if (%s) %s }\n  return %s }" % (fn, cond, what, "true" if ret else "false"))
        shape, truth, reached = rng.choice(PFX_SHAPES)
        r["pat"] = shape.replace("@", "%s($)" % fn)
        r["pfx"] = {"what": what, "when": when, "value": bool(truth(ret)), "reached": reached}
        # the pattern starts with an operator, a bracket or a name: the rule before it must have a body of its own
        if i > 0 and rules[i - 1]["bodyless"]:
            rules[i - 1]["bodyless"] = False
    cfg["funcs"] = funcs
    return True


# ---- overlapping root selectors x rules that write: every selector pass starts from the document as it was read
# (no "expected": the proved model decides; a pass that sees the writes of an earlier pass is a disagreement)
OVL_PROGS = ["{ $.n = $.n * 10; print $index, $.n }", "{ print $; $ = 0 }", "{ $.n++; print $.k, $.n }",
             "BEGINFILE { $.items[0].n = 99; $[0] = \"bf\" } { print $ } ENDFILE { print $ }", "{ $.tags.push(\"x\"); print $.tags }",
             "{ $ = {\"z\": $index}; print $ }", "{ $[0] = \"w\"; print }", "{ $.items[1].k = \"W\"; $[1][0] = 9; print }"]
OVL_DOCS = ['{"items":[{"k":"a","n":1,"tags":[]},{"k":"b","n":2,"tags":["t"]}],"n":5,"k":"top","tags":[1]}', "[[1,2],[3,4]]", "[1,2,3]",
            '{"items":[{"k":"a","n":1}]}\n[[5,6],[7]]']
OVL_SELS = [["$.items", "$.items"], ["$", "$.items"], ["$.items", "$"], ["$", "$"], ["$.items[0]", "$.items"], ["$[0]", "$"],
            ["$", "$[0]", "$"], ["$.n = 100", "$"], ["$.items[0].n = 7", "$.items", "$.items[0]"], ["$[1]", "$[1]", "$"]]


def overlap_cases():
    out = []
    for prog in OVL_PROGS:
        for doc in OVL_DOCS:
            for sels in OVL_SELS:
                out.append((prog, doc, sels))
    return out


class C02(Check):
    pid = "C02"
    props = ["C02_schedule.v", "C02_selectors_fresh.v"]
    rule = ("tracing programs with 0-3 rules of each of the five kinds in shuffled source order (each prints its id, $, $index when "
            "every root is an array, $file), patterns absent/true/false/data-dependent, body-less rules, next/exit planted at a chosen "
            "activation through a counter, over 0-3 files x 0-3 values x 0-2 selectors with array (length 0-4), object, scalar and null "
            "roots; patterns whose value is a regex, string, number, array, object, function, null or unset whatever $ is (truthiness decides, "
            "over string elements too); BEGIN/END/ENDFILE rules that assign to $ after tracing it, followed by further rules of the same kind; "
            "expected trace computed from the configuration by a Python transcription of the documented schedule; "
            "the same kind of configuration through the real binary in a scratch directory with 1-4 input files whose NAMES are hostile "
            "(glob metacharacters next to files the name would match as a pattern, spaces, leading dashes, option look-alikes, names "
            "that are prefixes or other spellings of each other, shell syntax, the same file twice), program inline / -f / after --; "
            "next / exit executed WHILE A PATTERN IS EVALUATED (1-3 pattern rules per configuration whose pattern calls a function that runs "
            "next or exit when a condition on $ holds: directly, through a second function, in a match block, in a loop; the call as the whole "
            "pattern, negated, inside && || [] () == + match and call sub-expressions, and behind a short-circuit that skips it), any rule position; "
            "non-trivial = at least two rule kinds and at least two executed activations")

    def generate(self, rng, tier):
        n = 1500 if tier == "quick" else 60000
        cases = []
        for k in range(n):
            cfg = gen_config(rng, k)
            prog = program_text(cfg, rng)
            files = []
            for name, values in cfg["files"]:
                text = stream_text(values, rng).encode()
                files.append((name, [text[i:i + 512] for i in range(0, len(text), 512)], False))
            sels = [sel_text(p) for p in cfg["selectors"]]
            exp = expected(cfg)
            kinds = {r["kind"] for r in cfg["rules"]}
            nontrivial = len(kinds) >= 2 and exp.count("\n") >= 2
            cid = "s%d" % k
            meta = {"prog": prog, "selectors": sels,
                    "files": [[name, b"".join(ch).decode()] for name, ch, _ in files],
                    "expected": exp}
            cases.append(Case(cid, run_case(cid, prog, files, sels, True), meta, nontrivial))
        # ---- the real binary with hostile input file names (run in extra(); the same configuration also as a library case)
        self.cli = []
        for k in range(400 if tier == "quick" else 6000):
            cfg = cli_scenario(rng, k)
            prog = program_text(cfg, rng)
            texts = {}
            for name, values in cfg["files"]:
                texts.setdefault(os.path.normpath(name), stream_text(values, rng))
            sels = [sel_text(p) for p in cfg["selectors"]]
            exp = expected(cfg)
            names = [name for name, _ in cfg["files"]]
            forms = ["file", "ddash", "inline-ddash"] + (["inline"] if not prog.startswith("-") and prog != "" else [])
            if names[0].startswith("-"):
                forms.remove("file")
            form = rng.choice(forms)
            cid = "n%d" % k
            meta = {"prog": prog, "selectors": sels, "files": [[name, texts[os.path.normpath(name)]] for name in names], "expected": exp, "form": form}
            self.cli.append(Case(cid + "!", None, dict(meta, role="the jqawk binary in a scratch directory"), True, ("cli",)))
            files = [(name, [texts[os.path.normpath(name)].encode()], False) for name in names]
            cases.append(Case(cid, run_case(cid, prog, files, sels, True), dict(meta, role="library run"), True))
        # ---- overlapping selectors over a document the rules write to
        for j, (prog, doc, sels) in enumerate(overlap_cases()):
            cid = "v%d" % j
            cases.append(Case(cid, run_case(cid, prog, [("d.json", [doc.encode()], False)], sels, True),
                              {"prog": prog, "selectors": sels, "files": [["d.json", doc]], "family": "overlapping selectors, writing rules"},
                              True, ("overlap",)))
        # ---- next / exit executed during the evaluation of a pattern
        k, made = 0, 0
        want_n = 700 if tier == "quick" else 20000
        while made < want_n and k < want_n * 4:
            k += 1
            cfg = gen_config(rng, k)
            if not add_pattern_effects(rng, cfg):
                continue
            prog = program_text(cfg, rng)
            files = []
            for name, values in cfg["files"]:
                text = stream_text(values, rng).encode()
                files.append((name, [text[i:i + 512] for i in range(0, len(text), 512)], False))
            sels = [sel_text(p) for p in cfg["selectors"]]
            exp = expected(cfg)
            cid = "x%d" % made
            made += 1
            meta = {"prog": prog, "selectors": sels, "files": [[name, b"".join(ch).decode()] for name, ch, _ in files], "expected": exp,
                    "pattern_effects": [dict(r["pfx"], pattern=r["pat"], rule=r["id"]) for r in cfg["rules"] if "pfx" in r]}
            acts = len(seen_by_patterns(cfg))
            cases.append(Case(cid, run_case(cid, prog, files, sels, True), meta, acts >= 1 and len([r for r in cfg["rules"] if r["kind"] == "P"]) >= 2,
                              ("pattern-effect",)))
        return cases

    def oracle(self, case, impl):
        if "expected" not in case.meta:
            return None
        if impl.outcome in ("timeout", "noresult", "badcase"):
            return None
        want = ("ok", case.meta["expected"].encode())
        got = (impl.outcome, impl.stdout)
        if got != want:
            w, g = want[1].decode("utf-8", "replace").splitlines(), got[1].decode("utf-8", "replace").splitlines()
            i = 0
            while i < len(w) and i < len(g) and w[i] == g[i]:
                i += 1
            return ("schedule differs at trace line %d: documented %r, implementation %r (outcome %s, %d/%d lines)"
                    % (i + 1, w[i] if i < len(w) else "<end>", g[i] if i < len(g) else "<end>", got[0], len(g), len(w)))
        return None


    # ---------------------------------------------------------------- the binary
    def run_cli_names(self, d, case):
        m = case.meta
        wd = tempfile.mkdtemp(prefix="n", dir=d)
        try:
            used = {os.path.normpath(name): text for name, text in m["files"]}
            for name in HOSTILE:
                key = os.path.normpath(name)
                p = os.path.join(wd, key)
                if os.path.dirname(key):
                    os.makedirs(os.path.dirname(p), exist_ok=True)
                with open(p, "wb") as f:
                    f.write(used[key].encode() if key in used else json.dumps(["decoy: the file named " + key]).encode() + b"\n")
            with open(os.path.join(wd, "prog.jqawk"), "wb") as f:
                f.write(m["prog"].encode())
            args = [JQAWK]
            for s in m["selectors"]:
                args += ["-r", s]
            form = m["form"]
            if form == "file":
                args += ["-f", "prog.jqawk"]
            elif form == "ddash":
                args += ["-f", "prog.jqawk", "--"]
            elif form == "inline-ddash":
                args += ["--", m["prog"]]
            else:
                args.append(m["prog"])
            args += [name for name, _ in m["files"]]
            try:
                p = subprocess.run(args, cwd=wd, stdin=subprocess.DEVNULL, stdout=subprocess.PIPE, stderr=subprocess.PIPE, timeout=10)
            except subprocess.TimeoutExpired:
                return None
            return p.returncode, p.stdout, p.stderr, args[1:]
        finally:
            shutil.rmtree(wd, ignore_errors=True)

    def extra(self, ctx):
        viol, stats = [], {"binary_runs": 0, "binary_timeouts": 0}
        cli = getattr(self, "cli", [])
        if not cli:
            return viol, stats
        os.makedirs(BUILD, exist_ok=True)
        d = tempfile.mkdtemp(prefix="c02-", dir=BUILD)
        try:
            with ThreadPoolExecutor(max_workers=8) as ex:
                results = list(ex.map(lambda c: self.run_cli_names(d, c), cli))
        finally:
            shutil.rmtree(d, ignore_errors=True)
        for c, r in zip(cli, results):
            if r is None:
                stats["binary_timeouts"] += 1
                continue
            stats["binary_runs"] += 1
            rc, out, err, argv = r
            want = c.meta["expected"].encode()
            if rc == 0 and out == want:
                continue
            w, g = want.decode("utf-8", "replace").splitlines(), out.decode("utf-8", "replace").splitlines()
            i = 0
            while i < len(w) and i < len(g) and w[i] == g[i]:
                i += 1
            why = ("jqawk binary, input files %r: trace differs at line %d: documented %r, binary %r (exit status %d, stderr %r)"
                   % ([n for n, _ in c.meta["files"]], i + 1, w[i] if i < len(w) else "<end>", g[i] if i < len(g) else "<end>", rc,
                      err.decode("utf-8", "replace")[:200]))
            viol.append((Case(c.id, None, dict(c.meta, argv=argv), True, c.tags), why))
        return viol[:5], stats


CHECK = C02()
