"""C03: input is a JSON value stream: incremental, chunking-independent, faults reported.

Every case is a tracing program run over scripted readers (chunk list + optional failure).  The expected
stdout and outcome are computed from the byte stream alone by `split()` -- an independent scanner for
"concatenated JSON values" -- and the documented per-value processing.  The read/write log of the run is
checked for incrementality: whenever a Read is issued, the output of every value that was already complete
in the delivered bytes has been written."""
import json, math, os, select, subprocess, time
from framework import Check, Case
from jqlib import run_case, RunRes, JQAWK
import pyref
from checklib import ANY, abnormal, run_cli, Scratch

WS = b" \t\r\n"
DIGITS = b"0123456789"
HEX = b"0123456789abcdefABCDEF"


# ------------------------------------------------------------------ an independent scanner for JSON value streams
class Bad(Exception):
    pass


class Short(Exception):
    """ran out of bytes inside a value"""


def _string(b, i):
    # b[i] == '"'
    i += 1
    n = len(b)
    while True:
        if i >= n:
            raise Short()
        c = b[i]
        if c == 0x22:
            return i + 1
        if c == 0x5C:
            if i + 1 >= n:
                raise Short()
            e = b[i + 1]
            if e in b'"\\/bfnrt':
                i += 2
                continue
            if e == 0x75:
                for k in range(4):
                    if i + 2 + k >= n:
                        raise Short()
                    if b[i + 2 + k] not in HEX:
                        raise Bad()
                i += 6
                continue
            raise Bad()
        if c < 0x20:
            raise Bad()
        i += 1


def _number(b, i):
    """returns the end of the longest number prefix; raises Bad/Short if the bytes cannot be a number.
    A number is never known to be complete before a following byte (or the end of input) is seen.
    A number too large for a float64 makes its value unreadable (a malformed value)."""
    end = _number_syntax(b, i)
    if math.isinf(float(b[i:end])):
        raise Bad()
    return end


def _number_syntax(b, i):
    n = len(b)
    if b[i] == 0x2D:
        i += 1
        if i >= n:
            raise Short()
    if b[i] == 0x30:
        i += 1
    elif b[i] in b"123456789":
        while i < n and b[i] in DIGITS:
            i += 1
    else:
        raise Bad()
    if i < n and b[i] == 0x2E:
        i += 1
        if i >= n:
            raise Short()
        if b[i] not in DIGITS:
            raise Bad()
        while i < n and b[i] in DIGITS:
            i += 1
    if i < n and b[i] in b"eE":
        i += 1
        if i >= n:
            raise Short()
        if b[i] in b"+-":
            i += 1
            if i >= n:
                raise Short()
        if b[i] not in DIGITS:
            raise Bad()
        while i < n and b[i] in DIGITS:
            i += 1
    return i


def _skip(b, i):
    while i < len(b) and b[i] in WS:
        i += 1
    return i


def _value(b, i):
    """b[i] is the first non-space byte of a value. Returns (end, needs_lookahead)."""
    c = b[i]
    n = len(b)
    if c == 0x5B:       # [
        i = _skip(b, i + 1)
        if i >= n:
            raise Short()
        if b[i] == 0x5D:
            return i + 1, False
        while True:
            i = _skip(b, i)
            if i >= n:
                raise Short()
            i, _ = _value(b, i)
            i = _skip(b, i)
            if i >= n:
                raise Short()
            if b[i] == 0x2C:
                i += 1
                continue
            if b[i] == 0x5D:
                return i + 1, False
            raise Bad()
    if c == 0x7B:       # {
        i = _skip(b, i + 1)
        if i >= n:
            raise Short()
        if b[i] == 0x7D:
            return i + 1, False
        while True:
            i = _skip(b, i)
            if i >= n:
                raise Short()
            if b[i] != 0x22:
                raise Bad()
            i = _string(b, i)
            i = _skip(b, i)
            if i >= n:
                raise Short()
            if b[i] != 0x3A:
                raise Bad()
            i = _skip(b, i + 1)
            if i >= n:
                raise Short()
            i, _ = _value(b, i)
            i = _skip(b, i)
            if i >= n:
                raise Short()
            if b[i] == 0x2C:
                i += 1
                continue
            if b[i] == 0x7D:
                return i + 1, False
            raise Bad()
    if c == 0x22:
        return _string(b, i), True
    if c == 0x2D or c in DIGITS:
        return _number(b, i), True
    for lit in (b"true", b"false", b"null"):
        if c == lit[0]:
            for k in range(len(lit)):
                if i + k >= n:
                    raise Short()
                if b[i + k] != lit[k]:
                    raise Bad()
            return i + len(lit), True
    raise Bad()


def split(b, fail):
    """The maximal sequence of complete top-level values of the delivered bytes `b`.
    Returns ([(start, end, need)], clean): need = number of delivered bytes after which the value is known to be
    complete (end for arrays/objects, end + 1 for scalars and strings); clean = the stream ends cleanly after them.
    With fail (the reader reports an error instead of end of input) a trailing scalar without a following byte
    is not complete, and the stream is never clean."""
    vals = []
    i = 0
    while True:
        i = _skip(b, i)
        if i >= len(b):
            return vals, not fail
        try:
            end, look = _value(b, i)
        except (Bad, Short):
            return vals, False
        if look and end >= len(b):
            if fail:
                return vals, False
            vals.append((i, end, end + 1))      # known complete only when the end of input has been seen
            i = end
            continue
        vals.append((i, end, end + 1 if look else end))
        i = end


def to_value(text):
    return json.loads(text.decode("utf-8"), parse_int=float, parse_float=float)


# ------------------------------------------------------------------ tracing programs and their documented output
PROGS = {
    "print": "{ print }",
    "trace": "BEGIN { print \"B\" }\nBEGINFILE { print \"F\", $, $file }\n{ print \"P\", $ }\nENDFILE { print \"G\" }\nEND { print \"E\" }",
    "count": "{ n++\n print n, $ }\nEND { print \"total\", n }",
}


# programs WITHOUT a pattern rule (only BEGIN, only END, both, nothing at all, only functions, only BEGINFILE / ENDFILE): the input is
# consumed and validated all the same -- a truncated or malformed value is a JSON input error, never a silent end of input
NOPAT = {
    "begin": ("BEGIN { print \"B\" }", "B\n", "", ""),
    "begin2": ("BEGIN { print \"B\" }\nBEGIN { print \"B2\" }", "B\nB2\n", "", ""),
    "beginfunc": ("function f(a) { return a }\nBEGIN { print f(\"B\") }", "B\n", "", ""),
    "end": ("END { print \"E\" }", "", "", "E\n"),
    "beginend": ("BEGIN { print \"B\" }\nEND { print \"E\" }", "B\n", "", "E\n"),
    "endbegin": ("END { print \"E\" }\nBEGIN { print \"B\" }", "B\n", "", "E\n"),
    "empty": ("", "", "", ""),
    "blank": (" \n# no rule at all\n", "", "", ""),
    "func": ("function f(a) { return a }", "", "", ""),
    "bfile": ("BEGINFILE { print \"F\", $, $file }", "", "F", ""),
    "befile": ("BEGIN { print \"B\" }\nENDFILE { print \"G\" }", "B\n", "G", ""),
}
for _k, _v in NOPAT.items():
    PROGS[_k] = _v[0]


def out_begin(pk):
    if pk in NOPAT:
        return NOPAT[pk][1]
    return "B\n" if pk == "trace" else ""


def out_end(pk, state):
    if pk in NOPAT:
        return NOPAT[pk][3]
    if pk == "trace":
        return "E\n"
    if pk == "count":
        return "total %s\n" % pyref.pretty(state["n"] if state["n"] else pyref.UNSET)      # n was never assigned
    return ""


def out_value(pk, v, fname, state):
    if pk in NOPAT:
        per = NOPAT[pk][2]
        return "F %s %s\n" % (pyref.pretty(v), fname) if per == "F" else "G\n" if per == "G" else ""
    elems = v if isinstance(v, list) else [v]
    if pk == "print":
        return "".join(pyref.pretty(e) + "\n" for e in elems)
    if pk == "trace":
        return "F %s %s\n" % (pyref.pretty(v), fname) + "".join("P %s\n" % pyref.pretty(e) for e in elems) + "G\n"
    s = ""
    for e in elems:
        state["n"] += 1
        s += "%d %s\n" % (state["n"], pyref.pretty(e))
    return s


def expect(pk, files):
    """files: [(name, bytes, fail)].  Returns (outcome, stdout, marks) where marks (first file only) is a list of
    (need, cumulative output length after that value)."""
    out = out_begin(pk)
    state = {"n": 0}
    marks = []
    for k, (name, data, fail) in enumerate(files):
        vals, clean = split(data, fail)
        for (s, e, need) in vals:
            out += out_value(pk, to_value(data[s:e]), name, state)
            if k == 0:
                marks.append((need, len(out.encode())))
        if not clean:
            return "json", out, marks
    out += out_end(pk, state)
    return "ok", out, marks


# ------------------------------------------------------------------ stream generation
SCALAR_TEXTS = ["0", "1", "12", "-3", "2.5", "1e2", "-0", "10", "\"a\"", "\"\"", "\"x y\"", "\"q\\\"z\"", "\"t\\tn\"", "\"\\u0041\"",
                "true", "false", "null"]


def rand_value_text(rng, depth=2):
    k = rng.random()
    if depth <= 0 or k < 0.35:
        return rng.choice(SCALAR_TEXTS)
    sp = rng.choice(["", "", " ", "\n"])
    if k < 0.75:
        return "[" + sp + ("," + sp).join(rand_value_text(rng, depth - 1) for _ in range(rng.randint(0, 3))) + sp + "]"
    keys = rng.sample(["a", "b", "k", "a"], rng.randint(0, 3))
    return "{" + sp + ("," + sp).join("\"%s\":%s%s" % (key, sp, rand_value_text(rng, depth - 1)) for key in keys) + sp + "}"


def rand_stream(rng, nvals, short=False):
    texts = []
    for _ in range(nvals):
        k = rng.random()
        if k < 0.5:
            t = "[" + ",".join(rng.choice(SCALAR_TEXTS[:8] if short else SCALAR_TEXTS) for _ in range(rng.randint(0, 3))) + "]"
        elif k < 0.7 and not short:
            t = rand_value_text(rng, 2)
        elif k < 0.85:
            t = rng.choice(SCALAR_TEXTS)
        else:
            t = rng.choice(["{}", "{\"a\":1}", "{\"a\":[1,2],\"b\":null}", "[]", "[[1],[2]]"])
        texts.append(t)
    s = rng.choice(["", "", " ", "\n"])
    for i, t in enumerate(texts):
        if i:
            seps = [" ", "\n", " \n\t", "\r\n"]
            prev = texts[i - 1]
            merges = prev[-1] in "0123456789" and t[0] in "0123456789.eE+-"
            if not merges:
                seps += ["", ""]
            s += rng.choice(seps)
        s += t
    return (s + rng.choice(["", "", "\n", "  "])).encode()


def chunk_at(data, cuts):
    cuts = sorted(set(c for c in cuts if 0 < c < len(data)))
    out, p = [], 0
    for c in cuts + [len(data)]:
        piece = data[p:c]
        while len(piece) > 512:
            out.append(piece[:512])
            piece = piece[512:]
        if piece:
            out.append(piece)
        p = c
    return out


STRAY = [b"]", b"}", b"x", b",", b":", b"]]", b"nul", b"\"", b"-", b"1.", b"[", b"{\"a\"", b"\x00", b"tru e", b"\xef\xbb\xbf", b"\x0b", b"\x1e"]
# bytes that are not JSON but that a lenient reader might skip: byte order marks (whole, partial, doubled, UTF-16), no-break and
# line-separator spaces, vertical tab / form feed, the json-seq record separator, comments, the XSSI guard.  In front of a stream
# (and of the second file's) they are stray text whatever the read boundaries are: whole in the first read, split inside, one byte each
LEADS = [b"\xef\xbb\xbf", b"\xef\xbb", b"\xef", b"\xef\xbb\xbf\xef\xbb\xbf", b"\xff\xfe", b"\xfe\xff", b"\xff\xfe[\x00", b"\xc2\xa0",
         b"\xe2\x80\xa8", b"\xe2\x80\x8b", b"\x0b", b"\x0c", b"\x1e", b"\x00", b"\x7f", b"\x1a", b"//c\n", b"/**/", b"#c\n", b")]}'\n", b";", b"\\n",
         b" \xef\xbb\xbf", b"\n\xef\xbb\xbf"]
CORRUPT = b"]}[{x,:\" 0-\\t\n9e."


class C03(Check):
    pid = "C03"
    props = ["C03_stream.v"]
    io = True
    rule = ("generated value streams (1-6 top-level arrays/objects/scalars/strings, every whitespace separation incl. none) under many "
            "partitions into reads (one read, one byte per read, cuts at value boundaries, random cuts); every prefix of the stream "
            "with a clean end of input and with a failing reader; stray text inserted at every value boundary; byte order marks and other "
            "skippable-looking non-JSON bytes in front of a stream under every split of them across the first reads; single-byte corruptions; "
            "two-file runs; three tracing programs. Expected stdout/outcome from an independent stream scanner; incrementality from the "
            "read/write log; the real binary fed through a pipe with pauses, writes aligned to values and writes that carry the end of one value "
            "together with the beginning of the next. non-trivial = at least two values or a fault")

    def project(self, r):
        if r.outcome == "crash":
            return ANY
        return (r.outcome, r.stdout, r.iolog)

    def generate(self, rng, tier):
        quick = tier == "quick"
        cases = []
        n_short = 16 if quick else 300
        n_long = 12 if quick else 250
        self_k = [0]

        def add(kind, pk, files_chunks, key=None, tags=()):
            """files_chunks: [(name, [chunks], fail)]"""
            cid = "v%d" % self_k[0]
            self_k[0] += 1
            flat = [(name, b"".join(ch), fail) for name, ch, fail in files_chunks]
            outcome, out, marks = expect(pk, flat)
            nvals = sum(len(split(d, f)[0]) for _, d, f in flat)
            meta = {"kind": kind, "prog": PROGS[pk], "pk": pk,
                    "files": [[name, [c.decode("latin-1") for c in ch], fail] for name, ch, fail in files_chunks],
                    "expected_outcome": outcome, "expected_stdout": out, "marks": marks if len(flat) == 1 else None}
            if key is not None:
                meta["key"] = key
            cases.append(Case(cid, run_case(cid, PROGS[pk], files_chunks, (), True), meta, nvals >= 2 or outcome == "json", tags))

        def rand_cuts(data):
            return [rng.randrange(1, len(data)) for _ in range(rng.randint(1, 5))] if len(data) > 1 else []

        def boundary_cuts(data):
            vals, _ = split(data, False)
            return [e for _, e, _ in vals] + [min(len(data), n) for _, _, n in vals]

        streams = []
        fixed = [b"[1] [2]", b"1 2 3", b"[1][2]", b"1x", b"[1] ] [2]", b"\"a\"\"b\"", b"truefalse", b"{\"a\":1}{\"a\":2}\n", b"12", b" ", b"",
                 b"[1,2]\n[3]\n", b"1 \"s\" null [true] {}", b"01", b"-", b"[1]2[3]", b"nullnull",
                 b"[1] 1e999 [2]", b"[1e-999] 2", b"[1] [1, -1.8e308] [2]", b"[1e308]"]
        for f in fixed:
            streams.append((f, True))
        for _ in range(n_short):
            streams.append((rand_stream(rng, rng.randint(1, 3), short=True), True))
        for _ in range(n_long):
            streams.append((rand_stream(rng, rng.randint(2, 6)), False))

        for sk, (data, exhaustive) in enumerate(streams):
            pk = rng.choice(["print", "trace", "trace", "count"])
            n = len(data)
            name = rng.choice(["<test1>", "in.json", "dir/x.jsonl"])
            key = "s%d" % sk
            # --- chunkings of the whole stream (metamorphic group `key`)
            parts = [[n], list(range(1, n)), boundary_cuts(data)] + [rand_cuts(data) for _ in range(8)]
            if exhaustive and n <= 7:
                parts += [[i for i in range(1, n) if m >> (i - 1) & 1] for m in range(1 << max(0, n - 1))]
            for fail in (False, True):
                for cuts in parts:
                    add("chunking", pk, [(name, chunk_at(data, cuts), fail)], key=key + ("f" if fail else ""))
            # --- every prefix, clean end and failing reader
            positions = range(n + 1) if exhaustive or n <= 40 else sorted(set(rng.sample(range(n + 1), 40)) | set(boundary_cuts(data)))
            for i in positions:
                pre = data[:i]
                for fail in (False, True):
                    cuts = rng.choice([[], list(range(1, i)), rand_cuts(pre)])
                    add("prefix", pk, [(name, chunk_at(pre, cuts), fail)])
            # --- stray text at every value boundary
            vals, _ = split(data, False)
            bounds = sorted(set([0] + [e for _, e, _ in vals] + [s for s, _, _ in vals]))
            for bpos in bounds:
                for stray in (STRAY if exhaustive else rng.sample(STRAY, 4)):
                    for pad in ((b" ",) if not exhaustive else (b" ", b"")):
                        mod = data[:bpos] + pad + stray + pad + data[bpos:]
                        add("stray", pk, [(name, chunk_at(mod, rng.choice([[], list(range(1, len(mod))), rand_cuts(mod)])), False)])
            # --- non-JSON bytes in front of the stream, under every way of splitting them across the first reads
            leads = [LEADS[0]] + rng.sample(LEADS[1:], 5 if quick else len(LEADS) - 1)
            for lk, lead in enumerate(leads):
                mod = lead + data
                m = len(mod)
                lparts = [[], list(range(1, m)), [len(lead)], [len(lead) + 1], [1], [2], [1, len(lead)], [len(lead), m - 1], rand_cuts(mod)]
                for cuts in lparts:
                    add("lead", pk, [(name, chunk_at(mod, cuts), False)], key=key + "L%d" % lk)
                add("lead", pk, [(name, chunk_at(mod, rng.choice(lparts)), True)])
                add("lead", pk, [("a.json", chunk_at(data, rand_cuts(data)), False), ("b.json", chunk_at(mod, rng.choice(lparts)), False)])
            # --- single byte corruptions
            if all(c < 128 for c in data):
                idx = range(n) if exhaustive and n <= 24 else rng.sample(range(n), min(n, 12))
                for i in idx:
                    for c in (rng.sample(list(CORRUPT), 4) if quick else CORRUPT):
                        if data[i] == c:
                            continue
                        mod = data[:i] + bytes([c]) + data[i + 1:]
                        add("corrupt", pk, [(name, chunk_at(mod, rng.choice([[], list(range(1, n))])), False)])
            # --- two files: the fault of one file ends the run, the other file's values are processed before it / never
            other = rand_stream(rng, 2, short=True)
            bad = data[:rng.randrange(n + 1)] + rng.choice(STRAY) if n else b"x"
            add("twofiles", pk, [("a.json", chunk_at(other, rand_cuts(other)), False), ("b.json", chunk_at(bad, rand_cuts(bad)), False)])
            add("twofiles", pk, [("a.json", chunk_at(bad, rand_cuts(bad)), False), ("b.json", chunk_at(other, []), False)])
            add("twofiles", pk, [("a.json", chunk_at(data, rand_cuts(data)), False), ("b.json", chunk_at(other, [1]), True)])
            add("twofiles", pk, [("a.json", chunk_at(data, []), False), ("b.json", chunk_at(other, list(range(1, len(other)))), False)])
            # --- programs without a pattern rule over the same stream: chunkings, every (sampled) prefix with a clean end and a failing
            # reader, stray text at the value boundaries, corruptions, two files
            for pk2 in rng.sample(sorted(NOPAT), 2 if quick else 4):
                for fail in (False, True):
                    for cuts in ([n], list(range(1, n)), rand_cuts(data)):
                        add("nopattern-chunking", pk2, [(name, chunk_at(data, cuts), fail)], key=key + pk2 + ("f" if fail else ""))
                ppos = range(n + 1) if n <= 16 else sorted(set(rng.sample(range(n + 1), 12)) | set(boundary_cuts(data)) | {n - 1, n})
                for i in ppos:
                    pre = data[:i]
                    for fail in (False, True):
                        add("nopattern-prefix", pk2, [(name, chunk_at(pre, rng.choice([[], list(range(1, i)), rand_cuts(pre)])), fail)])
                for bpos in bounds:
                    for stray in rng.sample(STRAY, 2):
                        mod = data[:bpos] + b" " + stray + b" " + data[bpos:]
                        add("nopattern-stray", pk2, [(name, chunk_at(mod, rng.choice([[], rand_cuts(mod)])), False)])
                if n and all(c < 128 for c in data):
                    for i in rng.sample(range(n), min(n, 4)):
                        c = rng.choice(list(CORRUPT))
                        if data[i] != c:
                            add("nopattern-corrupt", pk2, [(name, chunk_at(data[:i] + bytes([c]) + data[i + 1:], []), False)])
                add("nopattern-twofiles", pk2, [("a.json", chunk_at(other, rand_cuts(other)), False), ("b.json", chunk_at(bad, rand_cuts(bad)), False)])
                add("nopattern-twofiles", pk2, [("a.json", chunk_at(bad, []), False), ("b.json", chunk_at(other, []), False)])
                add("nopattern-twofiles", pk2, [("a.json", chunk_at(data, rand_cuts(data)), False), ("b.json", chunk_at(other, [1]), True)])
        return cases

    # ------------------------------------------------------------------
    def oracle(self, case, impl):
        why = abnormal(impl)
        if why:
            return why
        m = case.meta
        if "expected_stdout" not in m or impl.outcome in ("timeout", "noresult", "badcase"):
            return None
        want = (m["expected_outcome"], m["expected_stdout"].encode())
        got = (impl.outcome, impl.stdout)
        if got != want:
            if want[0] == "json" and got[0] == "ok":
                return "input fault not reported: documented json error after %r, implementation ended successfully with %r" % (want[1], got[1])
            return "stream %r: documented %r, implementation %r" % (m["files"], want, got)
        if m.get("marks") is not None and impl.iolog not in ("?",):
            return incremental(m["marks"], impl.iolog)
        return None

    def extra(self, ctx):
        viol, stats = [], {}
        # chunking independence as a metamorphic relation (also implied by the per-case expectation)
        groups = {}
        for c in ctx["cases"]:
            k = c.meta.get("key")
            if k and c.line:
                groups.setdefault(k, []).append(c)
        ngroups = 0
        for k, cs in groups.items():
            ngroups += 1
            res = [(c, RunRes(ctx["impl"].get(c.id, []))) for c in cs]
            res = [(c, r) for c, r in res if r.outcome not in ("timeout", "noresult", "badcase")]
            if not res:
                continue
            c0, r0 = res[0]
            for c, r in res[1:]:
                if (r.outcome, r.stdout) != (r0.outcome, r0.stdout):
                    viol.append((c, "result depends on how the bytes are split across reads: %r gives %s %r, %r gives %s %r"
                                 % (c0.meta["files"][0][1], r0.outcome, r0.stdout, c.meta["files"][0][1], r.outcome, r.stdout)))
                    break
        stats["chunking_groups"] = ngroups
        # the real binary through a pipe, with pauses between the writes
        rng, tier = ctx["rng"], ctx["tier"]
        nlive = 10 if tier == "quick" else 60
        for k in range(nlive):
            pk = rng.choice(["print", "trace"])
            texts = []
            for _ in range(rng.randint(2, 5)):
                t = rng.choice(["[1, 2, 3]", "{\"a\": 1}", "7", "\"s\"", "[[1], 2]", "null", "[]", "true", "[\"ab\", {\"k\": [1]}]", "12.5"])
                texts.append(t + rng.choice(["\n", " ", "\n\n"]))
            data = "".join(texts).encode()
            starts = [sum(len(t) for t in texts[:i]) for i in range(len(texts))]
            if k % 2 == 0:
                cuts = starts[1:]                   # one write per value (with its separator)
            else:
                # a write ends inside a value: it carries the rest of one value, the separator and the beginning of the next
                cuts = [st + rng.randint(1, len(t.rstrip()) - 1) for st, t in zip(starts, texts) if len(t.rstrip()) >= 2 and st > 0]
                if rng.random() < 0.5:
                    cuts += [rng.randrange(1, len(data)) for _ in range(rng.randint(1, 3))]
            cuts = sorted(set(c for c in cuts if 0 < c < len(data)))
            writes = [data[a:b] for a, b in zip([0] + cuts, cuts + [len(data)])]
            why, detail = live_pipe(pk, writes)
            if why:
                viol.append((Case("live%d" % k, None, {"prog": PROGS[pk], "writes": [w.decode() for w in writes], "detail": detail}, True, ("live",)), why))
                break       # (every failing run waits out its deadline)
        stats["live_pipe_runs"] = nlive
        # faults through the binary: exit status 1, diagnostic naming the file, earlier values' output kept
        probes = [(b"[1] ] [2]", "1\n"), (b"[1]\n[2", "1\n"), (b"[1] x", "1\n"), (b"1 2 }", "1\n2\n"), (b"[1,2]\n{\"a\":", "1\n2\n"), (b"nul", ""),
                  (b"[1] [2", "1\n"), (b"{", ""), (b"[1]\n\"abc", "1\n"), (b"\xef\xbb\xbf[1]", ""), (b"[1]]", "1\n")]
        # every kind of program: with a pattern rule, and without one (only BEGIN, only END, both, empty, only a function, only BEGINFILE)
        cli_progs = [("{ print }", "", True), ("BEGIN { print \"start\" }", "start\n", False), ("END { print \"end\" }", "", False),
                     ("BEGIN { print \"start\" }\nEND { print \"end\" }", "start\n", False), ("", "", False), ("function f() { return 1 }", "", False),
                     ("BEGINFILE { n++ }", "", False), ("BEGIN { print \"a\" }\nBEGIN { print \"b\" }", "a\nb\n", False)]
        with Scratch() as sc:
            for data, out, cprog, cbegin, prints in [(d_, o_, p_, b_, pr_) for d_, o_ in probes for p_, b_, pr_ in cli_progs]:
                if not prints:
                    self.cli_nopattern(sc, data, cprog, cbegin, viol)
                    continue
                good = sc.file(b"[7]\n", ".json")
                badf = sc.file(data, ".json")
                res = run_cli(["{ print }", good, badf], b"", timeout=10)
                why = res.why_bad()
                if not why and not res.timed_out:
                    if res.rc != 1:
                        why = "faulty input %r: exit status %d" % (data, res.rc)
                    elif res.out.decode() != "7\n" + out:
                        why = "faulty input %r: stdout %r, documented %r" % (data, res.out, "7\n" + out)
                    elif os.path.basename(badf).encode() not in res.err:
                        why = "faulty input %r: the diagnostic does not name the file: %r" % (data, res.err)
                if why:
                    viol.append((Case("cli-fault", None, {"prog": "{ print }", "second_file": data.decode(), "stderr": res.err.decode("utf-8", "replace")},
                                      True, ("cli",)), "jqawk binary: " + why))
                # the same bytes on stdin
                res = run_cli(["{ print }"], data, timeout=10)
                why = res.why_bad()
                if not why and not res.timed_out and (res.rc != 1 or res.out.decode() != out or b"<stdin>" not in res.err):
                    why = "faulty stdin %r: exit status %s, stdout %r, stderr %r" % (data, res.rc, res.out, res.err)
                if why:
                    viol.append((Case("cli-fault-stdin", None, {"prog": "{ print }", "stdin": data.decode()}, True, ("cli",)), "jqawk binary: " + why))
        stats["cli_fault_probes"] = 2 * len(probes) * len(cli_progs)
        return viol, stats

    def cli_nopattern(self, sc, data, prog, begin_out, viol):
        """faulty input `data` through the binary under a program without a pattern rule: second of two named files, the only named file,
        stdin.  Exit status 1, the BEGIN output and nothing else on stdout, a diagnostic naming the input"""
        good = sc.file(b"[7]\n", ".json")
        badf = sc.file(data, ".json")
        for how, args, stdin, label in (("second of two files", [prog, good, badf], b"", os.path.basename(badf).encode()),
                                        ("the only file", [prog, badf], b"", os.path.basename(badf).encode()),
                                        ("stdin", [prog], data, b"<stdin>")):
            res = run_cli(args, stdin, timeout=10)
            why = res.why_bad()
            if not why and not res.timed_out:
                if res.rc == 0:
                    why = "faulty input %r (%s) under a program without a pattern rule: exit status 0, stderr %r: the fault went unreported" % (data, how, res.err)
                elif res.out.decode("utf-8", "replace") != begin_out:
                    why = "faulty input %r (%s): stdout %r, documented %r" % (data, how, res.out, begin_out)
                elif label not in res.err:
                    why = "faulty input %r (%s): the diagnostic does not name the input: %r" % (data, how, res.err)
            if why:
                viol.append((Case("cli-fault-nopattern", None, {"prog": prog, "input": data.decode("latin-1"), "delivered_as": how,
                                                                "stderr": res.err.decode("utf-8", "replace")}, True, ("cli",)), "jqawk binary: " + why))
                return


def incremental(marks, iolog):
    """marks: [(need, cumulative stdout length once that value has been processed)].  At the moment any Read is
    issued, the output of every value already complete in the delivered bytes must have been written."""
    delivered = written = 0
    for ev in ([] if iolog == "-" else iolog.split(",")):
        if ev[0] == "R":
            for need, outlen in marks:
                if need <= delivered and written < outlen:
                    return ("not incremental: a read was issued after %d input bytes had been delivered although only %d of the %d output "
                            "bytes due for the values complete by then were written (log %s)" % (delivered, written, outlen, iolog[:200]))
            if ev not in ("RE", "RX"):
                delivered += int(ev[1:])
        elif ev[0] == "W":
            written += int(ev[1:])
    return None


def live_pipe(pk, writes, wait=30.0):
    """Feed the binary through a pipe, one write at a time, pausing after each until the output of every value that is
    complete in the bytes written so far (a scalar needs one following byte) has arrived."""
    p = subprocess.Popen([JQAWK, PROGS[pk]], stdin=subprocess.PIPE, stdout=subprocess.PIPE, stderr=subprocess.PIPE)
    got = b""
    delivered = b""
    try:
        for w in writes:
            p.stdin.write(w)
            p.stdin.flush()
            delivered += w
            vals, _ = split(delivered, True)
            state = {"n": 0}
            want = (out_begin(pk) + "".join(out_value(pk, to_value(delivered[s:e]), "<stdin>", state) for s, e, _ in vals)).encode()
            deadline = time.time() + wait
            while len(got) < len(want) and time.time() < deadline:
                r, _, _ = select.select([p.stdout], [], [], max(0.0, deadline - time.time()))
                if not r:
                    break
                chunk = os.read(p.stdout.fileno(), 65536)
                if not chunk:
                    break
                got += chunk
            if got[:len(want)] != want:
                return ("output of a complete value not written while the input pipe stays open: after %r had been written (%d complete values) "
                        "expected %r so far, got %r" % (delivered.decode(), len(vals), want, got)), {"stderr": ""}
            time.sleep(0.02)
        p.stdin.close()
        rest = p.stdout.read()
        err = p.stderr.read()
        rc = p.wait(timeout=10)
        outcome, out, _ = expect(pk, [("<stdin>", delivered, False)])
        if rc != (0 if outcome == "ok" else 1) or got + rest != out.encode():
            return "after closing the pipe: exit status %d, stdout %r, documented %r" % (rc, got + rest, out), {"stderr": err.decode("utf-8", "replace")}
        return None, None
    finally:
        try:
            p.kill()
        except Exception:
            pass
        for f in (p.stdin, p.stdout, p.stderr):
            try:
                f.close()
            except Exception:
                pass


CHECK = C03()
