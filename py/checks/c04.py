"""C04: JSON written by -o and json() is valid and equal to the value it represents."""
import os, json, math, struct, subprocess, tempfile, shutil, copy
from framework import Check, Case
from jqlib import simple_run, RunRes, JQAWK, BUILD, unhx
import pyref, treeref
from treeref import loads, loads_stream, same, BadJson

# ---------------------------------------------------------------- documents (text level)

SIMPLE_KEYS = ["a", "b", "k", "name", "id", "v", "list", "z9", "Key", "x_y"]
ODD_KEYS = ["", " ", "a b", "\u00e9", "\u65e5\u672c", "a.b", "k\"q", "back\\slash", "<tag>", "&amp;", "\u2028", "tab\there", "nul\u0000",
            "length", "pluck", "0", "-1", "\U0001f600", "$", "a/b", "k\\u003ek", "\\u0026"]
STR_PIECES = ["a", "abc", "Hello, World", " ", "", "\u00e9", "\u00fc", "\u65e5\u672c\u8a9e", "\U0001f600", "\u2028", "\u2029", "<", ">", "&",
              "<script>", "\"", "\\", "/", "\b", "\f", "\n", "\r", "\t", "\u0000", "\u0001", "\u001f", "\u007f", "\u0080", "\u00ff",
              "\ufffd", "\uffff", "'", "%s", "{}", "[]", "null", "0", "\U0001d11e", "\u0300", "a\u0000b",
              # text that LOOKS like the encoder's own escapes: a literal backslash followed by an escape body
              "\\u003c", "\\u003e", "\\u0026", "\\u2028", "\\u0000", "\\n", "\\\"", "x\\u003cy", "u003c", "\\\\u0026"]
ESC = {'"': '\\"', "\\": "\\\\", "\b": "\\b", "\f": "\\f", "\n": "\\n", "\r": "\\r", "\t": "\\t"}
NUM_TEXTS = ["0", "-0", "-0.0", "0.0", "0e0", "1", "-1", "1.0", "1.5", "-2.5", "10", "100", "1e2", "1E2", "1e+2", "1e-2", "1.0E+2",
             "0.1", "0.2", "0.30000000000000004", "1e21", "1e20", "999999999999999900000", "1e-7", "1e-6", "0.000001", "0.0000001",
             "9007199254740991", "9007199254740992", "9007199254740993", "9007199254740994", "-9007199254740993",
             "18014398509481985", "4503599627370497.5", "5e-324", "4.9e-324", "2.2250738585072014e-308", "2.225073858507201e-308",
             "1.7976931348623157e308", "1.7976931348623157E+308", "123456789012345678901234567890",
             "0.1000000000000000055511151231257827", "3.141592653589793", "2.718281828459045", "1e308", "1e-308", "1e-323",
             "123456789", "0.5", "1e+007", "12345678901234567890", "4294967296", "2147483648", "-2147483649", "65536", "1e15", "1e16",
             "1e17", "123456789012345680000", "0.00001", "100000000000000000000", "1000000000000000000000"]
LONE = ["\\ud800", "\\udc00", "\\ud800\\ud800", "\\udbff", "\\udfff", "a\\ud83dz", "\\ude00\\ud83d"]


def str_text(rng, s):
    """a JSON string literal for s with a random mixture of raw characters and escapes"""
    out = ['"']
    for ch in s:
        o = ord(ch)
        if ch in ESC and (o < 0x20 or ch in '"\\' or rng.random() < 0.5):
            out.append(ESC[ch] if rng.random() < 0.8 or ch in '"\\' and rng.random() < 0.9 else "\\u%04x" % o)
        elif o < 0x20:
            out.append("\\u%04x" % o if rng.random() < 0.5 else "\\u%04X" % o)
        elif ch == "/" and rng.random() < 0.5:
            out.append("\\/")
        elif rng.random() < 0.15:
            if o > 0xFFFF:
                o -= 0x10000
                out.append("\\u%04x\\u%04x" % (0xD800 + (o >> 10), 0xDC00 + (o & 0x3FF)))
            else:
                out.append("\\u%04x" % o)
        else:
            out.append(ch)
    out.append('"')
    return "".join(out)


def rand_string(rng):
    k = rng.random()
    if k < 0.3:
        return rng.choice(STR_PIECES)
    if k < 0.5:
        return "".join(chr(rng.randint(0x20, 0x7e)) for _ in range(rng.randint(0, 12)))
    if k < 0.6:
        return "".join(chr(rng.choice([rng.randint(0, 0x1f), rng.randint(0x20, 0x7e), rng.randint(0x80, 0x7ff),
                                       rng.randint(0x800, 0xd7ff), rng.randint(0xe000, 0xffff), rng.randint(0x10000, 0x10ffff)]))
                       for _ in range(rng.randint(1, 8)))
    return "".join(rng.choice(STR_PIECES) for _ in range(rng.randint(2, 5)))


def rand_number_text(rng):
    k = rng.random()
    if k < 0.45:
        return rng.choice(NUM_TEXTS)
    if k < 0.8:
        while True:
            bits = rng.getrandbits(64)
            if (bits >> 52) & 0x7ff != 0x7ff:
                break
        if rng.random() < 0.15:
            bits &= ~(0x7ff << 52)          # subnormal
        x = struct.unpack("<d", struct.pack("<Q", bits))[0]
        t = repr(x)
        if rng.random() < 0.2:
            t = t.replace("e", "E")
        return t
    if k < 0.9:
        n = 2 ** 53 + rng.randint(-40, 40)
        return str(n if rng.random() < 0.7 else -n)
    if k < 0.95:
        return "%d.%d" % (rng.randint(0, 10 ** rng.randint(1, 18)), rng.randint(0, 10 ** rng.randint(1, 20)))
    return "%de%d" % (rng.randint(1, 99999), rng.randint(-320, 300))


class DocGen:
    """text of a random JSON document; the expected value is what Python's parser reads from the same text"""

    def __init__(self, rng, budget, ws=True, lone=False):
        self.r = rng
        self.budget = budget
        self.ws = ws
        self.lone = lone
        self.containers = 0

    def sp(self):
        if not self.ws:
            return ""
        return self.r.choice(["", "", "", " ", "\n", "\t", "  ", "\r\n"])

    def scalar(self):
        r = self.r
        k = r.random()
        if k < 0.34:
            return rand_number_text(r)
        if k < 0.75:
            if self.lone and r.random() < 0.3:
                return '"' + r.choice(LONE) + '"'
            return str_text(r, rand_string(r))
        return r.choice(["null", "true", "false"])

    def key(self):
        r = self.r
        k = r.random()
        if k < 0.65:
            return r.choice(SIMPLE_KEYS)
        if k < 0.85:
            return r.choice(ODD_KEYS)
        return rand_string(r)

    def value(self, depth):
        r = self.r
        self.budget -= 1
        if self.budget <= 0 or depth <= 0 or r.random() < 0.3:
            if depth > 0 and r.random() < 0.25:
                self.containers += 1
                return r.choice(["[]", "{}", "[ ]", "{ }", "[\n]", "{\n}"]) if self.ws else r.choice(["[]", "{}"])
            return self.scalar()
        self.containers += 1
        n = r.choice([0, 1, 1, 2, 2, 3, 4, 6, 10])
        n = min(n, max(0, self.budget))
        if r.random() < 0.5:
            items = [self.value(depth - 1) for _ in range(n)]
            # empty containers forced at every depth
            if r.random() < 0.4:
                items.insert(r.randint(0, len(items)), r.choice(["[]", "{}"]))
                self.containers += 1
            return "[" + self.sp() + ("," + self.sp()).join(i + self.sp() for i in items) + "]"
        items = []
        for _ in range(n):
            items.append(str_text(r, self.key()) + self.sp() + ":" + self.sp() + self.value(depth - 1))
        if r.random() < 0.4:
            items.insert(r.randint(0, len(items)), str_text(r, r.choice(["e", "empty", "o"])) + ":" + r.choice(["[]", "{}"]))
            self.containers += 1
        return "{" + self.sp() + ("," + self.sp()).join(i + self.sp() for i in items) + "}"


def rand_doc(rng, budget=None, lone=False):
    budget = rng.choice([0, 1, 2, 5, 10, 20, 40, 80, 200]) if budget is None else budget
    g = DocGen(rng, budget, ws=rng.random() < 0.7, lone=lone)
    depth = rng.choice([0, 1, 2, 3, 4, 6, 9])
    text = g.value(depth)
    return text, g.containers


def nest_empty(rng, depth):
    """documents that are nothing but nesting, ending in an empty container at the given depth"""
    t = rng.choice(["[]", "{}"])
    for d in range(depth):
        if rng.random() < 0.5:
            t = "[" + rng.choice(["", "[],", "{},", "0,"]) + t + rng.choice(["", ",[]", ",{}", ",null"]) + "]"
        else:
            t = '{"k":' + t + rng.choice(["", ',"e":[]', ',"o":{}', ',"n":1']) + "}"
    return t


def simple_paths(v, prefix=()):
    """paths (tuples of str / int) to every sub-value reachable through keys that can be written in a selector"""
    out = [prefix]
    if isinstance(v, list):
        for i, x in enumerate(v):
            out += simple_paths(x, prefix + (i,))
    elif isinstance(v, dict):
        for k, x in v.items():
            if k not in treeref.METHOD_NAMES and k != "" and all(0x20 <= ord(c) < 0xD800 and c not in "'\"\\" for c in k):
                out += simple_paths(x, prefix + (k,))
    return out


def selector_text(rng, path):
    s = "$"
    for k in path:
        if isinstance(k, int):
            s += "[%d]" % k
        elif treeref.dotted(k) and rng.random() < 0.7:
            s += "." + k
        else:
            s += "['%s']" % k
    return s


def at_path(v, path):
    for k in path:
        v = v[k]
    return v


# ---------------------------------------------------------------- program-built values

def unfold(v, path=()):
    """the tree a (possibly shared) Python structure denotes; None, True if some container contains itself"""
    if isinstance(v, (list, dict)):
        if any(v is p for p in path):
            raise RecursionError
        if isinstance(v, list):
            return [unfold(x, path + (v,)) for x in v]
        return {k: unfold(x, path + (v,)) for k, x in v.items()}
    if v is pyref.UNSET:
        return None
    return v


def cyclic(v):
    try:
        unfold(v)
        return False
    except RecursionError:
        return True


def gen_linked(rng, close):
    """k containers linked in a ring (close=True) or a chain / diamond (close=False) by stores into existing slots.
    Returns (statements, python structures by name)."""
    k = rng.randint(1, 4)
    names = ["c%d" % i for i in range(k)]
    kinds = [rng.choice("ao") for _ in range(k)]
    stmts, objs = [], {}
    for n, kd in zip(names, kinds):
        if kd == "a":
            fill = rng.randint(1, 3)
            objs[n] = [float(i) for i in range(fill)]
            stmts.append("%s = [%s]" % (n, ", ".join(str(i) for i in range(fill))))
        else:
            objs[n] = {"k": 0.0, "w": "s"}
            stmts.append("%s = {k: 0, w: 's'}" % n)
    links = [(i, (i + 1) % k) for i in range(k)]
    if not close:
        links = links[:-1]
        if k >= 3 and rng.random() < 0.5:
            links.append((0, 2))            # a diamond: shared, not cyclic
    rng.shuffle(links)
    for i, j in links:
        if kinds[i] == "a":
            slot = rng.randrange(len(objs[names[i]]))
            # keep earlier links of this container alive
            taken = [s for s in range(len(objs[names[i]])) if isinstance(objs[names[i]][s], (list, dict))]
            free = [s for s in range(len(objs[names[i]])) if s not in taken]
            if not free:
                continue
            slot = rng.choice(free)
            objs[names[i]][slot] = objs[names[j]]
            stmts.append("%s[%d] = %s" % (names[i], slot, names[j]))
        else:
            key = rng.choice(["k", "w"])
            if isinstance(objs[names[i]].get(key), (list, dict)):
                key = "k" if key == "w" else "w"
                if isinstance(objs[names[i]].get(key), (list, dict)):
                    continue
            objs[names[i]][key] = objs[names[j]]
            stmts.append("%s.%s = %s" % (names[i], key, names[j]))
    return stmts, objs


INEXPRESSIBLE = ["printf", "json", "num", "fn", "[1].length", "'a'.upper", "{k: 1}.pluck", "(5).floor",
                 "num('inf')", "num('-inf')", "num('nan')", "num('+Inf')", "num('Infinity')", "num('1e308') * 10", "-num('inf')",
                 "num('inf') - num('inf')", "/re/", "[1, num('inf')]", "{k: num('nan')}", "[[{k: [num('-inf')]}]]", "[/re/]",
                 "{k: /re/}", "[1, 2, [3, /x/]]"]
EXPRESSIBLE = [("u", None), ("[u]", [None]), ("{k: u}", {"k": None}), ("null", None), ("true", True), ("false", False),
               ("[]", []), ("{}", {}), ("[[]]", [[]]), ("[{}]", [{}]), ("{k: []}", {"k": []}), ("{k: {}}", {"k": {}}),
               ("[[], {}, [[]], {k: [{}]}]", [[], {}, [[]], {"k": [{}]}]), ("1/3", 1 / 3), ("-0", -0.0), ("0 * -1", -0.0),
               ("num('1e21')", 1e21), ("num('1e-7')", 1e-7), ("num('5e-324')", 5e-324), ("2 * 4503599627370496 + 1", 2.0 ** 53),
               ("'<a href=x>&'", "<a href=x>&"), ("'tab\\there\\nnl'", "tab\there\nnl"), ("'back\\\\slash'", "back\\slash"),
               ("'\u00e9\u65e5\u672c\U0001f600'", "\u00e9\u65e5\u672c\U0001f600"), ("'\u2028'", "\u2028"), ("'q\"q'", 'q"q'), ("\"it's\"", "it's"), ("''", ""),
               ("[1, 'a', true, null, [2], {k: 3}]", [1.0, "a", True, None, [2.0], {"k": 3.0}]),
               ("'a,b'.split(',')", ["a", "b"]), ("''.split(',')", [""]), ("[3, 1, 2].sort()", [1.0, 2.0, 3.0]), ("[].sort()", []),
               ("{a: 1, b: 2}.pluck()", {}), ("{a: 1, b: 2}.pluck('b')", {"b": 2.0}), ("(2.5).round()", 3.0),
               ("num('9007199254740993')", 9007199254740992.0), ("num('abc')", None), ("'x'.length()", 1.0)]

VALS = [0.0, 1.0, -2.5, 1e21, "s", "", True, False, None, [], {}, [1.0, []], {"k": {}}]
KEYS = ["a", "b", "k", "z9", 0.0, 1.0, 2.0, 3.0, -1.0, 1.7]


def gen_built(rng):
    """stores through random paths into unset variables (auto-created containers).  Returns (stmts, env) or None."""
    env = {}
    stmts = []
    for _ in range(rng.randint(1, 6)):
        base = rng.choice(["v", "v", "w"])
        keys = [rng.choice(KEYS) for _ in range(rng.randint(1, 4))]
        val = rng.choice(VALS)
        val = copy.deepcopy(val)
        try:
            treeref.store(env, base, keys, val)
        except (treeref.RErr, treeref.Unspecified):
            return None
        stmts.append("%s = %s" % (treeref.src_path(base, keys, rng), pyref.literal(val)))
    return stmts, env


# ---------------------------------------------------------------- deep acyclic nesting
# encoding/json reads documents nested up to 10000 containers deep (deeper input is a JSON error: C20's subject), so every
# depth up to that is a document the property speaks about; nothing on the way out may mistake depth for a cycle.  The
# texts are generated compact and canonical (no whitespace, keys ascending, numbers in shortest form, no character Go
# escapes) so that the expected output is the text itself once the indentation is taken out: Python's recursive parser
# cannot read them.
DECODER_LIMIT = 10000
DEEP_LEVELS = {"arr": [("[", "]")], "obj": [('{"k":', "}")], "alt": [("[", "]"), ('{"k":', "}")],
               "mix": [("[", "]"), ('{"k":', "}"), ("[0,", "]"), ("[", ",null]"), ('["s",', ",[]]"), ('{"a":1,"k":', "}"),
                       ('{"k":', ',"z":{}}'), ('{"a":[],"k":', ',"z":"s"}'), ("[[],{},", ",true]")]}
DEEP_LEAVES = [("1", "1"), ('"s"', "'s'"), ("null", "null"), ("true", "true"), ("[]", "[]"), ("{}", "{}"), ("0.5", "0.5"), ("-3", "-3")]


def deep_text(rng, depth, shape, leaf):
    """compact text with `depth` containers around the leaf; shape alt alternates from the outside, mix draws every level"""
    lv = DEEP_LEVELS[shape]
    opens, closes = [], []
    for i in range(depth):
        o, c = rng.choice(lv) if shape == "mix" else lv[i % len(lv)]
        opens.append(o)
        closes.append(c)
    closes.reverse()
    return "".join(opens) + leaf + "".join(closes)


def deep_built(depth, shape, leaf_doc, leaf_src):
    """(statements, compact text) of a value wrapped `depth` times by a loop: [v], {k: v} or the two in turn (innermost = array)"""
    if shape == "arr":
        wrap = "v = [v]"
    elif shape == "obj":
        wrap = "v = {k: v}"
    else:
        wrap = "if (i % 2 == 0) { v = [v] } else { v = {k: v} }"
    stmts = "v = %s\n for (i = 0; i < %d; i++) {\n  %s\n }" % (leaf_src, depth, wrap)
    opens, closes = [], []
    for lvl in range(depth):                # lvl counts from the outside; the wrap applied at iteration i sits at level depth-1-i
        i = depth - 1 - lvl
        arr = shape == "arr" or (shape == "alt" and i % 2 == 0)
        opens.append("[" if arr else '{"k":')
        closes.append("]" if arr else "}")
    closes.reverse()
    return stmts, "".join(opens) + leaf_doc + "".join(closes)


def strip_indent(data):
    return bytes(data).translate(None, b" \n")


def deep_diff(data, want, what):
    """the indentation taken out, the output must be the canonical text"""
    got = strip_indent(data)
    want = want.encode()
    if got == want:
        return None
    n = min(len(got), len(want))
    k = next((i for i in range(n) if got[i] != want[i]), n)
    return "%s differs from the value: %d bytes of JSON expected, %d written, first difference at byte %d (%r vs %r)" % (
        what, len(want), len(got), k, got[k:k + 20], want[k:k + 20])


# ---------------------------------------------------------------- arrays that share storage but differ in length
# b = a; b.pop() leaves two arrays over one storage, of different lengths (popfirst: different starts).  Whatever such a
# program has built, json(v) and -o must describe the value v HAS at that moment -- the one print shows at the same moment --
# each occurrence with its own length.  No reference for the value is needed (and none is used: what push through a second
# reference does to the first one is the subject of C09's known finding): print and json() / -o are compared with each other.
SH_ELEMS = ["1", "2", "3", "4", "5", "6", "7", "'s'", "'t'", "true", "null", "2.5", "-1"]
SH_VALUES = ["[@b, @a]", "[@a, @b]", "{q: @a, rest: @b}", "{rest: @b, q: @a}", "[@a, @b, @c]", "[@c, @b, @a]", "[[@a], {k: @b}, @c]", "{x: [@a, @b], y: @c}",
             "[@b, @b, @a]", "[@a, @a, @b]", "{a: @a, b: @b, c: @c}", "[@b, [@c, [@a]]]", "[{k: @a}, {k: @b}]", "[@a, 0, @b, 's', @c]", "@a", "@b", "[@c]",
             "{k: {k: @a, j: @b}}", "[@a, @b, @a, @b]"]


def gen_shared(rng):
    """(statements, names) : 1-2 base arrays, 1-3 further references to them (variables, object members, array elements),
    then 1-5 length-changing (and a few other) operations through any of the references"""
    stmts = []
    n0 = rng.randint(2, 6)
    stmts.append("a = [%s]" % ", ".join(rng.choice(SH_ELEMS) for _ in range(n0)))
    refs = ["a"]
    how = rng.randrange(6)
    if how == 0:
        stmts += ["b = a", "c = a"]
        refs += ["b", "c"]
    elif how == 1:
        stmts += ["b = a", "c = b"]
        refs += ["b", "c"]
    elif how == 2:
        stmts += ["o = {q: a}", "o.rest = o.q", "b = o.rest"]
        refs += ["o.q", "o.rest", "b"]
    elif how == 3:
        stmts += ["h = [a, a]", "b = h[0]"]
        refs += ["h[0]", "h[1]", "b"]
    elif how == 4:
        stmts += ["b = a", "c = [%s]" % ", ".join(rng.choice(SH_ELEMS) for _ in range(rng.randint(1, 4))), "d = c"]
        refs += ["b", "c", "d"]
    else:
        stmts += ["b = a"]
        refs += ["b"]
    nops = rng.randint(1, 5)
    shrunk = False
    for i in range(nops):
        r = rng.choice(refs[1:] if (i == 0 and len(refs) > 1) else refs)
        k = rng.random()
        if k < 0.4 or (i == nops - 1 and not shrunk):
            stmts.append("%s.pop()" % r)
            shrunk = True
        elif k < 0.7:
            stmts.append("%s.popfirst()" % r)
            shrunk = True
        elif k < 0.85:
            stmts.append("%s.push(%s)" % (r, rng.choice(SH_ELEMS)))
        elif k < 0.93:
            stmts.append("%s[0] = %s" % (r, rng.choice(SH_ELEMS)))
        else:
            stmts.append("e%d = %s" % (i, r))
            refs.append("e%d" % i)
    return stmts, refs

# ---------------------------------------------------------------- the check

class C04(Check):
    pid = "C04"
    props = ["C04_json.v", "C04_roundtrip.v"]
    rule = ("random JSON documents generated as text (0-200 nodes, nesting 0-9, [] and {} forced at every depth, strings over ASCII / "
            "every escape form / multi-byte / control characters / <>& / U+2028 / unpaired surrogate escapes, numbers by random bit "
            "pattern and by a list of boundary spellings) through the identity program (json field = what -o writes), through -r "
            "selectors of sub-documents, through print json($) for the whole document and per element; values built by programs "
            "(auto-created containers, shared and cyclic structures of 1-4 containers, functions, non-finite numbers, regexes); "
            "acyclic nesting of every depth up to the decoder's limit of 10000 (arrays, objects, alternating, mixed with siblings, "
            "every leaf kind; read from a document or wrapped by a loop; depths to 72 against the model, the rest on the binary); "
            "arrays that share storage but differ in length (b = a; b.pop() / popfirst() / push through variables, object members, array "
            "elements and members of the input document; 1-5 operations), combined into arrays and objects: json(v) and the -o payload "
            "(library and binary) must equal what print shows for the same value at the same moment; "
            "oracle: Python's strict parser reads the output and the value equals what it reads from the input (doubles bit for "
            "bit); cyclic/inexpressible => error outcome.  non-trivial = the value contains a container")

    # ---- generation
    def generate(self, rng, tier):
        self.cases = []
        n_docs = 400 if tier == "quick" else 10000
        for i in range(n_docs):
            if i < 24:
                doc, cont = nest_empty(rng, i % 8), 1
            else:
                doc, cont = rand_doc(rng, lone=(i % 9 == 0))
            try:
                val = loads(doc)
            except BadJson:
                continue
            self.doc_cases(rng, "d%d" % i, doc, val, cont > 0)
        for t in ["[]", "{}", "[[]]", "{\"a\":[]}", "[{}]", "0", "-0", "\"\"", "null", "[[],[]]", "{\"a\":{},\"b\":[]}",
                  "[1,[],2]", "[null]", "{\"\":[]}", " [ ] ", "[[[[[[[[[[[[]]]]]]]]]]]]", "{\"a\":{\"a\":{\"a\":{\"a\":{}}}}}"]:
            self.doc_cases(rng, "f%d" % len(self.cases), t, loads(t), True, all_forms=True)
        # nesting well beyond what the random documents reach, still small enough for the model (its cost grows fast with depth)
        depths = [rng.randint(10, 24), rng.randint(25, 48), rng.randint(49, 72)] if tier == "quick" else list(range(10, 73, 2))
        for d in depths:
            for shape in (["arr", "obj", "alt", "mix"] if tier != "quick" else rng.sample(["arr", "obj", "alt", "mix"], 2)):
                self.deep_cases(rng, "n%d%s" % (d, shape), d, shape)
        n_prog = 300 if tier == "quick" else 6000
        for i in range(n_prog):
            self.prog_cases(rng, "p%d" % i, i)
        for i in range(500 if tier == "quick" else 8000):
            self.shared_cases(rng, "h%d" % i, i)
        return self.cases

    def add(self, cid, prog, inputs, selectors, meta, nontrivial, tags=()):
        meta = dict(meta, prog=prog, inputs=inputs, selectors=list(selectors))
        self.cases.append(Case(cid, simple_run(cid, prog, inputs, selectors), meta, nontrivial, tags))

    def doc_cases(self, rng, cid, doc, val, nontrivial, all_forms=False):
        forms = ["identity", "select", "printjson", "elements"]
        if not all_forms:
            forms = ["identity"] + rng.sample(forms[1:], 1)
        for form in forms:
            if form == "identity":
                prog = rng.choice(["{}", "{}", "{ }", "{ x = $ }", "BEGIN { x = 1 } {}", "", "0 { print }"])
                self.add(cid + "i", prog, [doc], (), {"form": "root", "doc": doc, "path": []}, nontrivial)
            elif form == "select":
                paths = simple_paths(val)
                path = rng.choice(paths)
                if len(paths) > 1 and rng.random() < 0.8:
                    path = rng.choice(paths[1:])
                sel = selector_text(rng, path)
                self.add(cid + "s", "{}", [doc], (sel,), {"form": "root", "doc": doc, "path": list(path)}, nontrivial)
            elif form == "printjson":
                prog = "BEGINFILE { print json($) }"
                self.add(cid + "j", prog, [doc], (), {"form": "stdout", "doc": doc, "path": []}, nontrivial)
            elif form == "elements":
                self.add(cid + "e", "{ print json($) }", [doc], (), {"form": "elements", "doc": doc}, nontrivial)

    def deep_cases(self, rng, cid, d, shape):
        leaf_doc, leaf_src = rng.choice(DEEP_LEAVES)
        doc = deep_text(rng, d, shape, leaf_doc)
        self.add(cid + "i", "{}", [doc], (), {"form": "deeproot", "depth": d, "shape": shape, "expect_compact": doc}, True, ("deep",))
        self.add(cid + "j", "BEGINFILE { print json($) }", [doc], (), {"form": "deepstdout", "depth": d, "shape": shape,
                                                                      "expect_compact": doc}, True, ("deep",))
        if shape != "mix":
            stmts, text = deep_built(d, shape, leaf_doc, leaf_src)
            self.add(cid + "b", "{ %s\n $ = v }" % stmts, ["0"], (), {"form": "deeproot", "depth": d, "shape": shape,
                                                                     "expect_compact": text}, True, ("deep",))
            self.add(cid + "c", "BEGIN { %s\n print json(v) }" % stmts, [], (), {"form": "deepstdout", "depth": d, "shape": shape,
                                                                                "expect_compact": text}, True, ("deep",))

    def prog_cases(self, rng, cid, i):
        kind = i % 5
        if kind == 0:
            b = gen_built(rng)
            if b is None:
                return
            stmts, env = b
            var = rng.choice(sorted(env))
            exp = unfold(env[var])
            body = "\n ".join(stmts)
            if rng.random() < 0.5:
                prog = "BEGIN { %s\n print 'A'\n print json(%s)\n print 'Z' }" % (body, var)
                self.add(cid, prog, [], (), {"form": "json()", "expect": json.dumps(exp)}, True)
            else:
                prog = "{ %s\n $ = %s }" % (body, var)
                self.add(cid, prog, ["0"], (), {"form": "rootval", "expect": json.dumps(exp)}, True)
        elif kind in (1, 2):
            close = kind == 1
            stmts, objs = gen_linked(rng, close)
            var = rng.choice(sorted(objs))
            expr, pyv = var, objs[var]
            w = rng.random()
            if w < 0.25:
                expr, pyv = "[1, %s]" % var, [1.0, objs[var]]
            elif w < 0.5:
                expr, pyv = "{a: [%s], b: 2}" % var, {"a": [objs[var]], "b": 2.0}
            elif w < 0.6:
                expr, pyv = "[%s, %s]" % (var, var), [objs[var], objs[var]]
            elif w < 0.7:
                expr, pyv = "{a: %s, b: %s}" % (var, var), {"a": objs[var], "b": objs[var]}
            elif w < 0.75:
                expr, pyv = "{a: %s, b: [%s]}" % (var, var), {"a": objs[var], "b": [objs[var]]}
            body = "\n ".join(stmts)
            cyc = cyclic(pyv)
            exp = None if cyc else json.dumps(unfold(pyv))
            tags = ("cyclic",) if cyc else ()
            if rng.random() < 0.6:
                prog = "BEGIN { %s\n print 'A'\n print json(%s)\n print 'Z' }" % (body, expr)
                self.add(cid, prog, [], (), {"form": "json()", "expect": exp}, True, tags)
            else:
                prog = "{ %s\n $ = %s }" % (body, expr)
                self.add(cid, prog, [rng.choice(["0", "{}", "\"s\""])], (), {"form": "rootval", "expect": exp}, True, tags)
        elif kind == 3:
            e = rng.choice(INEXPRESSIBLE)
            if rng.random() < 0.3 and not e.startswith(("printf", "json", "num", "fn", "[1].l", "'a'.u", "{k: 1}.p", "(5).f")):
                e = rng.choice(["[0, %s]", "{a: {b: %s}}", "[[%s]]"]) % e
            if rng.random() < 0.7:
                prog = "function fn(x) { return x }\nBEGIN { print 'A'\n print json(%s)\n print 'Z' }" % e
                self.add(cid, prog, [], (), {"form": "json()", "expect": None}, False, ("inexpressible",))
            elif not e.startswith(("printf", "json", "num", "fn", "[1].l", "'a'.u", "{k: 1}.p", "(5).f")):
                # functions cannot be stored at all (the store itself is the error); other values reach the root
                prog = "{ $ = %s }" % e
                self.add(cid, prog, ["0"], (), {"form": "rootval", "expect": None}, False, ("inexpressible",))
        else:
            e, exp = rng.choice(EXPRESSIBLE)
            if rng.random() < 0.6:
                prog = "BEGIN { print 'A'\n print json(%s)\n print 'Z' }" % e
                self.add(cid, prog, [], (), {"form": "json()", "expect": json.dumps(exp)}, isinstance(exp, (list, dict)))
            else:
                prog = "{ $ = %s }" % e
                self.add(cid, prog, ["0"], (), {"form": "rootval", "expect": json.dumps(exp)}, isinstance(exp, (list, dict)))

    def shared_cases(self, rng, cid, i):
        stmts, refs = gen_shared(rng)
        expr = rng.choice(SH_VALUES)
        pick = {"@a": refs[0]}
        others = refs[1:] or refs
        pick["@b"] = rng.choice(others)
        pick["@c"] = rng.choice(refs)
        for k, v in pick.items():
            expr = expr.replace(k, v)
        body = "\n ".join(stmts)
        form = i % 4
        if form in (0, 1):
            prog = "BEGIN { %s\n v = %s\n print v\n print \"==\"\n print json(v) }" % (body, expr)
            if form == 1:
                prog = "BEGIN { %s\n print %s\n print \"==\"\n print json(%s) }" % (body, expr, expr)
            self.add(cid, prog, [], (), {"form": "print=json"}, True, ("shared",))
        elif form == 2:
            prog = "{ %s\n $ = %s\n print $ }" % (body, expr)
            self.add(cid, prog, [rng.choice(["0", "{}", "\"s\""])], (), {"form": "print=root"}, True, ("shared",))
        else:
            # the same on a document: a member of the root becomes a second, shorter reference to another member
            n = rng.randint(2, 6)
            doc = '{"q": [%s], "n": %d}' % (", ".join(rng.choice(["1", "2", "3", '"s"', "null", "true", "2.5", "[]"]) for _ in range(n)), n)
            ops = ["$.rest = $.q"]
            for _ in range(rng.randint(1, 3)):
                ops.append(rng.choice(["$.rest.popfirst()", "$.rest.pop()", "$.rest.pop()", "$.q.pop()", "$.q.popfirst()", "$.more = $.rest",
                                       "$.l = [$.q, $.rest]", "$.rest.push(9)"]))
            if not any("pop" in o for o in ops):
                ops.append("$.rest.popfirst()")
            prog = "{ %s\n print $ }" % "\n ".join(ops)
            self.add(cid, prog, [doc], (), {"form": "print=root"}, True, ("shared",))

    # ---- oracle
    def oracle(self, case, impl):
        m = case.meta
        form = m.get("form")
        if form is None:
            return None
        if form in ("print=json", "print=root"):
            if impl.outcome in ("timeout",):
                return "the run did not finish"
            if impl.outcome != "ok":
                return "outcome %s for a program that only builds, shortens and prints arrays" % impl.outcome
            if form == "print=json":
                shown, sep, text = impl.stdout.partition(b"\n==\n")
                if not sep:
                    return "unexpected output frame %r" % impl.stdout[:80]
                what = "json(v)"
            else:
                shown, text, what = impl.stdout, None, "-o payload"
                if impl.json in ("!", "P", "~", "?"):
                    return "-o payload: no JSON produced (%s)" % impl.json
                text = unhx(impl.json)
            try:
                want = loads(shown)
            except BadJson as e:
                return None         # what print shows is not JSON text (not the subject here)
            try:
                got = loads(text)
            except BadJson as e:
                return "%s is not valid JSON: %s" % (what, e)
            if not same(got, want):
                return "%s differs from the value print shows at the same moment (%s): %s" % (
                    what, shown.decode("utf-8", "replace").strip()[:120], first_diff(got, want))
            return None
        if impl.outcome in ("timeout",):
            return "the run did not finish (JSON conversion must terminate)"
        if impl.outcome in ("panic", "crash", "raw", "noresult"):
            return "outcome %s" % impl.outcome
        if form in ("deeproot", "deepstdout"):
            if impl.outcome != "ok":
                return "a value nested %d deep (acyclic) was refused: outcome %s" % (m["depth"], impl.outcome)
            if form == "deeproot":
                if impl.json in ("!", "P", "~", "?"):
                    return "-o payload: no JSON produced (%s) for a value nested %d deep" % (impl.json, m["depth"])
                return deep_diff(unhx(impl.json), m["expect_compact"], "-o payload")
            return deep_diff(impl.stdout, m["expect_compact"], "json(v)")
        if form in ("root", "stdout", "elements"):
            want = at_path(loads(m["doc"]), m.get("path", []))
            if impl.outcome != "ok":
                return "well-formed document rejected: outcome %s" % impl.outcome
            if form == "root":
                return self.cmp_text(impl.json, want, "-o payload")
            if form == "stdout":
                return self.cmp_bytes(impl.stdout, want, "json($)")
            if form == "elements":
                wants = want if isinstance(want, list) else [want]
                try:
                    got = loads_stream(impl.stdout)
                except BadJson as e:
                    return "json($) printed invalid JSON: %s" % e
                if len(got) != len(wants) or not all(same(g, w) for g, w in zip(got, wants)):
                    return "json($) per element differs from the elements of the input"
                return None
        exp = m.get("expect")
        if form == "json()":
            if exp is None:
                if impl.outcome != "runtime" or impl.stdout != b"A\n":
                    return "json() of a cyclic / inexpressible value must be a runtime error with no output; got %s %r" % (
                        impl.outcome, impl.stdout[:60])
                return None
            if impl.outcome != "ok":
                return "json() of an expressible value failed: %s" % impl.outcome
            if not (impl.stdout.startswith(b"A\n") and impl.stdout.endswith(b"\nZ\n")):
                return "unexpected output frame %r" % impl.stdout[:60]
            return self.cmp_bytes(impl.stdout[2:-2], json.loads(exp), "json(v)")
        if form == "rootval":
            if exp is None:
                if impl.outcome == "runtime" or (impl.outcome == "ok" and impl.json == "!"):
                    return None
                return "a cyclic / inexpressible root must be refused; got %s json=%s" % (impl.outcome, impl.json[:40])
            if impl.outcome != "ok":
                return "run failed: %s" % impl.outcome
            return self.cmp_text(impl.json, json.loads(exp), "-o payload")
        return None

    def cmp_text(self, field, want, what):
        if field in ("!", "P", "~", "?"):
            return "%s: no JSON produced (%s)" % (what, field)
        return self.cmp_bytes(unhx(field), want, what)

    def cmp_bytes(self, data, want, what):
        try:
            got = loads(data)
        except BadJson as e:
            return "%s is not valid JSON: %s" % (what, e)
        if not same(got, want):
            return "%s parses to a different value: %s" % (what, first_diff(got, want))
        return None

    # ---- the real binary
    def extra(self, ctx):
        rng, tier = ctx["rng"], ctx["tier"]
        cands = [c for c in ctx["cases"] if c.meta.get("form") in ("root", "rootval") and c.line]
        rng.shuffle(cands)
        cands = cands[:60 if tier == "quick" else 400]
        viol, n = [], 0
        d = tempfile.mkdtemp(prefix="c04-", dir=BUILD)
        try:
            for c in cands:
                m = c.meta
                for mode in ("dash", "file"):
                    n += 1
                    inp = os.path.join(d, "in.json")
                    with open(inp, "wb") as f:
                        f.write(m["inputs"][0].encode("utf-8", "surrogateescape"))
                    outp = os.path.join(d, "out.json")
                    if os.path.exists(outp):
                        os.remove(outp)
                    args = [JQAWK]
                    for s in m["selectors"]:
                        args += ["-r", s]
                    args += ["-o", "-" if mode == "dash" else outp, "-f", os.path.join(d, "prog"), inp]
                    with open(os.path.join(d, "prog"), "w") as f:
                        f.write(m["prog"])
                    try:
                        p = subprocess.run(args, stdin=subprocess.DEVNULL, stdout=subprocess.PIPE, stderr=subprocess.PIPE, timeout=20)
                    except subprocess.TimeoutExpired:
                        viol.append((Case(c.id + mode, None, dict(m, mode=mode)), "binary did not finish within 20 s"))
                        continue
                    why = self.judge_binary(m, mode, p, outp)
                    if why:
                        viol.append((Case(c.id + mode, None, dict(m, mode=mode, argv=args[1:])), "binary: " + why))
            ndeep = self.deep_binary(rng, tier, d, viol)
            nshared = self.shared_binary(tier, d, viol, ctx["cases"])
        finally:
            shutil.rmtree(d, ignore_errors=True)
        return viol, {"binary_runs": n, "deep_binary_runs": ndeep, "shared_storage_binary_runs": nshared}

    def shared_binary(self, tier, d, viol, cases):
        """arrays sharing storage with different lengths at the root: -o FILE of the binary against what the program printed"""
        cands = [c for c in cases if c.meta.get("form") == "print=root"]
        cands = cands[:40 if tier == "quick" else 400]
        for c in cands:
            m = c.meta
            inp, outp, progp = os.path.join(d, "sh.json"), os.path.join(d, "sh.out"), os.path.join(d, "sh.prog")
            with open(inp, "w") as f:
                f.write(m["inputs"][0])
            with open(progp, "w") as f:
                f.write(m["prog"])
            if os.path.exists(outp):
                os.remove(outp)
            args = [JQAWK, "-o", outp, "-f", progp, inp]
            try:
                p = subprocess.run(args, stdin=subprocess.DEVNULL, stdout=subprocess.PIPE, stderr=subprocess.PIPE, timeout=20)
            except subprocess.TimeoutExpired:
                continue
            why = None
            if b"goroutine " in p.stderr or b"panic:" in p.stderr:
                why = "crash trace on stderr"
            elif p.returncode != 0:
                why = "exit status %d: %r" % (p.returncode, p.stderr[:80])
            elif not os.path.exists(outp):
                why = "-o FILE not written"
            else:
                try:
                    want = loads(p.stdout)
                except BadJson:
                    continue
                try:
                    got = loads(open(outp, "rb").read())
                    if not same(got, want):
                        why = "-o FILE differs from the value print shows at the same moment (%s): %s" % (
                            p.stdout.decode("utf-8", "replace").strip()[:120], first_diff(got, want))
                except BadJson as e:
                    why = "-o FILE is not valid JSON: %s" % e
            if why:
                viol.append((Case(c.id + "file", None, dict(m, mode="file", argv=args[1:])), "binary: " + why))
        return len(cands)

    def deep_binary(self, rng, tier, d, viol):
        """documents and program-built values nested up to the decoder's limit, through the real binary: -o FILE of the
        untouched document, print json($), and the same for a value wrapped by a loop.  The output of a value nested n deep
        is about 2n^2 bytes of indentation, so it goes to a file and is compared with the indentation taken out."""
        lim = DECODER_LIMIT
        if tier == "quick":
            depths = [rng.randint(73, 400), rng.randint(400, 2000), rng.randint(2000, 4000), rng.randint(4000, 4200),
                      rng.randint(4200, 7000), rng.randint(7000, lim - 1), lim]
        else:
            depths = sorted(set([100, 255, 256, 257, 1000, 1023, 1024, 1025, 2047, 2048, 2049, 4094, 4095, 4096, 4097, 4098, 4099, 5000,
                                 8191, 8192, 8193, lim - 2, lim - 1, lim] + [rng.randint(73, lim) for _ in range(12)]))
        runs = []
        for k, depth in enumerate(depths):
            shape = rng.choice(["arr", "obj", "alt", "mix"])
            leaf_doc, leaf_src = rng.choice(DEEP_LEAVES)
            forms = ["doc-o", "doc-json"] if tier != "quick" else [rng.choice(["doc-o", "doc-json"])]
            for form in forms:
                runs.append((depth, shape, leaf_doc, leaf_src, form))
            if tier != "quick" or k % 2 == 0 or depth == lim:
                bshape = shape if shape != "mix" else rng.choice(["arr", "obj", "alt"])
                bforms = ["built-o", "built-json"] if tier != "quick" else [rng.choice(["built-o", "built-json"])]
                for form in bforms:
                    runs.append((depth, bshape, leaf_doc, leaf_src, form))
        n = 0
        for depth, shape, leaf_doc, leaf_src, form in runs:
            n += 1
            inp, outp, progp = os.path.join(d, "deep.json"), os.path.join(d, "deep.out"), os.path.join(d, "deep.prog")
            wraps = depth - 1 if leaf_doc in ("[]", "{}") else depth       # an empty container at the bottom is a level itself
            if form.startswith("doc"):
                text = deep_text(rng, wraps, shape, leaf_doc)
                doc = text
                prog = "{}" if form == "doc-o" else "BEGINFILE { print json($) }"
            else:
                stmts, text = deep_built(wraps, shape, leaf_doc, leaf_src)
                doc = "0"
                prog = "{ %s\n $ = v }" % stmts if form == "built-o" else "BEGINFILE { %s\n print json(v) }" % stmts
            with open(inp, "w") as f:
                f.write(doc)
            with open(progp, "w") as f:
                f.write(prog)
            if os.path.exists(outp):
                os.remove(outp)
            meta = {"form": "deep " + form, "depth": depth, "shape": shape, "leaf": leaf_doc, "prog": prog,
                    "input_summary": "%d bytes, %d containers around the leaf %s" % (len(doc), wraps, leaf_doc), "input": doc}
            to_file = form.endswith("-o")
            args = [JQAWK] + (["-o", outp] if to_file else []) + ["-f", progp, inp]
            meta["argv"] = args[1:]
            try:
                if to_file:
                    p = subprocess.run(args, stdin=subprocess.DEVNULL, stdout=subprocess.PIPE, stderr=subprocess.PIPE, timeout=120)
                else:
                    with open(outp, "wb") as fo:
                        p = subprocess.run(args, stdin=subprocess.DEVNULL, stdout=fo, stderr=subprocess.PIPE, timeout=120)
            except subprocess.TimeoutExpired:
                viol.append((Case("deep%d%s" % (depth, form), None, meta), "binary did not finish within 120 s on a value nested %d deep" % depth))
                continue
            why = None
            if b"goroutine " in p.stderr or b"panic:" in p.stderr:
                why = "crash trace on stderr"
            elif p.returncode != 0:
                why = "an acyclic value nested %d deep (the decoder reads %d) was refused: exit status %d, %r" % (
                    depth, lim, p.returncode, p.stderr[-100:])
            elif to_file and p.stdout:
                why = "-o FILE wrote to stdout"
            elif not os.path.exists(outp):
                why = "-o FILE not written"
            else:
                with open(outp, "rb") as f:
                    data = f.read()
                why = deep_diff(data, text, "-o FILE" if to_file else "print json(v)")
                del data
            if os.path.exists(outp):
                os.remove(outp)
            if why:
                viol.append((Case("deep%d%s" % (depth, form), None, meta), "binary: " + why))
        return n

    def judge_binary(self, m, mode, p, outp):
        if b"goroutine " in p.stderr or b"panic:" in p.stderr:
            return "crash trace on stderr"
        if m["form"] == "root":
            want = at_path(loads(m["doc"]), m.get("path", []))
        elif m["expect"] is None:
            if p.returncode == 0:
                return "cyclic / inexpressible root accepted with exit status 0"
            if p.stdout.strip():
                return "output for a value that JSON cannot express: %r" % p.stdout[:60]
            return None
        else:
            want = json.loads(m["expect"])
        if p.returncode != 0:
            return "exit status %d: %r" % (p.returncode, p.stderr[:80])
        if mode == "dash":
            data = p.stdout
        else:
            if p.stdout:
                return "-o FILE wrote to stdout"
            if not os.path.exists(outp):
                return "-o FILE not written"
            data = open(outp, "rb").read()
        return self.cmp_bytes(data, want, "-o " + mode)


def first_diff(a, b, path="$"):
    if type(a) != type(b) and not (isinstance(a, (int, float)) and isinstance(b, (int, float)) and not isinstance(a, bool)
                                   and not isinstance(b, bool)):
        return "%s: %r vs %r" % (path, _short(a), _short(b))
    if isinstance(a, list):
        if len(a) != len(b):
            return "%s: length %d vs %d" % (path, len(a), len(b))
        for i, (x, y) in enumerate(zip(a, b)):
            if not same(x, y):
                return first_diff(x, y, "%s[%d]" % (path, i))
    if isinstance(a, dict):
        if a.keys() != b.keys():
            return "%s: keys %r vs %r" % (path, sorted(a)[:5], sorted(b)[:5])
        for k in a:
            if not same(a[k], b[k]):
                return first_diff(a[k], b[k], "%s.%s" % (path, k))
    return "%s: %r vs %r" % (path, _short(a), _short(b))


def _short(v):
    s = repr(v)
    return s if len(s) < 60 else s[:57] + "..."


CHECK = C04()
