"""C05: operators compute the documented result for every combination of operand kinds."""
import json, math, struct
from framework import Check, Case
from jqlib import simple_run, run_impl, hx
import pyref, opref
from opref import Regex, FUNC, NATIVE, UNSET, RuntimeErr

FUNCDEF = "function fn_user(a) { return 1 }\n"

# name, value, source text (None = opref.literal), JSON text (None = not expressible in a document)
PALETTE = [
    ("0", 0.0, None, "0"),
    ("-0", -0.0, "(-0)", "-0.0"),
    ("0.5", 0.5, None, "0.5"),
    ("-7", -7.0, None, "-7"),
    ("1", 1.0, None, "1"),
    ("3", 3.0, None, "3"),
    ("5", 5.0, None, "5"),
    ("2.5", 2.5, None, "2.5"),
    ("-2.5", -2.5, None, "-2.5"),
    ("2^53+1", 9007199254740992.0, "9007199254740993", "9007199254740993"),
    ("1e19", 1e19, None, "1e19"),
    ("1e300", 1e300, None, "1e300"),
    ("5e-324", 5e-324, None, "5e-324"),
    ("inf", math.inf, None, None),
    ("nan", math.nan, None, None),
    ("''", "", None, '""'),
    ("'0'", "0", None, '"0"'),
    ("' 1'", " 1", None, '" 1"'),
    ("'abc'", "abc", None, '"abc"'),
    ("'1e3'", "1e3", None, '"1e3"'),
    ("'10'", "10", None, '"10"'),
    ("'9'", "9", None, '"9"'),
    ("'inf'", "inf", None, '"inf"'),
    ("'-5'", "-5", None, '"-5"'),
    ("'0.5'", "0.5", None, '"0.5"'),
    ("'a'", "a", None, '"a"'),
    ("'^b$'", "^b$", None, '"^b$"'),
    ("'('", "(", None, '"("'),
    ("'é'", "é", None, '"é"'),
    ("'z'", "z", None, '"z"'),
    ("'Z'", "Z", None, '"Z"'),
    ("'+5'", "+5", None, '"+5"'),
    ("'.5'", ".5", None, '".5"'),
    ("'1e'", "1e", None, '"1e"'),
    ("'10 '", "10 ", None, '"10 "'),
    ("'Infinity'", "Infinity", None, '"Infinity"'),
    ("'NaN'", "NaN", None, '"NaN"'),
    ("'1e999'", "1e999", None, '"1e999"'),
    ("true", True, None, "true"),
    ("false", False, None, "false"),
    ("null", None, None, "null"),
    ("unset", UNSET, None, None),
    ("[]", [], None, "[]"),
    ("[1]", [1.0], None, "[1]"),
    ("{}", {}, None, "{}"),
    ("{k:1}", {"k": 1.0}, None, '{"k": 1}'),
    ("/a/", Regex("a"), None, None),
    ("/^$/", Regex("^$"), None, None),
    ("/[0-9]+/", Regex("[0-9]+"), None, None),
    ("function", FUNC, None, None),
    ("native", NATIVE, None, None),
]
IDX = {p[0]: i for i, p in enumerate(PALETTE)}
BINOPS = ["+", "-", "*", "/", "%", "==", "!=", "<", "<=", ">", ">=", "&&", "||", "~", "!~"]
UNOPS = ["!", "+", "-"]
ISNAMES = ["string", "bool", "number", "array", "object", "regex", "unknown", "function", "null", "foo", "nil", "str"]
KINDS = ["num", "str", "bool", "null", "unset", "array", "object", "regex", "function", "native"]


def by_kind():
    d = {}
    for i, p in enumerate(PALETTE):
        d.setdefault(opref.kind(p[1]), []).append(i)
    return d


def src_of(p, unset_name="ul"):
    if p[1] is UNSET:
        return unset_name
    return p[2] if p[2] is not None else opref.literal(p[1])


def assignable(p):
    return p[1] is not FUNC and p[1] is not NATIVE and p[1] is not UNSET


class Operand:
    """How one operand is supplied: lit (source text in place), var (assigned to a variable first),
    fld (a field of the input document)."""

    def __init__(self, p, mode, side):
        self.p, self.mode, self.side = p, mode, side
        if mode == "fld" and p[3] is None:
            self.mode = "var"
        if self.mode == "var" and not assignable(p):
            self.mode = "lit"       # functions and unset variables are supplied by name

    def setup(self):
        if self.mode == "var":
            return "%s = %s\n " % (self.side, src_of(self.p))
        return ""

    def text(self):
        if self.mode == "var":
            return self.side
        if self.mode == "fld":
            return "$." + self.side
        return src_of(self.p, "u" + self.side)

    def field(self):
        return (self.side, self.p[3]) if self.mode == "fld" else None


def build(stmt_fn, operands):
    """program text + input for a statement using the given operands"""
    setups = []
    for o in operands:
        if o.setup() not in setups:
            setups.append(o.setup())
    setup = "".join(setups)
    fields = []
    for o in operands:
        fields += o.fields() if isinstance(o, Place) else [o.field()] if o.field() else []
    body = setup + stmt_fn(*[o.text() for o in operands])
    pre = FUNCDEF + (PLACE_FUNCS if any(isinstance(o, Place) for o in operands) else "")
    if fields:
        doc = "{" + ", ".join('"%s": %s' % (k, v) for k, v in dict(fields).items()) + "}"
        return pre + "{ " + body + " }", [doc]
    return pre + "BEGIN { " + body + " }", []


# ---------------------------------------------------------------- nulls that come from reading a place where nothing is
PLACE_FUNCS = "function fnone() { }\nfunction fside(q) { q = 1 }\nfunction fid(q) { return q }\n"
# text, setup statement, where ("any" | "begin" = only in BEGIN, no input | "main" = needs the document), assignable (usable as ++/-- target)
PLACES = [
    ("ma[7]", "ma = [1, 2]", "any", True),              # past the end
    ("ma[2]", "ma = [1, 2]", "any", True),              # first index past the end
    ("ma[100]", "ma = [1, 2]", "any", False),
    ("ma[2.5]", "ma = [1, 2]", "any", False),
    ("mb[-2]", "mb = [5, null, 7]", "any", False),      # negative index inside the array, the element is a stored null
    ("mb[1]", "mb = [5, null, 7]", "any", False),
    ("me[0]", "me = []", "any", True),
    ("me[-0]", "me = []", "any", False),
    ("mo.nope", "mo = {k: 1}", "any", True),            # missing member
    ('mo["9"]', "mo = {k: 1}", "any", True),
    ("mo[9]", "mo = {k: 1}", "any", True),              # missing member named by a number
    ('mo["1e3"]', "mo = {k: 1}", "any", False),
    ("mo.nope.deeper", "mo = {k: 1}", "any", False),    # missing member of a missing member
    ("mo.a.b.c", "mo = {k: 1}", "any", False),
    ("mo.nope[4]", "mo = {k: 1}", "any", False),
    ("ma[7][3]", "ma = [1, 2]", "any", False),
    ("ma[7].zz", "ma = [1, 2]", "any", False),
    ("mn[6]", "mn = [[1], [2, 3]]", "any", False),
    ("mn[1][5]", "mn = [[1], [2, 3]]", "any", True),
    ("mn[9][5]", "mn = [[1], [2, 3]]", "any", False),
    ("uu.k", "", "any", True),                          # member of an unset variable
    ("uv[4]", "", "any", True),
    ("fnone()", "", "any", False),                      # function without return
    ("fside(3)", "", "any", False),
    ("fid(ma[7])", "ma = [1, 2]", "any", False),        # the missing element handed through a call
    ("fid(mo.nope)", "mo = {k: 1}", "any", False),
    ("[ma[7]][0]", "ma = [1, 2]", "any", False),        # ... through an array literal
    ("{k: ma[3]}.k", "ma = [1, 2]", "any", False),
    ("(ma[7])", "ma = [1, 2]", "any", False),
    ("mv", "ma = [1, 2]\n mv = ma[7]", "any", True),    # ... through an assignment
    ("mw", "mo = {k: 1}\n mw = mo[5]", "any", True),
    ('ms[9]', 'ms = "abc"', "any", False),              # character past the end of a string
    ("$", "", "begin", False),                          # $ in BEGIN
    ("$.x", "", "begin", False),
    ("$[3]", "", "begin", False),
    ("$.x.y", "", "begin", False),
    ("$[3][4]", "", "begin", False),
    ("$.xs[5]", "", "main", False),                     # the same on the document
    ("$.xs[2]", "", "main", False),
    ("$.xs[-2]", "", "main", False),
    ("$.missing", "", "main", False),
    ("$.missing.more", "", "main", False),
    ("$.missing[8]", "", "main", False),
    ("$.ob.zz", "", "main", False),
    ("$.ob[7]", "", "main", False),
    ('$.ob["12"]', "", "main", False),
    ("$.nul", "", "main", False),
    ("$.xs[5][6]", "", "main", False),
]
NULLP = ("null", None, None, "null")


class Place:
    """an operand that is a read of a place holding nothing: it must behave as the literal null"""
    p = NULLP

    def __init__(self, place):
        self.expr, self.stp, self.where, self.assignable = place
        self.mode = "place:" + self.expr

    def setup(self):
        return self.stp + "\n " if self.stp else ""

    def text(self):
        return self.expr

    def field(self):
        return None

    def fields(self):
        # "xs" holds a stored null at [-2] so that $.xs[-2] is in range
        return [("xs", "[null, 20]"), ("ob", '{"k": 1}'), ("nul", "null")] if self.where == "main" else []


def fmt_res(v):
    return opref.pretty(v)


def expect_binary(op, l, r):
    try:
        return ("ok", fmt_res(opref.binop(op, l, r)) + "\n")
    except RuntimeErr:
        return ("runtime", "")


# ---------------------------------------------------------------- chains: several operators in one expression
SAME_LEVEL = [["+", "-"], ["*", "/", "%"], ["==", "!=", "<", "<=", ">", ">=", "~", "!~"], ["&&", "||"]]


def tree_eval(t, vals):
    """value of an operator tree (int = operand index, (op, l, r) = application), left operand first, && || short-circuit"""
    if isinstance(t, int):
        return vals[t]
    op, lt, rt = t
    l = tree_eval(lt, vals)
    if op == "&&":
        return opref.truthy(l) and opref.truthy(tree_eval(rt, vals))
    if op == "||":
        return opref.truthy(l) or opref.truthy(tree_eval(rt, vals))
    return opref.binop(op, l, tree_eval(rt, vals))


def tree_src(t, texts, top=True):
    """every application in its own parentheses: the tree is given, nothing is left to precedence"""
    if isinstance(t, int):
        return texts[t]
    return "(" + tree_src(t[1], texts, False) + " " + t[0] + " " + tree_src(t[2], texts, False) + ")"


def left_chain(ops):
    t = 0
    for i, op in enumerate(ops):
        t = (op, t, i + 1)
    return t


def flat_src(ops, texts):
    out = texts[0]
    for op, x in zip(ops, texts[1:]):
        out += " " + op + " " + x
    return out


def tree_ops(t):
    return [] if isinstance(t, int) else tree_ops(t[1]) + [t[0]] + tree_ops(t[2])


# ---------------------------------------------------------------- ~ / !~ : one pattern per regex construct
# The reference is Go's regexp itself (regexp.Compile + MatchString through the harness oracle REGEX, which does not go through
# jqawk): m1 / m0 / bad.  Every pattern is tried on its own text taken literally, on that text inside a longer string, on
# strings the construct is meant to match and to refuse, as a regex literal, a string literal, a variable and a document field.
RX_PATTERNS = [
    # counted repetition
    "a{2}", "a{2,}", "a{1,3}", "b{1,}", "0{1}2", "a{0}", "a{0,0}b", "a{0,1}", "x{1}y", "ab{2}", "a{3}b", "^a{2}$", "^a{2,3}$", "^a{2,}$",
    "^ab{0,1}$", "a{1}", "a{10}", "a{1000}", "a{1001}", "a{2,1}", "a{,2}", "a{", "a{2", "a{2,", "{2}", "{", "}", "{}", "a{}", "{a}", "a{a}", "a{2}{3}",
    "a{2}{3}{4}", "a{2}*", "a{2}+", "a{2}?", "a{1,2}?", "a{-1}", "a{ 2}", "a{2 }", "a{2,3,4}", "a{1,1001}", "a{1001,}", "a{99999999999}",
    "a{2}b{2}", "ab{2}c", "é{2}", "x{0}", "{1}", "a{1},", "a{1,}}", "{{2}", "a}{2", "a{02}", "a{2,02}", "a{+2}", "0{1}", "1{2}", "-{2}", " {2}",
    "_{1,2}", "a{1}{", "a{1}}", "a{2}{", "}{", "a{2}a{2}", "aa{1}", "=>{2}", ":{2}", ",{2}", "<{2}>", "#{1}", "@{3}", "%{2}", "&{1,}", "~{2}", "!{2}",
    "(ab){2}", "[ab]{2}", ".{3}", "^.{0}$", "(a{2}){2}", "(a|b){2,3}c", "\\d{4}", "[0-9]{2}-[0-9]{2}", "\\{2\\}", "a\\{2\\}", "a\\{2}", "a{2\\}",
    # * + ? and their misuse
    "a*", "a+", "a?", "ab*c", "ab+c", "ab?c", "a*?", "a+?", "a??", "*", "+", "?", "*a", "+a", "?a", "a**", "a++", "a+*", "a?*", "a*+", "^*", "(*)", "(+a)",
    "a|*", "(?i)ABC", "(?i:a)B", "(?P<n>a)", "(?:a)b", "(?", "(?x", "(?<n>a)", "(?=a)", "(?!a)", "(a", "a)", "()", "(", ")", "(())", "((a)", "a(b)c", "(a)(b)",
    # classes
    "[abc]", "[^abc]", "[a-c]", "[^a-c]", "[[:alpha:]]", "[[:digit:]]+", "[[:foo:]]", "[^[:space:]]", "\\d", "\\D", "\\w+", "\\W", "\\s", "\\S", "[\\d]", "[^a]", "[]a]",
    "[]", "[a", "a]", "[z-a]", "[a-]", "[-a]", "[a-a]", "[^]", "[^", "[.]", "[*]", "[{]", "[}]", "[a{2}]", "[\\]]", "[\\\\]", "[é]", "[^é]", "\\pL", "\\p{Greek}", "\\PL",
    "\\p{Foo}", "\\pX",
    # anchors and boundaries
    "^a", "a$", "^$", "^abc$", "^", "$", "$a", "a^", "^^a", "a$$", "\\bfoo\\b", "\\Bfoo", "foo\\B", "\\Aab", "ab\\z", "\\Z", "(?m)^b$", "(?s)a.b", "a.b", "^.$", "^..$",
    # alternation
    "a|b", "(a|b)c", "|", "a|", "|a", "a||b", "(|a)", "^(a|ab)$", "^a|b$", "abc|abd", "a|b|c|d", "x|{2}", "a{2}|b{2}",
    # escapes
    "\\.", "\\\\", "\\+", "\\*", "\\?", "\\(", "\\)", "\\[", "\\]", "\\{", "\\}", "\\|", "\\^", "\\$", "\\q", "\\a", "\\f", "\\t", "\\n", "\\r", "\\v", "\\e", "\\1", "\\0",
    "\\x41", "\\x{41}", "\\x{1F600}", "\\x4", "\\x{", "\\101", "\\Q.+\\E", "\\Qa{2}\\E", "\\Q", "\\E", "\\", "a\\", "\\/", "\\-", "\\_", "\\ ", "\\é", "\\C",
    # no metacharacter at all, and plain text next to one
    "abc", "", " ", "a b", "é", "2024", "0", "-", "_", "a,b", "a-b", "a=b", "a:b", "a;b", "a<b", "a>b", "a!b", "a@b", "a#b", "a%b", "a&b", "a~b", "a`b",
    "a.c", "a+c", "1+1", "a*c", "a?c", "a(c", "a)c", "a[c", "a]c", "a{c", "a}c", "a|c", "a^c", "a$c", "a\\c",
]
RX_SUBJECTS = ["", "a", "aa", "aaa", "aaaa", "b", "bb", "ab", "abb", "abbc", "abab", "aabb", "abc", "abd", "ABC", "aB", "ac", "abcabc", "012", "02", "2024",
               "12-34", "x", "xy", "foo", "a foo b", "foobar", ".", "..", "a.c", "a+c", "a+", "\\", "(", ")", "[", "]", "{", "}", "{2}", "a{2}", "a{", "a,2",
               "|", "^", "$", "*", "+", "?", " ", "  ", "\n", "a\nb", "b\n", "\t", "é", "éé", "日本", "A", "_", "-", "--", "0", "11", "a1", "1+1", "Ω", "a{2}{3}",
               "a" * 10, "a" * 1000, "=>=>", "::", "<<>", "!!", "~~", "x{1}y", "0{1}2", "b{1,}"]
RX_NUM_SUBJECTS = [(2024.0, "2024"), (11.0, "11"), (0.5, "0.5"), (-7.0, "-7"), (100.0, "100"), (0.0, "0")]


def rx_string_literal(s, q):
    """source text of a string literal with content s (only \\\\ \\n \\t are escapes; the first quote ends the literal), or None"""
    if q in s or "\r" in s:
        return None
    return q + s.replace("\\", "\\\\").replace("\n", "\\n").replace("\t", "\\t") + q


def rx_oracle(pairs):
    """{(pattern, subject): 'm1' | 'm0' | 'bad'} from Go's regexp through the harness"""
    pairs = sorted(set(pairs))
    lines = ["REGEX x%d %s %s" % (i, hx(p), hx(t)) for i, (p, t) in enumerate(pairs)]
    res = run_impl(lines)
    out = {}
    for i, pt in enumerate(pairs):
        f = res.get("x%d" % i, [])
        if f and f[0] in ("m1", "m0", "bad"):
            out[pt] = f[0]
    return out


# ---- the right operand writes the very location the left operand names: the left operand is READ when the operation is
# applied, after the right operand has been evaluated (documented order: left, right, operation). No Python expectation:
# the proved model decides (binary_left_then_right), a disagreement is the failing input.
SELF_INIT = ["1", "2.5", "\"a\"", "\"10\"", "null", "true", "[1]", "u_n_s_e_t"]
SELF_RHS = ["x++", "++x", "x--", "(x = 5)", "(x = \"b\")", "(x += 2)", "(x = null)", "bump()", "(x = [2])"]
SELF_OPS = ["+", "-", "*", "/", "%", "==", "!=", "<", "<=", ">", ">=", "~", "!~", "&&", "||"]


def self_write_cases():
    out = []
    for init in SELF_INIT:
        for rhs in SELF_RHS:
            for op in SELF_OPS:
                pre = "function bump() { x = 10\n return 1 }\n"
                setx = "" if init == "u_n_s_e_t" else "x = %s\n " % init
                out.append((pre + "BEGIN { %sprint (x %s %s)\n print x }" % (setx, op, rhs), [], {"op": op, "l": "x=" + init, "r": rhs}))
                out.append((pre + "{ x = $.v\n print (x %s %s), x\n print ($.v %s ($.v = 7)), $.v }" % (op, rhs, op),
                            ['{"v": %s}' % (init if init != "u_n_s_e_t" else "0")], {"op": op, "l": "x=$.v=" + init, "r": rhs}))
    return out


class C05(Check):
    pid = "C05"
    props = ["C05_operators.v", "C05_late_read.v"]
    rule = ("one operator per program: every unary/binary operator, `is`, ++/--, short-circuit probes with a side-effecting or "
            "failing right operand, over a palette of 41 representative values of all 10 kinds (zero, -0, fractions, 2^53+1, "
            "1e19, 1e300, 5e-324, inf, nan, numeric/non-numeric/empty/blank strings, booleans, null, unset, containers, regexes, "
            "user and native functions) supplied as literals, variables, document fields and as the same cell twice, plus random "
            "doubles by bit pattern; thorough = the full product, quick = every operator x every pair of kinds + the whole numeric "
            "grid of / and %; chains of 3-8 operands: a + b + c over every triple of kinds (flat and with the grouping written out), "
            "longer + chains with the first string at every position, flat chains of one operator and of operators of one "
            "precedence level for every operator, random fully parenthesised trees of 3-6 operands over all operators, each "
            "application judged by the table on the values its operands actually have; "
            "nulls that are READ from a place where nothing is (48 places: array element past the end, negative in range, missing "
            "member incl. numeric keys, missing member of a missing member, member of an unset variable, function without return, "
            "string index past the end, $ and its members in BEGIN, missing document fields; directly and handed through calls, "
            "literals, assignments) in both operand positions of every binary operator against every kind, under unary operators, is, "
            "&& ||, ++ -- and compound assignment, and at every position of chains: judged as the literal null; "
            "~ and !~ with 285 patterns, one per regex construct (counted repetition {n} {n,} {n,m} in valid, literal and invalid spellings, "
            "* + ? and their misuse, groups and flags, classes, anchors, alternation, escapes, plain text with every punctuation character) "
            "on the pattern's own text, that text inside a longer string, the repetition spelled out, and drawn subjects; pattern as regex "
            "literal, string literal, variable, document field and as a rule pattern over records; reference = Go's regexp through the harness oracle; "
            "non-trivial = an operand is not a small positive integer literal")

    # ------------------------------------------------------------------ generation
    def generate(self, rng, tier):
        self.cases = []
        self.n = 0
        thorough = tier == "thorough"
        P = PALETTE
        kinds = by_kind()
        modes = ["lit", "var", "fld"]

        # binary operators
        if thorough:
            for op in BINOPS:
                for l in P:
                    for r in P:
                        for m in modes:
                            self.binary(op, l, r, m, m)
                        self.binary(op, l, r, rng.choice(modes), rng.choice(modes))
        else:
            for op in BINOPS:
                for kl in KINDS:
                    for kr in KINDS:
                        for _ in range(2):
                            l, r = P[rng.choice(kinds[kl])], P[rng.choice(kinds[kr])]
                            self.binary(op, l, r, rng.choice(modes), rng.choice(modes))
            nums = kinds["num"]
            for op in ("/", "%"):
                for i in nums:
                    for j in nums:
                        self.binary(op, P[i], P[j], rng.choice(modes), rng.choice(modes))
            for op in ("<", "<=", "==", "+", "~"):
                for i in kinds["str"]:
                    for j in kinds["str"] + kinds["num"][:4]:
                        self.binary(op, P[i], P[j], rng.choice(modes), rng.choice(modes))
        # the same cell on both sides
        for op in BINOPS:
            for p in P:
                for m in ("var", "fld"):
                    if thorough or op in ("~", "!~", "==", "<", "-", "/") or rng.random() < 0.3:
                        self.same(op, p, m)
        # unary, is, ++/--, logic with effects
        for p in P:
            for m in modes:
                for op in UNOPS:
                    self.unary(op, p, m)
                for name in (ISNAMES if thorough else rng.sample(ISNAMES, 5)):
                    self.is_(p, name, m)
                for form in ("x++", "x--", "++x", "--x"):
                    self.incdec(form, p, m)
                for op in ("&&", "||"):
                    for rhs in ("(x = 1)", "(x = 0)", '(x = "")', "(1 / 0)", "(x = [])"):
                        self.logic(op, p, rhs, m)
        # one operator NODE evaluated several times on different operands (through a function and through a loop over arrays):
        # the result depends on the current operands only
        passable = [p for p in P if assignable(p)]
        nrep = 4000 if thorough else 450
        for i in range(nrep):
            op = BINOPS[i % len(BINOPS)]
            n = rng.randint(2, 5)
            if op in ("~", "!~"):
                rs = [rng.choice([p for p in passable if opref.kind(p[1]) in ("regex", "str")]) for _ in range(n)]
                if rng.random() < 0.5:
                    rs = [rng.choice([p for p in passable if opref.kind(p[1]) == "regex"]) for _ in range(n)]
                ls = [rng.choice([p for p in passable if opref.kind(p[1]) in ("str", "num")]) for _ in range(n)]
            else:
                ls = [rng.choice(passable) for _ in range(n)]
                rs = [rng.choice(passable) for _ in range(n)]
            self.repeated(op, ls, rs, rng.choice(["func", "loop", "records"]))
        self.chains(rng, thorough, kinds)
        self.places(rng, thorough, kinds)
        # random doubles by bit pattern
        nrand = 30000 if thorough else 500
        for _ in range(nrand):
            a, b = self.rand_double(rng), self.rand_double(rng)
            op = rng.choice(BINOPS[:11])
            pa = (repr(a), a, None, json.dumps(a))
            pb = (repr(b), b, None, json.dumps(b))
            self.binary(op, pa, pb, rng.choice(modes), rng.choice(modes))
        for _ in range(nrand // 5):
            a = self.rand_double(rng)
            pa = (repr(a), a, None, json.dumps(a))
            self.unary(rng.choice(UNOPS), pa, rng.choice(modes))
            self.incdec(rng.choice(["x++", "x--", "++x", "--x"]), pa, rng.choice(modes))
        self.regexes(rng, thorough)
        for prog, inp, meta in self_write_cases():
            cid = "w%d" % self.n
            self.n += 1
            self.cases.append(Case(cid, simple_run(cid, prog, inp), dict(meta, prog=prog, input=inp[0] if inp else "", modes="self-write"),
                                   True, ("self-write",)))
        return self.cases

    def rand_double(self, rng):
        k = rng.random()
        if k < 0.5:
            while True:
                x = struct.unpack("<d", struct.pack("<Q", rng.getrandbits(64)))[0]
                if x == x and not math.isinf(x):
                    return x
        if k < 0.7:
            return float(rng.randint(-20, 20))
        if k < 0.85:
            return rng.randint(-2000, 2000) / 8.0
        return rng.choice([2.0 ** 63, -2.0 ** 63, 2.0 ** 63 - 1024, 2.0 ** 53, 2.0 ** 53 + 2, 1e15 + 0.5, 1e-7, 123456789.125,
                           -9.223372036854776e18, 9.3e18, 1e21, 1e22, 0.1, 0.2, 0.3, 1.0 / 3, 4.35, 1e-5, 1.7976931348623157e308])

    def add(self, prog, inputs, want, meta, tags=()):
        cid = "o%d" % self.n
        self.n += 1
        meta = dict(meta, prog=prog, input=inputs[0] if inputs else "", want_outcome=want[0], want_stdout=want[1])
        nontrivial = not (meta.get("l") in ("1", "3", "5") and meta.get("r", "1") in ("1", "3", "5") and meta.get("modes") in ("lit", "lit,lit"))
        self.cases.append(Case(cid, simple_run(cid, prog, inputs), meta, nontrivial, tags))

    def binary(self, op, l, r, ml, mr):
        L, R = Operand(l, ml, "l"), Operand(r, mr, "r")
        prog, inp = build(lambda a, b: "print (%s %s %s)" % (a, op, b), [L, R])
        self.add(prog, inp, expect_binary(op, l[1], r[1]), {"op": op, "l": l[0], "r": r[0], "modes": L.mode + "," + R.mode})

    def repeated(self, op, ls, rs, how):
        out, outcome = "", "ok"
        for l, r in zip(ls, rs):
            w = expect_binary(op, l[1], r[1])
            if w[0] != "ok":
                outcome = w[0]
                break
            out += w[1]
        if how == "func":
            prog = FUNCDEF + "function ap(l, r) { return l %s r }\nBEGIN {\n" % op + "".join(
                " print ap(%s, %s)\n" % (src_of(l), src_of(r)) for l, r in zip(ls, rs)) + "}"
            inp = []
        elif how == "loop":
            prog = FUNCDEF + "BEGIN { ls = [%s]\n rs = [%s]\n for (i = 0; i < %d; i++) print (ls[i] %s rs[i]) }" % (
                ", ".join(src_of(l) for l in ls), ", ".join(src_of(r) for r in rs), len(ls), op)
            inp = []
        else:
            # the right operand lives in a variable that changes from record to record, the left one is the record
            if any(l[3] is None for l in ls):
                return
            prog = FUNCDEF + "BEGIN { rs = [%s]\n r = rs[0] }\n{ print ($ %s r); r = rs[$index + 1] }" % (", ".join(src_of(r) for r in rs), op)
            inp = ["[" + ", ".join(l[3] for l in ls) + "]"]
        self.add(prog, inp, (outcome, out), {"op": op, "l": " ".join(l[0] for l in ls), "r": " ".join(r[0] for r in rs),
                                              "modes": "repeated-" + how}, ("repeated",))

    def same(self, op, p, mode):
        X = Operand(p, mode, "x")
        if X.mode != mode:
            return
        prog, inp = build(lambda a: "print (%s %s %s)" % (a, op, a), [X])
        self.add(prog, inp, expect_binary(op, p[1], p[1]), {"op": op, "l": p[0], "r": p[0], "modes": "same-" + mode}, ("same",))

    def unary(self, op, p, mode):
        X = Operand(p, mode, "x")
        prog, inp = build(lambda a: "print (%s%s)" % (op, a), [X])
        self.add(prog, inp, ("ok", fmt_res(opref.unop(op, p[1])) + "\n"), {"op": "unary" + op, "l": p[0], "modes": X.mode})

    def is_(self, p, name, mode):
        X = Operand(p, mode, "x")
        prog, inp = build(lambda a: "print (%s is %s)" % (a, name), [X])
        self.add(prog, inp, ("ok", fmt_res(opref.isop(p[1], name)) + "\n"), {"op": "is " + name, "l": p[0], "modes": X.mode})

    def incdec(self, form, p, mode):
        X = Operand(p, mode, "x")
        if X.mode == "lit":
            if p[1] is UNSET:
                target = "ux"
            elif p[1] is FUNC or p[1] is NATIVE:
                target = src_of(p)
            else:
                return
        else:
            target = X.text()
        expr = form.replace("x", target)
        prog, inp = build(lambda a: "print %s, %s" % (expr, target), [X])
        old = opref.num(p[1])
        new = old + 1 if "++" in form else old - 1
        val = new if form[0] in "+-" else old
        self.add(prog, inp, ("ok", fmt_res(val) + " " + fmt_res(new) + "\n"), {"op": form, "l": p[0], "modes": X.mode})

    def logic(self, op, p, rhs, mode):
        L = Operand(p, mode, "l")
        prog, inp = build(lambda a: "t = (%s %s %s)\n print t, x" % (a, op, rhs), [L])
        t = opref.truthy(p[1])
        evaluated = t if op == "&&" else not t
        rv = {"(x = 1)": 1.0, "(x = 0)": 0.0, '(x = "")': "", "(x = [])": []}.get(rhs)
        if not evaluated:
            want = ("ok", fmt_res(t) + " <unknown>\n")
        elif rhs == "(1 / 0)":
            want = ("runtime", "")
        else:
            want = ("ok", fmt_res(opref.truthy(rv)) + " " + fmt_res(rv) + "\n")
        self.add(prog, inp, want, {"op": op + " " + rhs, "l": p[0], "modes": L.mode})

    # ------------------------------------------------------------------ null read from a place where nothing is
    def other(self, rng, place, p):
        """a palette operand that can stand next to the given place in one program"""
        mode = rng.choice(["lit", "var", "fld"])
        if place.where == "begin" and mode == "fld":
            mode = "var"
        return Operand(p, mode, "q")

    def places(self, rng, thorough, kinds):
        P = PALETTE
        for place in PLACES:
            X = Place(place)
            meta = lambda op, l, r, ms: {"op": op, "l": l, "r": r, "modes": ms}
            for op in BINOPS:
                # the other operand: one of every kind (all of them in the thorough tier), and always a number that is not 0
                others = list(P) if thorough else [P[rng.choice(kinds[k])] for k in KINDS] + [P[IDX[rng.choice(["3", "-7", "2.5", "'10'", "true"])]]]
                for q in others:
                    for side in ("l", "r"):
                        if not thorough and rng.random() < 0.4:
                            continue
                        Q = self.other(rng, X, q)
                        if side == "l":
                            prog, inp = build(lambda a, b: "print (%s %s %s)" % (a, op, b), [X, Q])
                            self.add(prog, inp, expect_binary(op, None, q[1]), meta(op, X.expr, q[0], X.mode + "," + Q.mode), ("place",))
                        else:
                            prog, inp = build(lambda a, b: "print (%s %s %s)" % (b, op, a), [X, Q])
                            self.add(prog, inp, expect_binary(op, q[1], None), meta(op, q[0], X.expr, Q.mode + "," + X.mode), ("place",))
                # the place on both sides, and against another place of the same program shape
                prog, inp = build(lambda a: "print (%s %s %s)" % (a, op, a), [X])
                self.add(prog, inp, expect_binary(op, None, None), meta(op, X.expr, X.expr, "same-" + X.mode), ("place",))
                compatible = [pl for pl in PLACES if pl[2] == "any" or X.where == "any" or pl[2] == X.where]
                for pl in (compatible if thorough else rng.sample(compatible, 2)):
                    Y = Place(pl)
                    prog, inp = build(lambda a, b: "print (%s %s %s)" % (a, op, b), [X, Y])
                    self.add(prog, inp, expect_binary(op, None, None), meta(op, X.expr, Y.expr, X.mode + "," + Y.mode), ("place",))
            for op in UNOPS:
                prog, inp = build(lambda a: "print (%s%s)" % (op, a), [X])
                self.add(prog, inp, ("ok", fmt_res(opref.unop(op, None)) + "\n"), meta("unary" + op, X.expr, "", X.mode), ("place",))
                inner = rng.choice(UNOPS)
                prog, inp = build(lambda a: "print (%s(%s%s))" % (op, inner, a), [X])
                self.add(prog, inp, ("ok", fmt_res(opref.unop(op, opref.unop(inner, None))) + "\n"), meta("unary" + op + "(" + inner, X.expr, "", X.mode), ("place",))
            for name in (ISNAMES if thorough else ["null", "unknown", "number"] + rng.sample(ISNAMES, 2)):
                prog, inp = build(lambda a: "print (%s is %s)" % (a, name), [X])
                self.add(prog, inp, ("ok", fmt_res(opref.isop(None, name)) + "\n"), meta("is " + name, X.expr, "", X.mode), ("place",))
            for op in ("&&", "||"):
                for rhs in ("(x = 1)", "(1 / 0)"):
                    prog, inp = build(lambda a: "t = (%s %s %s)\n print t, x" % (a, op, rhs), [X])
                    if op == "&&":
                        want = ("ok", "false <unknown>\n")
                    else:
                        want = ("runtime", "") if rhs == "(1 / 0)" else ("ok", "true 1\n")
                    self.add(prog, inp, want, meta(op + " " + rhs, X.expr, "", X.mode), ("place",))
            if X.assignable:
                for form in ("x++", "x--", "++x", "--x"):
                    expr = form.replace("x", X.expr)
                    prog, inp = build(lambda a: "print %s, %s" % (expr, a), [X])
                    new = 1.0 if "++" in form else -1.0
                    val = new if form[0] in "+-" else 0.0
                    self.add(prog, inp, ("ok", fmt_res(val) + " " + fmt_res(new) + "\n"), meta(form, X.expr, "", X.mode), ("place",))
                for cop, res in (("+=", 3.0), ("-=", -3.0), ("*=", 0.0), ("/=", 0.0)):
                    prog, inp = build(lambda a: "print (%s %s 3), %s" % (a, cop, a), [X])
                    self.add(prog, inp, ("ok", fmt_res(res) + " " + fmt_res(res) + "\n"), meta(cop, X.expr, "3", X.mode), ("place",))
            # inside chains: the place at every position of a flat chain of one precedence level, and in random trees
            for rep in range(40 if thorough else 8):
                n = rng.randint(3, 5)
                if rep % 2 == 0:
                    level = rng.choice(SAME_LEVEL[:3])
                    t = left_chain([rng.choice(level) for _ in range(n - 1)])
                    style = "flat"
                else:
                    t = self.rand_tree(rng, 0, n - 1)
                    style = "paren"
                ps = self.chain_operands(rng, t, n, kinds)
                at = rep // 2 % n
                ops = tree_ops(t)
                operands = [X if i == at else self.other(rng, X, p) for i, p in enumerate(ps)]
                for i, o in enumerate(operands):
                    if o is not X:
                        o.side = "o%d" % i
                vals = [None if i == at else p[1] for i, p in enumerate(ps)]
                if style == "flat":
                    prog, inp = build(lambda *texts: "print (%s)" % flat_src(ops, texts), operands)
                else:
                    prog, inp = build(lambda *texts: "print %s" % tree_src(t, texts), operands)
                try:
                    want = ("ok", fmt_res(tree_eval(t, vals)) + "\n")
                except RuntimeErr:
                    want = ("runtime", "")
                self.add(prog, inp, want, {"op": "chain " + " ".join(ops) + " (" + style + ")",
                                           "l": " ".join(X.expr if i == at else p[0] for i, p in enumerate(ps)), "r": "",
                                           "modes": ",".join(o.mode for o in operands)}, ("place", "chain"))

    # ------------------------------------------------------------------ chains
    def chains(self, rng, thorough, kinds):
        P = PALETTE
        modes = ["lit", "var", "fld"]

        def pick(k):
            return P[rng.choice(kinds[k])]
        strs = kinds["str"]
        # a + b + c: every triple of kinds; what the second + does depends on the VALUE the first one produced
        for ka in KINDS:
            for kb in KINDS:
                for kc in KINDS:
                    for rep in range(4 if thorough else 1):
                        ps = [pick(ka), pick(kb), pick(kc)]
                        self.chain(rng, left_chain(["+", "+"]), ps, rng.choice(["flat", "flat", "paren"]), modes)
                    if thorough or rng.random() < 0.25:
                        self.chain(rng, ("+", 0, ("+", 1, 2)), [pick(ka), pick(kb), pick(kc)], "paren", modes)
        # longer + chains: the first string at every position (and none at all), any kinds around it
        nonstr = [k for k in KINDS if k != "str"]
        for n in range(3, 9):
            for first in range(n + 1):
                for rep in range(12 if thorough else 3):
                    ps = []
                    for i in range(n):
                        if i < first:
                            ps.append(pick(rng.choice(nonstr)))
                        elif i == first:
                            ps.append(P[rng.choice(strs)])
                        else:
                            ps.append(pick(rng.choice(KINDS)))
                    self.chain(rng, left_chain(["+"] * (n - 1)), ps, "flat" if rep != 1 else "paren", modes)
        # one operator repeated, and operators of one level mixed, written flat (they group from the left)
        for op in BINOPS:
            level = [l for l in SAME_LEVEL if op in l][0]
            for rep in range(200 if thorough else 30):
                n = rng.randint(3, 6)
                ops = [op] * (n - 1) if rep % 2 == 0 else [op] + [rng.choice(level) for _ in range(n - 2)]
                ps = self.chain_operands(rng, left_chain(ops), n, kinds)
                self.chain(rng, left_chain(ops), ps, "flat", modes)
        # any operators in any grouping, the grouping written out
        for rep in range(8000 if thorough else 700):
            n = rng.randint(3, 6)
            t = self.rand_tree(rng, 0, n - 1)
            ps = self.chain_operands(rng, t, n, kinds)
            self.chain(rng, t, ps, "paren", modes)

    def rand_tree(self, rng, lo, hi):
        if lo == hi:
            return lo
        op = rng.choice(BINOPS)
        if op in ("~", "!~"):
            return (op, self.rand_tree(rng, lo, hi - 1), hi)     # the pattern is an operand, never a computed string (see opref.match)
        k = rng.randint(lo, hi - 1)
        return (op, self.rand_tree(rng, lo, k), self.rand_tree(rng, k + 1, hi))

    def chain_operands(self, rng, t, n, kinds):
        """operands for a tree: mostly numbers and strings so that most chains run to the end, every kind now and then;
        the right operand of ~ is mostly a pattern"""
        P = PALETTE
        pattern_at = set()

        def walk(x):
            if isinstance(x, int):
                return
            if x[0] in ("~", "!~") and isinstance(x[2], int):
                pattern_at.add(x[2])
            walk(x[1])
            walk(x[2])
        walk(t)
        ps = []
        for i in range(n):
            if i in pattern_at and rng.random() < 0.8:
                ps.append(P[rng.choice(kinds["regex"] + [IDX["'a'"], IDX["'^b$'"], IDX["'0'"], IDX["''"], IDX["'('"], IDX["'1e3'"]])])
            else:
                k = rng.random()
                kind = "num" if k < 0.35 else "str" if k < 0.6 else rng.choice(KINDS)
                ps.append(P[rng.choice(kinds[kind])])
        return ps

    def chain(self, rng, t, ps, style, modes):
        operands = [Operand(p, rng.choice(modes), "o%d" % i) for i, p in enumerate(ps)]
        ops = tree_ops(t)
        if style == "flat":
            prog, inp = build(lambda *texts: "print (%s)" % flat_src(ops, texts), operands)
        else:
            prog, inp = build(lambda *texts: "print %s" % tree_src(t, texts), operands)
        try:
            want = ("ok", fmt_res(tree_eval(t, [p[1] for p in ps])) + "\n")
        except RuntimeErr:
            want = ("runtime", "")
        self.add(prog, inp, want, {"op": "chain " + " ".join(ops) + " (" + style + ")", "l": " ".join(p[0] for p in ps),
                                   "r": "", "modes": ",".join(o.mode for o in operands)}, ("chain",))

    # ------------------------------------------------------------------ ~ and !~ over every regex construct
    def regexes(self, rng, thorough):
        plan = []       # (pattern, subject text, subject source kind)
        for pat in RX_PATTERNS:
            subs = [pat, "x" + pat + "y", pat + pat]
            # what a reader of the pattern as plain text / as a regex would try: the text with the repetition spelled out
            body = pat.split("{")[0]
            if body and "{" in pat:
                subs += [body * n for n in (1, 2, 3)] + [body[:-1] + body[-1] * n for n in (0, 1, 2, 3, 4)]
            pool = rng.sample(RX_SUBJECTS, 30 if thorough else 5)
            seen = set()
            for t in subs + pool:
                if t not in seen and len(t) < 3000:
                    seen.add(t)
                    plan.append((pat, t, None))
            for v, t in rng.sample(RX_NUM_SUBJECTS, 3 if thorough else 1):
                plan.append((pat, t, v))
        ref = rx_oracle([(p, t) for p, t, _ in plan])
        for pat, t, numv in plan:
            verdict = ref.get((pat, t))
            if verdict is None:
                continue            # no oracle answer (harness missing): nothing to judge
            forms = ["regex-lit", "str-lit", "var-regex", "var-str", "field", "filter"]
            for form in rng.sample(forms, 3 if thorough else 2):
                op = rng.choice(["~", "~", "!~"])
                self.regex_case(rng, op, pat, t, numv, form, verdict)

    def regex_case(self, rng, op, pat, t, numv, form, verdict):
        # (`/=` is the compound-assignment token: a regex literal cannot start with `=`)
        lit_ok = "/" not in pat and "\n" not in pat and not pat.startswith("=")
        if form in ("regex-lit", "var-regex") and not lit_ok:
            form = "str-lit" if form == "regex-lit" else "var-str"
        q = rng.choice(["\"", "'"])
        ps = rx_string_literal(pat, q) or rx_string_literal(pat, "'" if q == "\"" else "\"")
        if ps is None:
            form = "field"
        if numv is not None:
            ts = opref.literal(numv)
            tj = json.dumps(numv)
        else:
            ts = rx_string_literal(t, rng.choice(["\"", "'"])) or rx_string_literal(t, "\"") or rx_string_literal(t, "'")
            tj = json.dumps(t)
        subj_mode = rng.choice(["lit", "var", "fld"]) if ts is not None else "fld"
        fields, setup = {}, ""
        if subj_mode == "lit":
            L = ts
        elif subj_mode == "var":
            setup += "l = %s\n " % ts
            L = "l"
        else:
            fields["l"] = tj
            L = "$.l"
        if form == "regex-lit":
            R = "/" + pat + "/"
        elif form == "str-lit":
            R = ps
        elif form == "var-regex":
            setup += "r = /%s/\n " % pat
            R = "r"
        elif form == "var-str":
            setup += "r = %s\n " % ps
            R = "r"
        else:
            fields["r"] = json.dumps(pat)
            R = "$.r"
        hit = (verdict == "m1") == (op == "~")
        meta = {"op": op, "l": repr(t), "r": repr(pat), "modes": "%s,%s" % (subj_mode, form), "go_regexp": verdict}
        if form == "filter":
            # the match as a rule pattern over records, the pattern text fixed in the program
            R = ps if (ps is not None and (not lit_ok or rng.random() < 0.5)) else "/" + pat + "/"
            if not (R.startswith("/") or ps is not None):
                return
            doc = "[" + ", ".join('{"id": %s, "n": %d}' % (tj, i) for i in range(2)) + "]"
            prog = "$.id %s %s { print \"hit\", $.n }\nEND { print \"end\" }" % (op, R)
            want = ("runtime", "") if verdict == "bad" else ("ok", ("hit 0\nhit 1\n" if hit else "") + "end\n")
            self.add(prog, [doc], want, dict(meta, modes="rule pattern," + ("str" if R == ps else "regex")), ("regex",))
            return
        body = setup + "print (%s %s %s)" % (L, op, R)
        want = ("runtime", "") if verdict == "bad" else ("ok", fmt_res(hit) + "\n")
        if fields:
            doc = "{" + ", ".join('"%s": %s' % kv for kv in fields.items()) + "}"
            self.add("{ " + body + " }", [doc], want, meta, ("regex",))
        else:
            self.add("BEGIN { " + body + " }", [], want, meta, ("regex",))

    # ------------------------------------------------------------------ oracle
    def oracle(self, case, impl):
        m = case.meta
        if "want_outcome" not in m:
            return None
        want = (m["want_outcome"], m["want_stdout"].encode())
        got = (impl.outcome, impl.stdout)
        if got != want:
            return "%s on (%s, %s) supplied as %s: documented %r, implementation %r" % (
                m.get("op"), m.get("l"), m.get("r", ""), m.get("modes"), want, got)
        return None


CHECK = C05()
