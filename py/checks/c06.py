"""C06: precedence and associativity - an expression means its fully parenthesised form."""
import copy, itertools, math
from framework import Check, Case
from jqlib import simple_run, run_impl, hx, unhx, RunRes
import pyref, opref
from opref import UNSET, RuntimeErr

# ---------------------------------------------------------------------------- the documented table (DESIGN.md 3.5)
LEVEL = {}
for _op in ("*", "/", "%"):
    LEVEL[_op] = 5
for _op in ("+", "-"):
    LEVEL[_op] = 4
for _op in ("==", "!=", "<", "<=", ">", ">=", "~", "!~"):
    LEVEL[_op] = 3
for _op in ("&&", "||"):
    LEVEL[_op] = 2
ASSIGN = ("=", "+=", "-=", "*=", "/=")
BIN = ["*", "/", "%", "+", "-", "==", "!=", "<", "<=", ">", ">=", "~", "!~", "&&", "||"]
ALLOPS = BIN + ["is"] + list(ASSIGN)          # the 21 infix operators
L_ATOM, L_SUFFIX, L_PREFIX, L_POSTFIX, L_ASSIGN = 10, 8, 7, 6, 1


def level(e):
    k = e[0]
    if k in ("num", "str", "lit", "var", "arr", "prim"):
        return L_ATOM
    if k in ("member", "index", "call"):
        return L_SUFFIX
    if k == "pre":
        return L_PREFIX
    if k == "post":
        return L_POSTFIX
    if k == "bin":
        return LEVEL[e[1]]
    if k == "is":
        return 3
    if k == "asg":
        return L_ASSIGN
    raise ValueError(e)


def q(s):
    return '"' + s + '"'


def rmin(e, need=1):
    """minimal parentheses: a child is parenthesised iff its level is lower than its position requires"""
    k = e[0]
    if k == "num":
        s = e[1]
    elif k == "str":
        s = q(e[1])
    elif k in ("lit", "var", "prim"):
        s = e[1]
    elif k == "arr":
        s = "[" + ", ".join(rmin(x, 1) for x in e[1]) + "]"
    elif k == "member":
        s = rmin(e[1], L_SUFFIX) + "." + e[2]
    elif k == "index":
        s = rmin(e[1], L_SUFFIX) + "[" + rmin(e[2], 1) + "]"
    elif k == "call":
        s = rmin(e[1], L_SUFFIX) + "(" + ", ".join(rmin(a, 1) for a in e[2]) + ")"
    elif k == "pre":
        t = rmin(e[2], L_PREFIX)
        s = e[1] + (" " if t[0] in "+-" and e[1][-1] == t[0] else "") + t
    elif k == "post":
        s = rmin(e[2], L_POSTFIX) + e[1]
    elif k == "bin":
        lv = LEVEL[e[1]]
        s = rmin(e[2], lv) + " " + e[1] + " " + rmin(e[3], lv + 1)
    elif k == "is":
        s = rmin(e[1], 3) + " is " + e[2]
    elif k == "asg":
        s = rmin(e[2], 2) + " " + e[1] + " " + rmin(e[3], 1)
    else:
        raise ValueError(e)
    return "(" + s + ")" if level(e) < need else s


def rfull(e, top=True):
    """every operator application in its own parentheses"""
    k = e[0]
    if k in ("num", "str", "lit", "var"):
        return rmin(e)
    if k == "arr":
        return "[" + ", ".join(rfull(x) for x in e[1]) + "]"
    if k == "prim":
        return "(" + e[1] + ")"             # a primary written out in full (match, literal, call, group): the full form brackets it
    if k == "member":
        s = rfull(e[1]) + "." + e[2]
    elif k == "index":
        s = rfull(e[1]) + "[" + rfull(e[2]) + "]"
    elif k == "call":
        s = rfull(e[1]) + "(" + ", ".join(rfull(a) for a in e[2]) + ")"
    elif k == "pre":
        s = e[1] + rfull(e[2])
    elif k == "post":
        s = rfull(e[2]) + e[1]
    elif k == "bin":
        s = rfull(e[2]) + " " + e[1] + " " + rfull(e[3])
    elif k == "is":
        s = rfull(e[1]) + " is " + e[2]
    elif k == "asg":
        s = rfull(e[2]) + " " + e[1] + " " + rfull(e[3])
    else:
        raise ValueError(e)
    return "(" + s + ")"


# ---------------------------------------------------------------------------- reference evaluation of a tree
PRELUDE = ("function inc(x) { return x + 1 }\nfunction sub(x, y) { return x - y }\nfunction thirteen() { return 13 }\n"
           "BEGIN { a = 3; b = 5; c = 7; d = 11; s = \"x\"; t = \"10\"; arr = [2, 3, 5, 7]; obj = {k: 7, m: {n: 11}}\n"
           " v0 = 2; v1 = 3; v2 = 5; v3 = 7; v4 = 11; v5 = 13; v6 = 17; v7 = 19; o2 = {w: 23}; a2 = [29, 31]\n")
POSTLUDE = "\n print v0, v1, v2, v3, v4, v5, v6, v7, o2.w, a2[1] }"
MUTABLE = ["v0", "v1", "v2", "v3", "v4", "v5", "v6", "v7", "o2.w", "a2[1]"]
MUT_TREE = {"o2.w": ("member", ("var", "o2"), "w"), "a2[1]": ("index", ("var", "a2"), ("num", "1"))}


def fresh_env():
    return {"a": 3.0, "b": 5.0, "c": 7.0, "d": 11.0, "s": "x", "t": "10", "arr": [2.0, 3.0, 5.0, 7.0],
            "obj": {"k": 7.0, "m": {"n": 11.0}}, "u": UNSET,
            "v0": 2.0, "v1": 3.0, "v2": 5.0, "v3": 7.0, "v4": 11.0, "v5": 13.0, "v6": 17.0, "v7": 19.0,
            "o2": {"w": 23.0}, "a2": [29.0, 31.0]}


class Unsupported(Exception):
    pass


def load(e, env):
    return ev(e, env)


def store(e, env, val):
    k = e[0]
    if k == "var":
        env[e[1]] = val
    elif k in ("member", "index") and e[1][0] == "prim" and e[1][2]["fresh"]:
        pass                                # an element of a value that the primary has just made: nothing can see the store
    elif k == "member" and e[1][0] == "var" and isinstance(env.get(e[1][1]), dict):
        env[e[1][1]][e[2]] = val
    elif k == "index" and e[1][0] == "var" and isinstance(env.get(e[1][1]), list) and e[2][0] == "num":
        env[e[1][1]][int(e[2][1])] = val
    else:
        raise Unsupported()


def ev(e, env):
    k = e[0]
    if k == "num":
        return float(e[1])
    if k == "str":
        return e[1]
    if k == "lit":
        return {"true": True, "false": False, "null": None}[e[1]]
    if k == "var":
        return env[e[1]]
    if k == "arr":
        return [ev(x, env) for x in e[1]]
    if k == "prim":
        return copy.deepcopy(e[2]["v"])
    if k == "member":
        b = ev(e[1], env)
        if isinstance(b, dict):
            return b.get(e[2])
        raise Unsupported()
    if k == "index":
        b = ev(e[1], env)
        i = ev(e[2], env)
        if isinstance(b, str) and b.isascii() and isinstance(i, float) and not isinstance(i, bool):
            n = pyref.trunc_int64(i)
            return b[n] if 0 <= n < len(b) else None
        if isinstance(b, dict) and isinstance(i, str):
            return b.get(i)
        if not isinstance(b, list) or isinstance(i, bool) or not isinstance(i, float):
            raise Unsupported()
        n = pyref.trunc_int64(i)
        if n < 0:
            n += len(b)
            if n < 0:
                raise RuntimeErr("index out of range")
        return b[n] if n < len(b) else None
    if k == "call":
        f = e[1]
        args = [ev(a, env) for a in e[2]]
        if f == ("var", "inc") or (f[0] == "prim" and f[2]["v"] == FN_INC):
            return opref.binop("+", args[0], 1.0)
        if f == ("var", "sub"):
            return opref.binop("-", args[0], args[1])
        if f == ("var", "thirteen"):
            return 13.0
        if f[0] == "member" and f[2] == "length":
            b = ev(f[1], env)
            if isinstance(b, str):
                return float(len(b.encode()))
            if isinstance(b, (list, dict)):
                return float(len(b))
        if f[0] == "member" and f[2] in ("floor", "ceil", "round") and not args:
            b = ev(f[1], env)
            if isinstance(b, float) and not isinstance(b, bool) and b == b and not math.isinf(b):
                if f[2] == "floor":
                    r = float(math.floor(b))
                elif f[2] == "ceil":
                    r = float(math.ceil(b))
                else:
                    r = float(math.floor(abs(b) + 0.5))
                return math.copysign(r, b) if r == 0 or f[2] == "round" else r
        if f[0] == "member" and f[2] == "upper" and not args:
            b = ev(f[1], env)
            if isinstance(b, str) and b.isascii():
                return b.upper()
        raise Unsupported()
    if k == "pre":
        if e[1] in ("++", "--"):
            new = opref.num(load(e[2], env)) + (1 if e[1] == "++" else -1)
            store(e[2], env, new)
            return new
        return opref.unop(e[1], ev(e[2], env))
    if k == "post":
        old = opref.num(load(e[2], env))
        store(e[2], env, old + (1 if e[1] == "++" else -1))
        return old
    if k == "bin":
        l = ev(e[2], env)
        if e[1] == "&&":
            return opref.truthy(l) and opref.truthy(ev(e[3], env))
        if e[1] == "||":
            return opref.truthy(l) or opref.truthy(ev(e[3], env))
        return opref.binop(e[1], l, ev(e[3], env))
    if k == "is":
        return opref.isop(ev(e[1], env), e[2])
    if k == "asg":
        if e[1] == "=":
            val = ev(e[3], env)
        else:
            cur = load(e[2], env)
            val = opref.binop(e[1][0], cur, ev(e[3], env))
        store(e[2], env, val)
        return val
    raise ValueError(e)


def reference(e):
    """(outcome, stdout) of PRELUDE + print E + POSTLUDE, or None when the tree is outside the reference's fragment"""
    env = fresh_env()
    try:
        v = ev(e, env)
    except RuntimeErr:
        return ("runtime", "")
    except Unsupported:
        return None
    if isinstance(v, (list, dict)) and any(x is UNSET for x in (v if isinstance(v, list) else v.values())):
        return None
    out = opref.pretty(v) + "\n"
    tail = [env["v%d" % i] for i in range(8)] + [env["o2"]["w"], env["a2"][1]]
    out += " ".join(opref.pretty(x) for x in tail) + "\n"
    return ("ok", out)


def program(text):
    return PRELUDE + " print " + text + POSTLUDE


# ---------------------------------------------------------------------------- expected AST (normalised S-expression)
TOKTEXT = ["ident", '"s"', "1", "true", "false", "null", "$", "+", "-", "*", "/", "%", "==", "!=", "<", "<=", ">", ">=",
           "~", "!~", "&&", "||", "=", "+=", "-=", "*=", "/=", "!", "++", "--", ".", "[", "(", "is", "function"]
TOKNAME = ["Ident", "Str", "Num", "true", "false", "null", "$"] + TOKTEXT[7:]


def want_ast(e):
    """the AST the documented grammar assigns to the tree, with token names for tags and texts for positions"""
    k = e[0]
    if k == "prim":
        raise Unsupported()
    if k == "num":
        return "(lit Num %s)" % e[1]
    if k == "str":
        return "(lit Str %s)" % (e[1] or "-")
    if k == "lit":
        return "(lit %s -)" % e[1]
    if k == "var":
        return "(id Ident %s)" % e[1]
    if k == "arr":
        return "(arr" + "".join(" " + want_ast(x) for x in e[1]) + ")"
    if k == "member":
        return "(bin . %s (lit Ident %s))" % (want_ast(e[1]), e[2])
    if k == "index":
        return "(bin [ %s %s)" % (want_ast(e[1]), want_ast(e[2]))
    if k == "call":
        return "(call %s" % want_ast(e[1]) + "".join(" " + want_ast(a) for a in e[2]) + ")"
    if k == "pre":
        return "(un %s 0 %s)" % (e[1], want_ast(e[2]))
    if k == "post":
        return "(un %s 1 %s)" % (e[1], want_ast(e[2]))
    if k == "bin":
        return "(bin %s %s %s)" % (e[1], want_ast(e[2]), want_ast(e[3]))
    if k == "is":
        tag = {"function": "function", "null": "null"}.get(e[2], "Ident")
        return "(bin is %s (id %s %s))" % (want_ast(e[1]), tag, e[2] if tag == "Ident" else "-")
    if k == "asg":
        if e[1] == "=":
            return "(bin = %s %s)" % (want_ast(e[2]), want_ast(e[3]))
        return "(bin = %s (bin %s %s %s))" % (want_ast(e[2]), e[1][0], want_ast(e[2]), want_ast(e[3]))
    raise ValueError(e)


def sexpr_parse(s):
    toks = s.replace("(", " ( ").replace(")", " ) ").split()
    pos = [0]

    def go():
        t = toks[pos[0]]
        pos[0] += 1
        if t == "(":
            out = []
            while toks[pos[0]] != ")":
                out.append(go())
            pos[0] += 1
            return out
        return t
    return go()


def normalise(sx, src, names):
    """drop positions; replace (pos, len) of literal/identifier tokens by their text; tags by token names"""
    def nm(t):
        return names.get(t, "#" + t)

    def txt(p, n):
        b = src[int(p):int(p) + int(n)]
        return b.decode("utf-8", "replace") if b else "-"

    def go(x):
        h = x[0]
        if h in ("lit", "id"):
            return "(%s %s %s)" % (h, nm(x[1]), txt(x[2], x[3]))
        if h == "bin":
            return "(bin %s %s %s)" % (nm(x[1]), go(x[4]), go(x[5]))
        if h == "un":
            return "(un %s %s %s)" % (nm(x[1]), x[3], go(x[4]))
        if h == "call":
            return "(call" + "".join(" " + go(y) for y in x[1:]) + ")"
        if h == "arr":
            return "(arr" + "".join(" " + go(y) for y in x[2:]) + ")"
        if h == "obj":
            return "(obj" + "".join(" (kv %s %s)" % (y[1], go(y[2])) for y in x[2:]) + ")"
        return "(?%s)" % h
    return go(sx)


# ---------------------------------------------------------------------------- tree generation
class TreeGen:
    def __init__(self, rng, evaluable=True):
        self.r = rng
        self.free = list(MUTABLE)
        rng.shuffle(self.free)
        self.evaluable = evaluable

    def lvalue(self):
        if not self.free:
            return None
        name = self.free.pop()
        return MUT_TREE.get(name, ("var", name))

    def atom(self):
        r = self.r
        k = r.random()
        if k < 0.40:
            return ("num", r.choice(["2", "3", "5", "7", "11", "13", "1", "0.5", "2.5", "10", "4"]))
        if k < 0.52:
            return ("str", r.choice(["a", "b", "10", "9", "x", "", "1"]))
        if k < 0.60:
            return ("lit", r.choice(["true", "false", "null"]))
        if k < 0.85:
            return ("var", r.choice(["a", "b", "c", "d", "s", "t"]))
        if k < 0.88:
            return ("var", "u")
        return self.suffix(0)

    def numexpr(self, d):
        """number-valued for sure: an index expression"""
        r = self.r
        if d <= 0 or r.random() < 0.5:
            return ("num", r.choice(["0", "1", "2", "3"]))
        k = r.random()
        if k < 0.7:
            return ("bin", r.choice(["+", "-", "*"]), self.numexpr(d - 1), self.numexpr(d - 1))
        return ("pre", "-", self.numexpr(d - 1))

    def suffix(self, d):
        r = self.r
        k = r.random()
        if k < 0.25:
            return ("member", ("var", "obj"), r.choice(["k", "zz"]))
        if k < 0.35:
            return ("member", ("member", ("var", "obj"), "m"), "n")
        if k < 0.60:
            return ("index", ("var", "arr"), self.numexpr(min(d, 2)))
        if k < 0.75:
            return ("call", ("var", "inc"), [self.expr(d - 1)])
        if k < 0.85:
            return ("call", ("var", "sub"), [self.expr(d - 1), self.expr(d - 1)])
        if k < 0.80:
            return ("call", ("var", "thirteen"), [])
        if k < 0.90:
            # a method on a numeric literal or variable: the suffix binds tighter than any prefix operator in front
            recv = r.choice([("num", "2.5"), ("num", "7.5"), ("num", "0.5"), ("num", "3"), ("num", "10.25"), ("var", "a"), ("var", "b")])
            return ("call", ("member", recv, r.choice(["floor", "ceil", "round"])), [])
        if k < 0.94:
            return ("call", ("member", ("str", r.choice(["ab", "x", ""])), r.choice(["length", "upper"])), [])
        if k < 0.96:
            return ("index", ("str", "abc"), self.numexpr(min(d, 1)))
        return ("call", ("member", ("var", r.choice(["s", "t", "arr", "obj"])), "length"), [])

    def expr(self, d):
        r = self.r
        if d <= 0:
            return self.atom()
        k = r.random()
        if k < 0.12:
            return self.atom()
        if k < 0.62:
            op = r.choice(BIN)
            # skew the depth to one side so that deep trees stay small
            dl, dr = (d - 1, r.randint(0, max(0, d - 2))) if r.random() < 0.5 else (r.randint(0, max(0, d - 2)), d - 1)
            right = self.expr(dr)
            if op in ("~", "!~") and r.random() < 0.8:
                right = ("str", r.choice(["1", "x", "^1", "a|b", "[0-9]", "e$", ""]))
            return ("bin", op, self.expr(dl), right)
        if k < 0.72:
            return ("pre", r.choice(["!", "-", "+"]), self.expr(d - 1))
        if k < 0.78:
            lv = self.lvalue()
            if lv is None:
                return self.atom()
            if r.random() < 0.5:
                return ("pre", r.choice(["++", "--"]), lv)
            return ("post", r.choice(["++", "--"]), lv)
        if k < 0.86:
            lv = self.lvalue()
            if lv is None:
                return self.atom()
            return ("asg", r.choice(ASSIGN), lv, self.expr(d - 1))
        if k < 0.91:
            return ("is", self.expr(d - 1), r.choice(["number", "string", "bool", "null", "unknown", "array", "function", "foo"]))
        if k < 0.97:
            return self.suffix(d)
        return ("arr", [self.expr(d - 2) for _ in range(r.randint(0, 2))])


def free_tree(rng, d):
    """parse-only trees: prefix/postfix ++ -- on any operand, suffixes on any base, assignment to anything the parser accepts"""
    def go(d):
        k = rng.random()
        if d <= 0 or k < 0.15:
            return rng.choice([("num", "2"), ("num", "7.5"), ("str", "q"), ("lit", "true"), ("lit", "null"), ("var", "a"), ("var", "b")])
        if k < 0.55:
            return ("bin", rng.choice(BIN), go(d - 1), go(rng.randint(0, d - 1)))
        if k < 0.65:
            return ("pre", rng.choice(["!", "-", "+", "++", "--"]), go(d - 1))
        if k < 0.72:
            return ("post", rng.choice(["++", "--"]), go(d - 1))
        if k < 0.80:
            lhs = rng.choice([("var", "x"), ("member", go(d - 1), "f"), ("index", go(d - 1), go(d - 2))])
            return ("asg", rng.choice(ASSIGN), lhs, go(d - 1))
        if k < 0.85:
            return ("is", go(d - 1), rng.choice(["number", "function", "null", "zork"]))
        if k < 0.90:
            return ("member", go(d - 1), rng.choice(["k", "length"]))
        if k < 0.94:
            return ("index", go(d - 1), go(d - 2))
        if k < 0.98:
            return ("call", go(d - 1), [go(d - 2) for _ in range(rng.randint(0, 2))])
        return ("arr", [go(d - 2) for _ in range(rng.randint(0, 2))])
    return go(d)


# ---------------------------------------------------------------------------- primaries that end in a bracket, as the leftmost operand
FN_INC = "\0function inc"


def prim(text, v, fresh=True):
    return ("prim", text, {"v": v, "fresh": fresh})


# text -> value under the prelude (a = 3, b = 5, c = 7, arr = [2, 3, 5, 7], obj = {k: 7, m: {n: 11}}); every one ends in } ] or )
PRIMARIES = [
    # match expressions: one case, several cases, trailing comma, binding patterns, array patterns, block body, no case matches
    prim("match (a) { 3 => 2 }", 2.0),
    prim("match (a) { 3 => 2, }", 2.0),
    prim("match (b) { 3 => 1, 5 => 4 }", 4.0),
    prim("match (c) { 3 => 1, _ => 6 }", 6.0),
    prim("match (b) { 3 => 1 5 => 4 9 => 0 }", 4.0),
    prim("match (a) { n => n + 4 }", 7.0),
    prim("match ([a, b]) { [3, y] => y }", 5.0),
    prim("match (a) { 1, 3 => 2.5 }", 2.5),
    prim("match (a) { 3 => { v7 = 19 } }", None),
    prim("match (a) { 3 => { } }", None),
    prim("match (a) { 9 => 1 }", None),
    prim("match (a) { }", None),
    prim('match (s) { "x" => "ab" }', "ab"),
    prim("match (a) { 3 => true }", True),
    prim("match (a) { 3 => [7, 8] }", [7.0, 8.0]),
    prim("match (a) { 3 => [[1, 4], [9, 6]] }", [[1.0, 4.0], [9.0, 6.0]]),
    prim("match (a) { 3 => ({k: 5}) }", {"k": 5.0}),
    prim("match (a) { 3 => inc }", FN_INC),
    prim("match (match (a) { 3 => 5 }) { 5 => 9 }", 9.0),
    # object and array literals
    prim("{k: 5}", {"k": 5.0}),
    prim("{k: 5, m: {n: 6}}", {"k": 5.0, "m": {"n": 6.0}}),
    prim('{"k": [4, 9]}', {"k": [4.0, 9.0]}),
    prim("{}", {}),
    prim("[7, 8]", [7.0, 8.0]),
    prim("[[1, 4], [9, 6]]", [[1.0, 4.0], [9.0, 6.0]]),
    prim('["ab", "cd"]', ["ab", "cd"]),
    prim("[]", []),
    # calls
    prim("inc(1)", 2.0),
    prim("thirteen()", 13.0),
    prim("sub(9, 2)", 7.0),
    prim("inc(inc(1))", 3.0),
    prim("arr.length()", 4.0),
    prim('"ab".upper()', "AB"),
    # parenthesised groups
    prim("(7)", 7.0),
    prim("(a)", 3.0),
    prim("((b))", 5.0),
    prim("(a + b)", 8.0),
    prim("(s)", "x"),
    prim("(arr)", [2.0, 3.0, 5.0, 7.0], False),
    prim("(obj)", {"k": 7.0, "m": {"n": 11.0}}, False),
    prim("(inc)", FN_INC),
    prim("(null)", None),
    # index and member results that end in ] or )
    prim("arr[1]", 3.0, False),
    prim("obj.m", {"n": 11.0}, False),
]


def prim_heads(p, rng):
    """scalar-valued expressions that begin with the primary: the primary itself, or suffixes applied to it"""
    v = p[2]["v"]
    out = []
    if v == FN_INC:
        out.append(("call", p, [("num", rng.choice(["4", "1", "2.5"]))]))
        out.append(("call", p, [("call", p, [("num", "1")])]))
    elif isinstance(v, list):
        for i, x in enumerate(v):
            h = ("index", p, ("num", str(i)))
            if isinstance(x, list):
                out.append(("index", h, ("num", str(rng.randrange(len(x))))))
                out.append(("call", ("member", h, "length"), []))
            elif isinstance(x, str):
                out.append(h)
                out.append(("index", h, ("num", "1")))
                out.append(("call", ("member", h, "upper"), []))
            else:
                out.append(h)
        out.append(("index", p, ("num", "5")))                      # nothing there: null
        if v:
            out.append(("index", p, ("pre", "-", ("num", "1"))))
        out.append(("call", ("member", p, "length"), []))
    elif isinstance(v, dict):
        for k2, x in v.items():
            h = ("member", p, k2)
            if isinstance(x, dict):
                out.append(("member", h, sorted(x)[0]))
                out.append(("call", ("member", h, "length"), []))
            elif isinstance(x, list):
                out.append(("index", h, ("num", "1")))
                out.append(("call", ("member", h, "length"), []))
            else:
                out.append(h)
                out.append(("index", p, ("str", k2)))
        out.append(("member", p, "zz"))
        out.append(("call", ("member", p, "length"), []))
    elif isinstance(v, str):
        out.append(p)
        out.append(("index", p, ("num", "0")))
        out.append(("call", ("member", p, "length"), []))
        out.append(("call", ("member", p, "upper"), []))
    elif isinstance(v, float) and not isinstance(v, bool):
        out.append(p)
        out.append(("call", ("member", p, rng.choice(["floor", "ceil", "round"])), []))
    else:
        out.append(p)
    return out


def replace_leftmost(t, h):
    """the tree with its textually first leaf (a number) replaced by h, or None when the tree does not begin with a number"""
    k = t[0]
    if k == "num":
        return h
    if k in ("bin", "asg"):
        if k == "asg":
            return None
        l = replace_leftmost(t[2], h)
        return None if l is None else ("bin", t[1], l, t[3])
    if k == "is":
        l = replace_leftmost(t[1], h)
        return None if l is None else ("is", l, t[2])
    if k == "post":
        return None
    if k in ("member", "index", "call"):
        l = replace_leftmost(t[1], h)
        return None if l is None else (k, l) + t[2:]
    return None


def shapes(n):
    """all binary tree shapes over n operators in sequence: nested tuples of operator indexes / leaf indexes"""
    def build(lo, hi):          # leaves lo..hi inclusive, operators lo..hi-1
        if lo == hi:
            return [("leaf", lo)]
        out = []
        for k in range(lo, hi):
            for l in build(lo, k):
                for r in build(k + 1, hi):
                    out.append(("op", k, l, r))
        return out
    return build(0, n)


def instantiate(shape, ops, rng):
    """tree for an operator sequence under a shape, or None if the shape is not a legal tree (`is` wants a type
    name and an assignment a location directly to its side)"""
    targets = ["v0", "v1", "v2", "v3"]
    nums = ["7", "2", "5", "3", "11"]

    def leaf(i):
        if i > 0 and ops[i - 1] == "is":
            return ("typename", ["number", "bool", "string", "number"][i % 4])
        if i < len(ops) and ops[i] in ASSIGN:
            return ("var", targets[i])
        if i > 0 and ops[i - 1] in ("~", "!~"):
            return ("str", ["1", "5", "e", "0"][i % 4])
        return ("num", nums[i])

    def go(s):
        if s[0] == "leaf":
            return leaf(s[1])
        op = ops[s[1]]
        l, r = go(s[2]), go(s[3])
        if l is None or r is None:
            return None
        if l[0] == "typename":
            return None
        if op == "is":
            return ("is", l, r[1]) if r[0] == "typename" else None
        if r[0] == "typename":
            return None
        if op in ASSIGN:
            return ("asg", op, l, r) if l[0] == "var" and l[1] in targets else None
        return ("bin", op, l, r)
    t = go(shape)
    return None if t is None or t[0] == "typename" else t


def decorate(t, rng):
    """add prefix operators and suffixes at random leaves / nodes of a pair/triple tree"""
    def go(e):
        k = e[0]
        if k == "num" and rng.random() < 0.4:
            c = rng.random()
            if c < 0.3:
                return ("pre", rng.choice(["-", "!", "+"]), e)
            if c < 0.5:
                m = ("call", ("member", rng.choice([e, ("num", e[1] + ".5")]), rng.choice(["floor", "ceil", "round"])), [])
                return ("pre", rng.choice(["-", "-", "+", "!"]), m) if rng.random() < 0.7 else m
            if c < 0.7:
                return ("call", ("var", "inc"), [e])
            return ("index", ("var", "arr"), ("num", rng.choice(["0", "1", "2", "3"])))
        if k == "bin":
            n = ("bin", e[1], go(e[2]), go(e[3]))
            return ("pre", rng.choice(["-", "!"]), n) if rng.random() < 0.15 else n
        if k == "is":
            return ("is", go(e[1]), e[2])
        if k == "asg":
            return ("asg", e[1], e[2], go(e[3]))
        return e
    return go(t)


def infix_count(e):
    k = e[0]
    if k in ("bin", "asg"):
        return 1 + infix_count(e[2]) + infix_count(e[3])
    if k == "is":
        return 1 + infix_count(e[1])
    if k in ("pre", "post"):
        return infix_count(e[2])
    if k in ("member",):
        return infix_count(e[1])
    if k == "index":
        return infix_count(e[1]) + infix_count(e[2])
    if k == "call":
        return infix_count(e[1]) + sum(infix_count(a) for a in e[2])
    if k == "arr":
        return sum(infix_count(a) for a in e[1])
    return 0


def depth(e):
    subs = [x for x in e[1:] if isinstance(x, tuple)] + [y for x in e[1:] if isinstance(x, list) for y in x]
    return 1 + max([depth(x) for x in subs] or [0])


# ---------------------------------------------------------------------------- long chains
# A chain is a sequence of atoms with an infix operator between neighbours.  Its tree under the documented levels is found
# by operator-precedence reduction over the sequence (no recursion: the chains go up to what a 64 KiB program holds), which
# gives, per atom, how many applications start and end there = the parentheses of the full form, and the value.
PROGRAM_LIMIT = 65536
CHAIN_PRE = "function inc(x) { return x + 1 }\nBEGIN { a = 3; b = 5; c = 7; s = \"x\"; t = \"10\"\n print "
CHAIN_POST = "\n}"
CHAIN_ENV = {"a": 3.0, "b": 5.0, "c": 7.0, "s": "x", "t": "10"}


def atom_tree(text):
    if text in CHAIN_ENV:
        return ("var", text)
    if text in ("true", "false", "null"):
        return ("lit", text)
    if text.startswith('"'):
        return ("str", text[1:-1])
    return ("num", text)


def atom_value(text):
    return ev(atom_tree(text), dict(CHAIN_ENV))


def reduce_chain(atoms, ops, want_tree=False):
    """(opens, closes, value, tree or None) of the left-to-right chain; raises RuntimeErr if any application fails"""
    n = len(atoms)
    opens, closes = [0] * n, [0] * n
    spans, vals, trees, opst = [], [], [], []

    def reduce():
        op = opst.pop()
        l2, h2 = spans.pop()
        l1, h1 = spans.pop()
        r, l = vals.pop(), vals.pop()
        opens[l1] += 1
        closes[h2] += 1
        spans.append((l1, h2))
        v = opref.binop(op, l, r)               # no operand has an effect or fails, so && || need no short circuit here
        if not finite_small(v):
            raise Unsuitable()
        vals.append(v)
        if want_tree:
            rt, lt = trees.pop(), trees.pop()
            trees.append(("bin", op, lt, rt))
    for i in range(n):
        spans.append((i, i))
        vals.append(atom_value(atoms[i]))
        if want_tree:
            trees.append(atom_tree(atoms[i]))
        if i < n - 1:
            while opst and LEVEL[opst[-1]] >= LEVEL[ops[i]]:
                reduce()
            opst.append(ops[i])
    while opst:
        reduce()
    return opens, closes, vals[0], (trees[0] if want_tree else None)


def chain_texts(atoms, ops, opens, closes):
    flat, full = [], []
    for i, a in enumerate(atoms):
        flat.append(a)
        full.append("(" * opens[i] + a + ")" * closes[i])
        if i < len(ops):
            flat.append(" " + ops[i] + " ")
            full.append(" " + ops[i] + " ")
    return "".join(flat), "".join(full)


CHAIN_FAMILIES = ["additive", "concat", "multiplicative", "comparison", "logical", "mixed", "one-op"]
NUM_ATOMS = ["1", "2", "3", "5", "7", "11", "0.5", "2.5", "10", "4", "a", "b", "c"]
ANY_ATOMS = NUM_ATOMS + ['"x"', '"10"', '"9"', '""', "s", "t", "true", "false", "null", "0"]


def gen_chain(rng, family, n):
    """(atoms, ops) with n atoms.  The right operand of * / % is always a single atom (nothing binds tighter between atoms),
    so a run of them is a left fold that is followed here: divisors are non-zero (integers for %), and the factors steer the
    running product back whenever it leaves the range where every result is a plainly printed double."""
    atoms, ops = [], []
    fixed = rng.choice(["-", "+", "*", "/", "%", "<", "==", "!=", ">=", "&&", "||"]) if family == "one-op" else None
    numeric = family in ("additive", "multiplicative") or fixed in ("-", "*", "/", "%")
    cur = None
    for i in range(n):
        for attempt in range(6):
            op = None
            if i > 0:
                big, tiny = abs(cur) > 1e6, abs(cur) < 1
                if fixed:
                    op = fixed
                elif family in ("additive", "concat"):
                    op = rng.choice(["+", "-"])
                elif family == "multiplicative":
                    op = rng.choice(["/", "%"]) if big else rng.choice(["*", "*", "/"]) if tiny else rng.choice(["*", "/", "%"])
                elif family == "comparison":
                    op = rng.choice(["==", "!=", "<", "<=", ">", ">="])
                elif family == "logical":
                    op = rng.choice(["&&", "||"])
                else:
                    op = rng.choice(["+", "-", "+", "-", "*", "/", "%", "*", "/", "%", "==", "!=", "<", "<=", ">", ">=", "&&", "||"])
                    if op == "*" and big:
                        op = "/"
            if op == "%":
                atom = rng.choice(["2", "3", "5", "7", "11", "4", "10", "a", "b", "c"])
            elif op == "/":
                atom = "0.5" if abs(cur) < 1e-3 else rng.choice(["2", "3", "5", "7", "11", "4", "10", "a", "b", "c", "2.5"])
            elif op == "*":
                atom = "0.5" if big else rng.choice(["10", "7"]) if abs(cur) < 1e-3 else rng.choice(["2", "3", "0.5", "2.5", "1", "a", "7"])
            elif numeric:
                atom = rng.choice(NUM_ATOMS)
            elif family == "concat":
                atom = rng.choice(NUM_ATOMS + ['"x"', "s"]) if rng.random() < 0.9 else rng.choice(['"10"', "t", "true", "null"])
            else:
                atom = rng.choice(ANY_ATOMS)
            v = opref.num(atom_value(atom))
            nxt = opref.binop(op, cur, v) if op in ("*", "/", "%") else v
            if nxt != 0 or op not in ("*", "/", "%") or cur == 0:
                break                   # a product that reaches 0 stays there: pick again while there is a choice
        if op is not None:
            ops.append(op)
        atoms.append(atom)
        cur = nxt
    return atoms, ops


class Unsuitable(Exception):
    pass


def finite_small(v):
    return not isinstance(v, float) or isinstance(v, bool) or (v == v and abs(v) < 1e15)


class C06(Check):
    pid = "C06"
    props = ["C06_syntax.v"]
    rule = ("expression trees over the 21 infix operators, prefix ! - + ++ --, postfix ++ --, call/index/member suffixes and "
            "literal/variable atoms (distinct primes, strings, booleans; assignment targets used once), each rendered with the "
            "minimal parentheses of the documented table and fully parenthesised; both run (value + all variables printed) and both "
            "parsed (AST dump); reference = own evaluation of the tree / own AST of the tree. thorough = every ordered pair and "
            "triple of infix operators under every legal tree shape, with and without prefix/suffix decoration, + random trees "
            "of depth <= 12; chains: flat sequences of 4 to ~9000 operands (operators of one level, of one operator, of all levels "
            "mixed, + with strings) against the fully parenthesised form found by precedence reduction, assignment chains, prefix "
            "operator chains, redundant and overriding parentheses, calls inside arguments, at every size up to the largest that "
            "fits a 64 KiB program (to 40 operands as trees against the model, larger on the implementation alone); "
            "bracket-terminated primaries (44 match expressions, object/array literals, calls, groups) as the LEFTMOST operand of every "
            "infix operator, of operator pairs/triples under every shape, of prefix/postfix operators and index/member/call suffixes, "
            "in print, argument, element and assignment positions, flat vs. the primary in its own parentheses; "
            "non-trivial = at least two infix operators and the minimal rendering omits parentheses")

    def project(self, r):
        if len(r.raw) == 5:         # PARSEEXPR: status and tree
            return (r.raw[0], r.raw[4])
        return r.proj(self.position, self.io)

    # ------------------------------------------------------------------ generation
    def discover_tags(self):
        res = run_impl(["LEX tg %s" % hx(" ".join(TOKTEXT)), "PARSEEXPR tr %s" % hx("/a/")])
        names = {}
        try:
            toks = res["tg"][0].split(",")
            if res["tg"][1] != "ok" or len(toks) != len(TOKTEXT) + 1:
                return None
            for t, n in zip(toks, TOKNAME):
                names[t.split(":")[0]] = n
            sx = sexpr_parse(unhx(res["tr"][4]).decode())
            names[sx[1]] = "Regex"
        except Exception:
            return None
        return names

    def generate(self, rng, tier):
        self.names = self.discover_tags()
        self.cases = []
        self.n = 0
        thorough = tier == "thorough"
        # pairs: every ordered pair, every shape
        for ops in itertools.product(ALLOPS, repeat=2):
            for sh in shapes(2):
                t = instantiate(sh, ops, rng)
                if t is not None:
                    self.add_tree(t, "pair " + " ".join(ops))
                    self.add_tree(decorate(t, rng), "pair+ " + " ".join(ops))
        # triples
        triples = list(itertools.product(ALLOPS, repeat=3))
        if not thorough:
            triples = rng.sample(triples, 250)
        for ops in triples:
            shs = shapes(3)
            if not thorough:
                shs = rng.sample(shs, 2)
            for sh in shs:
                t = instantiate(sh, ops, rng)
                if t is not None:
                    self.add_tree(t, "triple " + " ".join(ops))
                    if thorough or rng.random() < 0.5:
                        self.add_tree(decorate(t, rng), "triple+ " + " ".join(ops))
        # random trees
        nrand = 6000 if thorough else 500
        for i in range(nrand):
            d = rng.choice([2, 3, 4, 5, 6, 8, 10, 12])
            for _ in range(20):
                t = TreeGen(rng).expr(d)
                if infix_count(t) >= 2 and len(rmin(t)) < 600:
                    ref = reference(t)
                    if ref is not None and (ref[0] == "ok" or rng.random() < 0.15):
                        break
            self.add_tree(t, "random depth %d" % depth(t))
        self.chains(rng, thorough)
        self.primaries(rng, thorough)
        # parse-only trees
        for i in range(3000 if thorough else 300):
            t = free_tree(rng, rng.choice([2, 3, 4, 5, 7]))
            if len(rmin(t)) < 600:
                self.add_tree(t, "parse-only", run=False)
        return self.cases

    # ------------------------------------------------------------------ bracket-terminated primaries in front
    def primaries(self, rng, thorough):
        """a match expression, object/array literal, call or group as the LEFTMOST operand of every infix operator, of operator
        pairs and triples under every shape, under prefix and postfix operators and with index/member/call suffixes, flat
        against the form with the primary (and every application) in its own parentheses; as a print operand and inside
        other expression positions"""
        nonassign = [o for o in ALLOPS if o not in ASSIGN]
        pairs = [ops for ops in itertools.product(nonassign, ALLOPS)]
        triples = [ops for ops in itertools.product(nonassign, ALLOPS, ALLOPS)]
        for p in PRIMARIES:
            heads = prim_heads(p, rng)
            if not thorough and len(heads) > 4:
                heads = heads[:1] + rng.sample(heads[1:], 3)
            for h in heads:
                what = "primary %s" % p[1]
                trees = []
                for op in BIN:
                    right = ("str", rng.choice(["1", "b", "^A"])) if op in ("~", "!~") else ("num", rng.choice(["2", "3", "5", "7"]))
                    trees.append(("bin", op, h, right))
                trees.append(("is", h, rng.choice(["number", "null", "string", "array"])))
                for tgt in ("v0", "v1"):
                    trees.append(("asg", rng.choice(ASSIGN), ("var", tgt), ("bin", rng.choice(["+", "-", "*"]), h, ("num", "2"))))
                for pre in ("-", "!", "+"):
                    trees.append(("bin", rng.choice(BIN[:11]), ("pre", pre, h), ("num", "2")))
                if h[0] in ("member", "index") and h[1][0] == "prim" and h[1][2]["fresh"]:
                    for po in ("++", "--"):
                        trees.append(("post", po, h))
                        trees.append(("bin", rng.choice(["+", "*", "-", "<"]), ("post", po, h), ("num", "2")))
                for ops in rng.sample(pairs, 40 if thorough else 6):
                    for sh in shapes(2):
                        t = instantiate(sh, ops, rng)
                        t = replace_leftmost(t, h) if t is not None else None
                        if t is not None:
                            trees.append(t)
                for ops in rng.sample(triples, 15 if thorough else 4):
                    for sh in rng.sample(shapes(3), 2):
                        t = instantiate(sh, ops, rng)
                        t = replace_leftmost(t, h) if t is not None else None
                        if t is not None:
                            trees.append(t)
                for t in trees:
                    # where the expression stands: print operand (most), call argument, array element, right side of an assignment
                    k = rng.random()
                    if k < 0.1:
                        t = ("call", ("var", "inc"), [t])
                    elif k < 0.2:
                        t = ("index", ("arr", [t, ("num", "1")]), ("num", "0"))
                    elif k < 0.3 and t[0] != "asg":
                        t = ("asg", "=", ("var", "v5"), t)
                    self.add_tree(t, what)

    # ------------------------------------------------------------------ long chains
    def chains(self, rng, thorough):
        """flat chains against their fully parenthesised forms at every size: small ones as trees (run + parsed, against the
        model too), the rest on the implementation alone up to the largest that fits a 64 KiB program"""
        room = PROGRAM_LIMIT - len(CHAIN_PRE) - len(CHAIN_POST) - 64
        for fam in CHAIN_FAMILIES:
            small = [rng.randint(4, 8), rng.randint(9, 20), rng.randint(21, 40)] if not thorough else list(range(4, 41, 3))
            for n in small:
                for _ in range(10):
                    atoms, ops = gen_chain(rng, fam, n)
                    try:
                        _, _, _, tree = reduce_chain(atoms, ops, want_tree=True)
                    except (RuntimeErr, Unsuitable):
                        continue
                    # the tree's variables live in the common prelude under the same names and values
                    self.add_tree(tree, "chain %s of %d" % (fam, n))
                    break
            if thorough:
                big = [41, 64, 100, 127, 128, 129, 200, 255, 256, 257, 258, 300, 511, 512, 513, 1000, 1023, 1024, 1025, 2000, 2047, 2048,
                       2049, 3000, 4095, 4096, 4097, 5000, 7000] + [rng.randint(41, 8000) for _ in range(10)] + [None]
            else:
                big = [rng.randint(41, 150), rng.randint(150, 400), rng.randint(400, 1500), rng.randint(1500, 5000), None]
            for n in big:
                self.big_chain(rng, fam, n, room)
        for kind in ("assign", "prefix", "redundant", "override", "calls"):
            if thorough:
                sizes = [3, 10, 40, 100, 255, 256, 257, 300, 1000, 1024, 2048, 4096, 4097, 6000] + [rng.randint(41, 8000) for _ in range(6)] + [None]
            else:
                sizes = [rng.randint(3, 12), rng.randint(13, 40), rng.randint(41, 250), rng.randint(250, 1000), rng.randint(1000, 5000), None]
            for n in sizes:
                self.nest_chain(rng, kind, n, room)

    def big_chain(self, rng, fam, n, room):
        for _ in range(10):
            m = n if n is not None else room // 6
            atoms, ops = gen_chain(rng, fam, m)
            try:
                opens, closes, val, _ = reduce_chain(atoms, ops)
            except (RuntimeErr, Unsuitable):
                continue
            flat, full = chain_texts(atoms, ops, opens, closes)
            if n is None:
                # the largest chain whose full form still fits: cut at an atom and reduce again
                while len(full) > room:
                    m = int(m * room / len(full)) - 1
                    atoms, ops = atoms[:m], ops[:m - 1]
                    try:
                        opens, closes, val, _ = reduce_chain(atoms, ops)
                    except (RuntimeErr, Unsuitable):
                        break
                    flat, full = chain_texts(atoms, ops, opens, closes)
                if len(full) > room:
                    continue
            elif len(full) > room:
                return
            self.add_forms("chain %s of %d operands" % (fam, len(atoms)), flat, full, opref.pretty(val) + "\n", len(atoms))
            return

    def nest_chain(self, rng, kind, n, room):
        """nesting that is not a sequence of binary operators: assignments (group from the right), prefix operators,
        redundant parentheses, parentheses that override the grouping, calls inside arguments"""
        tail = ""
        if kind == "assign":
            n = n if n is not None else room // 16
            aops = [rng.choice(["=", "=", "+=", "-="]) for _ in range(n)]
            if rng.random() < 0.3:
                aops[rng.randrange(n)] = "*="           # everything to its left is then built on 0
            val = float(rng.choice([5, 7, 2.5, 11]))
            last = pyref.fmt_f(val) if hasattr(pyref, "fmt_f") else opref.pretty(val)
            names = ["x%d" % i for i in range(n)]
            flat = "".join("%s %s " % (v, o) for v, o in zip(names, aops)) + last
            full = "".join("(%s %s " % (v, o) for v, o in zip(names, aops)) + last + ")" * n
            vals = [None] * n
            for i in range(n - 1, -1, -1):      # an unset variable counts as 0 in a compound assignment
                val = val if aops[i] == "=" else opref.binop(aops[i][0], UNSET, val)
                vals[i] = val
            probe = sorted(set([0, n // 2, n - 1]))
            tail = "\n print " + ", ".join(names[i] for i in probe)
            want = opref.pretty(vals[0]) + "\n" + " ".join(opref.pretty(vals[i]) for i in probe) + "\n"
        elif kind == "prefix":
            n = n if n is not None else room // 3 - 4
            pops = [rng.choice(["-", "-", "!", "+"]) for _ in range(n)]
            atom = rng.choice(["5", "a", "0", '"x"', "2.5"])
            flat = " ".join(pops) + " " + atom
            full = "".join("(" + o for o in pops) + atom + ")" * n
            val = atom_value(atom)
            for o in reversed(pops):
                val = opref.unop(o, val)
            want = opref.pretty(val) + "\n"
        elif kind == "redundant":
            n = n if n is not None else room // 2 - 16
            where = rng.choice(["whole", "operand", "both"])
            k = n // 2 if where == "both" else n
            inner = "(" * k + "b" + ")" * k if where != "whole" else "b"
            flat = "a + " + inner + " * c"
            if where != "operand":
                flat = "(" * (n - k if where == "both" else n) + flat + ")" * (n - k if where == "both" else n)
            full = "(a + (b * c))"
            want = "38\n"
        elif kind == "override":
            n = n if n is not None else room // 7
            op = rng.choice(["-", "-", "<", "==", "!=", ">="]) if n > 12 else rng.choice(["-", "/", "%", "<", "=="])
            atoms = [rng.choice(["2", "3", "5", "7", "11", "a", "b"]) for _ in range(n)]
            flat = "".join("%s %s (" % (x, op) for x in atoms[:-1]) + atoms[-1] + ")" * (n - 1)
            full = "(" + flat + ")"
            try:
                val = atom_value(atoms[-1])
                for x in reversed(atoms[:-1]):
                    val = opref.binop(op, atom_value(x), val)
                    if not finite_small(val):
                        return
            except RuntimeErr:
                want = None
            else:
                want = opref.pretty(val) + "\n"
        else:
            n = n if n is not None else room // 7
            flat = "inc(" * n + "1" + ")" * n
            full = "(inc(" * n + "1" + "))" * n
            want = opref.pretty(float(n + 1)) + "\n"
        if max(len(flat), len(full)) + len(tail) > room:
            return
        self.add_forms("%s nesting of %d" % (kind, n), flat, full, want, n, tail)

    def add_forms(self, what, flat, full, want_stdout, n, tail=""):
        """two renderings of one expression that only the implementation runs (the model needs minutes for nesting this deep)"""
        key = "k%d" % self.n
        self.n += 1
        for form, text in (("minimal", flat), ("full", full)):
            cid = "%s%s" % (key, form[0])
            prog = CHAIN_PRE + text + tail + CHAIN_POST
            meta = {"what": what, "key": key, "form": form, "kind": "chainrun", "operands": n, "prog": prog,
                    "impl_only": "nesting of %d in a %d byte program: the extracted model needs minutes" % (n, len(prog)),
                    "line": simple_run(cid, prog)}
            if want_stdout is None:
                meta["want_outcome"], meta["want_stdout"] = "runtime", ""
            else:
                meta["want_outcome"], meta["want_stdout"] = "ok", want_stdout
            self.cases.append(Case(cid, None, meta, True, ("chain",)))

    def add_tree(self, t, what, run=True):
        a, b = rmin(t), rfull(t)
        key = "k%d" % self.n
        nontrivial = infix_count(t) >= 2 and a.count("(") < b.count("(")
        ref = reference(t) if run else None
        base = {"what": what, "key": key, "minimal": a, "full": b}
        if run:
            for form, text in (("minimal", a), ("full", b)):
                cid = "%s%s" % (key, form[0])
                meta = dict(base, form=form, kind="run", prog=program(text))
                if ref is not None:
                    meta["want_outcome"], meta["want_stdout"] = ref
                self.cases.append(Case(cid, simple_run(cid, program(text)), meta, nontrivial))
        try:
            want = want_ast(t) if self.names else None
        except Unsupported:
            want = None                     # trees with a written-out primary: the two renderings are compared with each other only
        for form, text in (("minimal", a), ("full", b)):
            cid = "%sp%s" % (key, form[0])
            meta = dict(base, form=form, kind="parse", src=text)
            if want:
                meta["want_ast"] = want
            self.cases.append(Case(cid, "PARSEEXPR %s %s" % (cid, hx(text)), meta, nontrivial))
        self.n += 1

    # ------------------------------------------------------------------ oracle
    def norm(self, case, res):
        if len(res.raw) != 5 or res.raw[0] != "ok":
            return "status:" + (res.raw[0] if res.raw else "noresult")
        return normalise(sexpr_parse(unhx(res.raw[4]).decode()), case.meta["src"].encode(), self.names or {})

    def oracle(self, case, impl):
        m = case.meta
        if m.get("kind") == "chainrun":
            want = (m["want_outcome"], m["want_stdout"].encode())
            got = (impl.outcome, impl.stdout)
            if got != want:
                return "%s rendering of a %s: reference evaluation gives %s, implementation %s; program: %s" % (
                    m["form"], m["what"], _short(want), _short(got), _short(m["prog"], 300))
            return None
        if m.get("kind") == "run" and "want_outcome" in m:
            want = (m["want_outcome"], m["want_stdout"].encode())
            got = (impl.outcome, impl.stdout)
            if got != want:
                return "%s rendering of the tree %s: reference evaluation gives %r, implementation %r" % (m["form"], m["full"], want, got)
        if m.get("kind") == "parse" and "want_ast" in m:
            if not getattr(self, "names", None):
                self.names = self.discover_tags()
            got = self.norm(case, impl)
            if got != m["want_ast"]:
                return "%s rendering %r parses to %s, the documented grammar gives %s" % (m["form"], m["src"], got, m["want_ast"])
        return None

    def extra(self, ctx):
        viol = []
        groups = {}
        # the long chains: implementation only
        big = [c for c in ctx["cases"] if c.meta.get("kind") == "chainrun"]
        res = run_impl([c.meta["line"] for c in big]) if big else {}
        by_key = {}
        for c in big:
            r = RunRes(res.get(c.id, []))
            if r.outcome in ("timeout", "noresult"):
                continue
            why = self.oracle(c, r)
            if why:
                viol.append((c, why))
            by_key.setdefault(c.meta["key"], []).append((c, r))
        for key, pair in by_key.items():
            if len(pair) == 2:
                (c0, r0), (c1, r1) = pair
                if (r0.outcome, r0.stdout) != (r1.outcome, r1.stdout):
                    viol.append((c1, "a %s and its fully parenthesised form differ: %s vs %s; programs: %s / %s" % (
                        c0.meta["what"], _short((r0.outcome, r0.stdout)), _short((r1.outcome, r1.stdout)),
                        _short(c0.meta["prog"], 200), _short(c1.meta["prog"], 200))))
        for c in ctx["cases"]:
            if "key" in c.meta and c.line:
                groups.setdefault((c.meta["key"], c.meta["kind"]), []).append(c)
        npairs = 0
        for (key, kind), cs in groups.items():
            if len(cs) != 2:
                continue
            ra, rb = RunRes(ctx["impl"].get(cs[0].id, [])), RunRes(ctx["impl"].get(cs[1].id, []))
            if kind == "run":
                if "timeout" in (ra.outcome, rb.outcome) or "noresult" in (ra.outcome, rb.outcome):
                    continue
                va, vb = (ra.outcome, ra.stdout), (rb.outcome, rb.stdout)
            else:
                va, vb = self.norm(cs[0], ra), self.norm(cs[1], rb)
            npairs += 1
            if va != vb:
                viol.append((cs[0], "%r and its fully parenthesised form %r differ (%s): %r vs %r"
                             % (cs[0].meta["minimal"], cs[0].meta["full"], kind, va, vb)))
        return viol, {"metamorphic_pairs": npairs + len(by_key), "long_chain_runs": len(big)}


def _short(v, n=120):
    t = v if isinstance(v, str) else repr(v)
    return t if len(t) <= n else t[:n // 2] + " ...(%d bytes)... " % len(t) + t[-n // 2:]


CHECK = C06()
