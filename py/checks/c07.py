"""C07: control flow executes statements in exactly the documented order, at any nesting.

Programs are generated as SKELETONS (Python data), rendered to jqawk text, and interpreted by the small
interpreter below (the README's statement semantics over an outcome algebra Normal/Break/Continue/Return/
Next/Exit/Error), which yields the expected label trace and outcome without looking at the model."""
import json, copy
from framework import Check, Case
from jqlib import simple_run
import pyref, opref, forinmut
from opref import UNSET, RuntimeErr


# ---------------------------------------------------------------------------- signals
class Brk(Exception):
    pass


class Cnt(Exception):
    pass


class Ret(Exception):
    def __init__(self, v):
        self.v = v


class Nxt(Exception):
    pass


class Ext(Exception):
    pass


class TooLong(Exception):
    pass


# ---------------------------------------------------------------------------- interpreter of skeletons
class Interp:
    def __init__(self, prog, docs, files=None):
        self.prog = prog
        self.docs = docs
        self.files = files          # [(name, [JSON values])] when a file holds several values; else one value per file
        self.file = None
        self.out = []
        self.g = {}
        self.root = None
        self.steps = 0
        self.params = []
        self.active = []

    # expressions
    def lookup(self, name):
        for fr in reversed(self.params):
            if name in fr:
                return fr, name
        return self.g, name

    def ev(self, e):
        k = e[0]
        if k == "n":
            return float(e[1])
        if k == "s":
            return e[1]
        if k == "b":
            return e[1]
        if k == "null":
            return None
        if k == "v":
            d, n = self.lookup(e[1])
            return d.get(n, UNSET)
        if k == "file":
            return self.file
        if k == "fld":
            v = self.root
            for p in e[1]:
                v = v.get(p) if isinstance(v, dict) else None
            return v
        if k == "op":
            l = self.ev(e[2])
            if e[1] == "&&":
                return opref.truthy(l) and opref.truthy(self.ev(e[3]))
            if e[1] == "||":
                return opref.truthy(l) or opref.truthy(self.ev(e[3]))
            return opref.binop(e[1], l, self.ev(e[3]))
        if k == "not":
            return not opref.truthy(self.ev(e[1]))
        if k in ("inc", "dec"):
            d, n = self.lookup(e[1])
            old = opref.num(d.get(n, UNSET))
            new = old + (1 if k == "inc" else -1)
            d[n] = new
            return old if e[2] else new
        if k == "set":
            v = self.ev(e[2])
            d, n = self.lookup(e[1])
            d[n] = v
            return v
        if k == "setkey":
            d, n = self.lookup(e[1])
            o, key, val = d.get(n), self.ev(e[2]), self.ev(e[3])
            if not isinstance(o, dict) or not isinstance(key, str):
                raise AssertionError("setkey outside the skeleton fragment")
            if key not in o and any(o is a for a in self.active):
                raise TooLong()         # growing an object while it is being iterated: not generated
            o[key] = val
            return val
        if k == "idx":
            b, i = self.ev(e[1]), self.ev(e[2])
            if isinstance(b, list) and isinstance(i, float):
                n = pyref.trunc_int64(i)
                if n < 0:
                    n += len(b)
                    if n < 0:
                        raise RuntimeErr("index out of range")
                return b[n] if n < len(b) else None
            if b is None:
                return None
            raise AssertionError("idx outside the skeleton fragment")
        if k == "len":
            b = self.ev(e[1])
            if isinstance(b, str):
                return float(len(b.encode()))
            if isinstance(b, (list, dict)):
                return float(len(b))
            raise AssertionError("len outside the skeleton fragment")
        if k == "arr":
            return [self.ev(x) for x in e[1]]
        if k == "obj":
            return {kk: self.ev(x) for kk, x in e[1]}
        if k == "meth":
            b = self.ev(e[1])
            if not isinstance(b, list):
                raise AssertionError("method outside the skeleton fragment")
            if e[2] == "popfirst":
                return b.pop(0) if b else None
            if e[2] == "pop":
                return b.pop() if b else None
            raise AssertionError("method outside the skeleton fragment")
        if k == "setfld":
            v = self.ev(e[2])
            if not isinstance(self.root, dict) or len(e[1]) != 1:
                raise AssertionError("setfld outside the skeleton fragment")
            self.root[e[1][0]] = v
            return v
        if k == "call":
            f = self.prog["funcs"][e[1]]
            args = [self.ev(a) for a in e[2]]
            fr = {}
            for i, p in enumerate(f["params"]):
                fr[p] = args[i] if i < len(args) else None
            self.params.append(fr)
            try:
                self.block(f["body"])
                return None
            except Ret as r:
                return r.v
            finally:
                self.params.pop()
        if k == "match":
            subj = self.ev(e[1])
            for pats, body in e[2]:
                hit = False
                for p in pats:
                    if p[0] == "bind":
                        hit = True
                        break
                    if subj is not UNSET and opref.binop("==", subj, self.ev(p)):
                        hit = True
                        break
                if hit:
                    if body[0] == "blk":
                        self.block(body[1])
                        return None
                    return self.ev(body[1])
            return None
        raise ValueError(e)

    # statements
    def block(self, stmts):
        for s in stmts:
            self.st(s)

    def tick(self):
        self.steps += 1
        if self.steps > 4000:
            raise TooLong()

    def st(self, s):
        self.tick()
        k = s[0]
        if k == "P":
            vals = [self.ev(x) for x in s[2]]
            self.out.append(" ".join([s[1]] + [opref.pretty(v) for v in vals]) + "\n")
        elif k == "B":
            self.block(s[1])
        elif k == "X":
            self.ev(s[1])
        elif k == "IF":
            if opref.truthy(self.ev(s[1])):
                self.st(s[2])
            elif s[3] is not None:
                self.st(s[3])
        elif k == "WH":
            n = 0
            while opref.truthy(self.ev(s[1])):
                n += 1
                if n > 300:
                    raise TooLong()
                try:
                    self.st(s[2])
                except Brk:
                    break
                except Cnt:
                    pass
        elif k == "FOR":
            self.ev(s[1])
            n = 0
            while opref.truthy(self.ev(s[2])):
                n += 1
                if n > 300:
                    raise TooLong()
                try:
                    self.st(s[4])
                except Brk:
                    break
                except Cnt:
                    pass
                self.ev(s[3])
        elif k == "FIN":
            it = self.ev(s[3])
            if isinstance(it, list):
                pairs = [(x, float(i)) for i, x in enumerate(list(it))]
            elif isinstance(it, dict):
                pairs = [(kk, it[kk]) for kk in sorted(it, key=lambda z: z.encode())]
            elif isinstance(it, str):
                pairs, off = [], 0
                for ch in it:
                    pairs.append((ch, float(off)))
                    off += len(ch.encode())
            else:
                raise RuntimeErr("not iterable")
            dv, nv = self.lookup(s[1])
            self.active.append(it)
            try:
                for a, b in pairs:
                    if s[2] is not None:
                        di, ni = self.lookup(s[2])
                        di[ni] = b
                    dv[nv] = a
                    try:
                        self.st(s[4])
                    except Brk:
                        break
                    except Cnt:
                        pass
            finally:
                self.active.pop()
        elif k == "BRK":
            raise Brk()
        elif k == "CNT":
            raise Cnt()
        elif k == "RET":
            raise Ret(self.ev(s[1]) if s[1] is not None else None)
        elif k == "NXT":
            raise Nxt()
        elif k == "EXT":
            raise Ext()
        else:
            raise ValueError(s)

    def rule_body(self, body, in_pattern):
        try:
            self.block(body)
        except Nxt:
            if in_pattern:
                return "next"
            raise RuntimeErr("next is not allowed here")
        return None

    def run(self):
        """returns (outcome, stdout)"""
        try:
            rules = self.prog["rules"]
            for r in rules:
                if r["kind"] == "BEGIN":
                    self.root = None
                    self.rule_body(r["body"], False)
            pats = [r for r in rules if r["kind"] == "pat"]
            files = self.files if self.files is not None else [("<test%d>" % (i + 1), [d]) for i, d in enumerate(self.docs)]
            for name, values in files:
                for doc in values:
                    self.file = name
                    for r in rules:
                        if r["kind"] == "BEGINFILE":
                            self.root = doc
                            self.rule_body(r["body"], False)
                    items = doc if isinstance(doc, list) else [doc]
                    for it in items:
                        self.root = it
                        for r in pats:
                            if r["pattern"] is not None and not opref.truthy(self.ev(r["pattern"])):
                                continue
                            if self.rule_body(r["body"], True) == "next":
                                break
                    for r in rules:
                        if r["kind"] == "ENDFILE":
                            self.root = doc
                            self.rule_body(r["body"], False)
            for r in rules:
                if r["kind"] == "END":
                    self.root = None
                    self.rule_body(r["body"], False)
        except Ext:
            return ("ok", "".join(self.out))
        except RuntimeErr:
            return ("runtime", "".join(self.out))
        return ("ok", "".join(self.out))


# ---------------------------------------------------------------------------- rendering
def rx(e):
    k = e[0]
    if k == "n":
        return pyref.fmt_f(float(e[1]))
    if k == "s":
        return '"' + e[1] + '"'
    if k == "b":
        return "true" if e[1] else "false"
    if k == "null":
        return "null"
    if k == "v":
        return e[1]
    if k == "file":
        return "$file"
    if k == "fld":
        return "$" + "".join("." + p for p in e[1])
    if k == "op":
        return "(%s %s %s)" % (rxo(e[2]), e[1], rxo(e[3]))
    if k == "meth":
        return "%s.%s()" % (rx(e[1]), e[2])
    if k == "setfld":
        return "$%s = %s" % ("".join("." + p for p in e[1]), rx(e[2]))
    if k == "not":
        return "!" + rx(e[1]) if e[1][0] in ("op", "v", "fld", "b") else "!(" + rx(e[1]) + ")"
    if k == "inc":
        return e[1] + "++" if e[2] else "++" + e[1]
    if k == "dec":
        return e[1] + "--" if e[2] else "--" + e[1]
    if k == "set":
        return "%s = %s" % (e[1], rx(e[2]))
    if k == "setkey":
        return "%s[%s] = %s" % (e[1], unparen(rx(e[2])), rx(e[3]))
    if k == "idx":
        return "%s[%s]" % (rx(e[1]), rx(e[2]))
    if k == "len":
        return "%s.length()" % rx(e[1])
    if k == "arr":
        return "[" + ", ".join(rx(x) for x in e[1]) + "]"
    if k == "obj":
        return "{" + ", ".join('"%s": %s' % (kk, rx(x)) for kk, x in e[1]) + "}"
    if k == "call":
        return "%s(%s)" % (e[1], ", ".join(rx(a) for a in e[2]))
    raise ValueError(e)


def rxo(e):
    """an operand: an assignment binds weaker than every operator"""
    return "(" + rx(e) + ")" if e[0] in ("set", "setfld", "setkey") else rx(e)


def unparen(t):
    return t[1:-1] if t.startswith("(") and t.endswith(")") and t.count("(") == 1 else t


def unparen_all(t):
    """t without the parentheses that enclose all of it"""
    if not (t.startswith("(") and t.endswith(")")):
        return t
    d = 0
    for i, ch in enumerate(t):
        d += (ch == "(") - (ch == ")")
        if d == 0 and i < len(t) - 1:
            return t
    return t[1:-1]


class Render:
    strip_all = False

    def __init__(self, rng):
        self.r = rng

    def cond(self, e):
        if self.strip_all:
            return unparen_all(rx(e)) if self.r.random() < 0.7 else rx(e)
        return unparen(rx(e)) if self.r.random() < 0.5 else rx(e)

    def match(self, e, ind):
        pad = " " * ind
        cases = []
        for pats, body in e[2]:
            ps = ", ".join("_" if p[0] == "bind" else rx(p) for p in pats)
            if body[0] == "blk":
                cases.append(pad + "  " + ps + " => {\n" + self.seq(body[1], ind + 4) + "\n" + pad + "  }")
            else:
                cases.append(pad + "  " + ps + " => " + rx(body[1]))
        sep = ",\n" if self.r.random() < 0.4 else "\n"
        return "match (%s) {\n%s\n%s}" % (rx(e[1]), sep.join(cases), pad)

    def seq(self, stmts, ind):
        """statements of one block, separated by newline or ';' (never ';' after a '}')"""
        pad = " " * ind
        out = ""
        for i, s in enumerate(stmts):
            t, _ = self.st(s, ind)
            out += pad + t
            if i < len(stmts) - 1:
                if t.rstrip().endswith("}"):
                    out += self.r.choice(["\n", "\n", " \n", "\n\n"])
                else:
                    out += self.r.choice(["\n", "\n", ";\n", "; \n", "\n\n", " # c\n"])
        return out

    def body(self, s, ind, force_brace=False):
        """a statement in body position: (text beginning on the same line, ends-with-open-if)"""
        if s[0] == "B" or force_brace or self.r.random() < 0.55:
            inner = s[1] if s[0] == "B" else [s]
            if not inner:
                return "{ }", False
            return "{\n" + self.seq(inner, ind + 2) + "\n" + " " * ind + "}", False
        t, open_if = self.st(s, ind + 2)
        if self.r.random() < 0.5:
            return "\n" + " " * (ind + 2) + t, open_if
        return t, open_if

    def st(self, s, ind):
        """(text, ends with an if that has no else and is not enclosed in braces)"""
        k = s[0]
        if k == "P":
            return "print " + ", ".join(['"%s"' % s[1]] + [rx(x) for x in s[2]]), False
        if k == "B":
            return self.body(s, ind, True)
        if k == "X":
            if s[1][0] == "match":
                return self.match(s[1], ind), False
            return unparen(rx(s[1])) if s[1][0] != "op" else rx(s[1]), False
        if k == "IF":
            if s[3] is None:
                t, _ = self.body(s[2], ind)
                return "if (%s) %s" % (self.cond(s[1]), t), True
            t, open_if = self.body(s[2], ind)
            if open_if:
                t, open_if = self.body(s[2], ind, True)
            # a bare `return` directly in front of `else` would take the else as its value: a line break ends it
            bare_return = t.rstrip().endswith("return")
            e, e_open = self.body(s[3], ind)
            glue = "\n" + " " * ind if (bare_return or self.r.random() < 0.4) else " "
            return "if (%s) %s%selse %s" % (self.cond(s[1]), t, glue, e), e_open
        if k == "WH":
            t, o = self.body(s[2], ind)
            return "while (%s) %s" % (self.cond(s[1]), t), o
        if k == "FOR":
            t, o = self.body(s[4], ind)
            return "for (%s; %s; %s) %s" % (unparen(rx(s[1])), self.cond(s[2]), unparen(rx(s[3])), t), o
        if k == "FIN":
            t, o = self.body(s[4], ind)
            vs = s[1] if s[2] is None else "%s, %s" % (s[1], s[2])
            return "for (%s in %s) %s" % (vs, rx(s[3]), t), o
        if k == "BRK":
            return "break", False
        if k == "CNT":
            return "continue", False
        if k == "RET":
            return ("return" if s[1] is None else "return " + unparen(rx(s[1]))), False
        if k == "NXT":
            return "next", False
        if k == "EXT":
            return "exit", False
        raise ValueError(s)

    def program(self, prog):
        parts = []
        for name, f in prog["funcs"].items():
            parts.append("function %s(%s) {\n%s\n}" % (name, ", ".join(f["params"]), self.seq(f["body"], 2)))
        for r in prog["rules"]:
            head = {"BEGIN": "BEGIN ", "END": "END ", "BEGINFILE": "BEGINFILE ", "ENDFILE": "ENDFILE ", "pat": ""}[r["kind"]]
            if r["kind"] == "pat" and r["pattern"] is not None:
                head = unparen(rx(r["pattern"])) + " "
            parts.append(head + "{\n" + self.seq(r["body"], 2) + "\n}")
        return "\n".join(parts)


# ---------------------------------------------------------------------------- skeleton generation
STRS = ["", "a", "héy", "€x", "ab", "日本", "q"]


class Gen:
    def __init__(self, rng, maxdepth=5):
        self.r = rng
        self.maxdepth = maxdepth
        self.nlabel = 0
        self.nvar = 0
        self.vars = []
        self.funcs = {}
        self.has_docs = True

    def label(self):
        self.nlabel += 1
        return "L%d" % self.nlabel

    def var(self, prefix):
        self.nvar += 1
        v = "%s%d" % (prefix, self.nvar)
        self.vars.append(v)
        return v

    def P(self, extra=()):
        return ("P", self.label(), list(extra))

    def data_array(self):
        r = self.r
        n = r.choice([0, 1, 2, 3, 3, 4])
        return [r.choice([1.0, 2.0, 3.0, 5.0, 0.0, "a", "b", "", True, False, None, 2.5]) for _ in range(n)]

    def iterable(self, ctx):
        """(expression, kind) of a for-in iterable"""
        r = self.r
        k = r.random()
        if ctx["pattern"] and k < 0.3:
            return ("fld", [r.choice(["items", "obj", "s"])])
        if k < 0.55:
            return ("arr", [("n", x) if isinstance(x, float) else ("s", x) if isinstance(x, str) else ("null",) if x is None else ("b", x)
                            for x in self.data_array()])
        if k < 0.75:
            keys = r.sample(["b", "a", "B", "é", "10", "9", "k", "aa", "Z", "_"], r.choice([0, 1, 2, 3, 4]))
            return ("obj", [(kk, ("n", float(i + 1))) for i, kk in enumerate(keys)])
        if k < 0.97:
            return ("s", r.choice(STRS))
        return r.choice([("n", 5.0), ("null",), ("b", True)])      # not iterable: runtime error

    def condition(self, ctx):
        r = self.r
        k = r.random()
        if ctx["pattern"] and k < 0.25:
            return r.choice([("op", ">", ("fld", ["n"]), ("n", float(r.randint(0, 3)))),
                             ("idx", ("fld", ["flags"]), ("n", float(r.randint(0, 3)))),
                             ("op", "==", ("fld", ["s"]), ("s", r.choice(STRS))),
                             ("not", ("fld", ["n"]))])
        if ctx["loopvars"] and k < 0.65:
            v = r.choice(ctx["loopvars"])
            return r.choice([("op", "==", ("op", "%", ("v", v), ("n", 2.0)), ("n", float(r.randint(0, 1)))),
                             ("op", r.choice(["<", ">", "==", ">=", "!="]), ("v", v), ("n", float(r.randint(0, 3)))),
                             ("op", "&&", ("op", ">", ("v", v), ("n", 0.0)), ("op", "<", ("v", v), ("n", 3.0)))])
        if k < 0.72:
            return ("b", r.random() < 0.6)
        g = "gcount"
        return ("op", "<", ("inc", g, True), ("n", float(r.randint(1, 6))))

    def control(self, ctx):
        r = self.r
        opts = []
        if ctx["inloop"]:
            opts += ["BRK", "CNT"] * 4
        if ctx["infunc"]:
            opts += ["RET"] * 3
        if ctx["pattern"] or ctx["infunc"] or r.random() < 0.15:
            opts += ["NXT"]
        if r.random() < 0.5:
            opts += ["EXT"]
        if not opts or (not ctx["inloop"] and not ctx["infunc"] and r.random() < 0.6):
            return self.P()
        c = r.choice(opts)
        if c == "RET":
            return ("RET", r.choice([None, ("n", float(r.randint(1, 9))), ("v", ctx["loopvars"][-1]) if ctx["loopvars"] else ("s", "r")]))
        return (c,)

    def guarded(self, s, ctx):
        """a control statement, usually under a condition so that the loop does something before it fires"""
        if self.r.random() < 0.9:
            c = self.condition(ctx)
            if c[0] == "b":
                c = self.condition(ctx)
            if self.r.random() < 0.3:
                return ("IF", c, self.P(), s)
            return ("IF", c, s, None if self.r.random() < 0.6 else self.P())
        return s

    def stmts(self, d, ctx, n=None):
        n = n or self.r.choice([1, 2, 2, 3, 3, 4])
        out = []
        for _ in range(n):
            out += self.stmt(d, ctx)
        return out

    def loopvar_prints(self, ctx):
        return [("v", v) for v in ctx["loopvars"][-2:]]

    def objstmt(self, d, ctx):
        """objects reached through two references: iterate through one, add keys through the other (alias or function parameter)"""
        r = self.r
        ob, al = r.choice(ctx["objs"])
        k = r.random()
        if k < 0.45:
            e = self.var("e")
            ix = self.var("x") if r.random() < 0.6 else None
            body = [self.P([("v", e)] + ([("v", ix)] if ix else []))]
            if r.random() < 0.3 and d > 0:
                body += self.stmts(d - 1, dict(ctx, inloop=True, objs=[]), 1)
            return [("FIN", e, ix, ("v", r.choice([ob, ob, al])), ("B", body))]
        num = ("v", ctx["loopvars"][-1]) if ctx["loopvars"] and r.random() < 0.6 else ("inc", "gcount", True)
        key = r.choice([("op", "+", ("s", r.choice(["k", "A", "z", "é"])), num), ("s", r.choice(["new", "b", "a", "0", "~"]))])
        if k < 0.75:
            return [("X", ("setkey", r.choice([al, al, ob]), key, r.choice([("n", 7.0), ("s", "v"), ("b", True)])))]
        if k < 0.92:
            return [("X", ("call", "tg", [("v", r.choice([ob, al])), key]))]
        return [self.P([("v", ob)])]

    def stmt(self, d, ctx):
        """a list of statements (a loop may come with its counter initialisation)"""
        r = self.r
        if ctx.get("objs") and r.random() < 0.18:
            return self.objstmt(d, ctx)
        k = r.random()
        if d <= 0 or k < 0.22:
            return [self.P(self.loopvar_prints(ctx) if r.random() < 0.5 else ())]
        if k < 0.36:
            c = self.condition(ctx)
            th = self.substmt(d - 1, ctx)
            el = self.substmt(d - 1, ctx) if r.random() < 0.5 else None
            return [("IF", c, th, el)]
        if k < 0.46:      # while
            w = self.var("w")
            bound = float(r.randint(0, 3))
            c2 = dict(ctx, inloop=True, loopvars=ctx["loopvars"] + [w])
            form = r.random()
            if form < 0.45:
                body = [("X", ("inc", w, True))] + self.stmts(d - 1, c2)
                return [("X", ("set", w, ("n", 0.0))), ("WH", ("op", "<", ("v", w), ("n", bound)), ("B", body)), self.P([("v", w)])]
            if form < 0.8:
                return [("X", ("set", w, ("n", 0.0))), ("WH", ("op", "<", ("inc", w, True), ("n", bound)), self.substmt(d - 1, c2)),
                        self.P([("v", w)])]
            body = [("X", ("inc", w, True)), ("IF", ("op", ">", ("v", w), ("n", bound)), ("BRK",), None)] + self.stmts(d - 1, c2)
            return [("X", ("set", w, ("n", 0.0))), ("WH", ("b", True), ("B", body)), self.P([("v", w)])]
        if k < 0.58:      # for
            i = self.var("i")
            c2 = dict(ctx, inloop=True, loopvars=ctx["loopvars"] + [i])
            form = r.random()
            bound = ("fld", ["n"]) if ctx["pattern"] and r.random() < 0.3 else ("n", float(r.randint(0, 4)))
            if form < 0.6:
                hdr = (("set", i, ("n", 0.0)), ("op", "<", ("v", i), bound), ("inc", i, r.random() < 0.5))
            elif form < 0.8:
                hdr = (("set", i, ("n", float(r.randint(0, 4)))), ("op", ">", ("v", i), ("n", 0.0)), ("dec", i, True))
            else:
                hdr = (("set", i, ("n", 0.0)), ("op", "<", ("v", i), ("n", float(r.randint(2, 6)))), ("set", i, ("op", "+", ("v", i), ("n", 2.0))))
            return [("FOR", hdr[0], hdr[1], hdr[2], self.substmt(d - 1, c2)), self.P([("v", i)])]
        if k < 0.74:      # for-in
            e = self.var("e")
            ix = self.var("x") if r.random() < 0.5 else None
            c2 = dict(ctx, inloop=True, loopvars=ctx["loopvars"])
            it = self.iterable(ctx)
            body = [self.P([("v", e)] + ([("v", ix)] if ix else []))] + self.stmts(d - 1, c2, r.choice([1, 1, 2]))
            tail = [self.P([("v", e)])] if r.random() < 0.4 else []
            return [("FIN", e, ix, it, ("B", body) if len(body) > 1 or r.random() < 0.5 else body[0])] + tail
        if k < 0.86:
            return [self.guarded(self.control(ctx), ctx)]
        if k < 0.92 and ctx["calls"]:
            f = r.choice(ctx["calls"])
            arg = [("n", float(r.randint(0, 3)))] if self.funcs[f]["params"] else []
            if r.random() < 0.5:
                return [("P", self.label(), [("call", f, arg)])]
            return [("X", ("call", f, arg))]
        if k < 0.97:      # match with block bodies
            subj = r.choice([("n", 1.0), ("n", 2.0), ("s", "a"), ("b", True), ("null",)] + [("v", v) for v in ctx["loopvars"][-1:]])
            cases = []
            for _ in range(r.randint(1, 3)):
                pats = [r.choice([("n", 1.0), ("n", 2.0), ("n", 0.0), ("s", "a"), ("s", "1"), ("b", True), ("null",)]) for _ in range(r.randint(1, 2))]
                cases.append((pats, ("blk", self.stmts(d - 1, ctx, r.choice([1, 2])))))
            if r.random() < 0.5:
                cases.append(([("bind",)], ("blk", self.stmts(d - 1, ctx, 1))))
            return [("X", ("match", subj, cases))]
        return [("B", self.stmts(d - 1, ctx))]

    def substmt(self, d, ctx):
        ss = self.stmt(d, ctx)
        return ss[0] if len(ss) == 1 and self.r.random() < 0.6 else ("B", ss)

    def program(self):
        r = self.r
        nf = r.choice([0, 1, 1, 2])
        names = []
        objs = [("ob%d" % (i + 1), "al%d" % (i + 1)) for i in range(r.choice([0, 0, 1, 1, 2]))]
        if objs:
            self.funcs["tg"] = {"params": ["tgo", "tgk"], "body": [("X", ("setkey", "tgo", ("v", "tgk"), ("n", 1.0)))]}
        for i in range(nf):
            name = "f%d" % (i + 1)
            params = ["p%d" % (i + 1)] if r.random() < 0.6 else []
            ctx = {"inloop": False, "infunc": True, "pattern": False, "loopvars": list(params), "calls": list(names), "objs": objs}
            self.funcs[name] = {"params": params, "body": None}
            self.funcs[name]["body"] = self.stmts(r.randint(1, self.maxdepth - 1), ctx) + ([("RET", ("n", float(10 + i)))] if r.random() < 0.5 else [])
            names.append(name)
        rules = []
        kinds = ["BEGIN"] * r.choice([0, 1, 1]) + ["pat"] * r.choice([0, 1, 1, 2, 3]) + ["END"] * r.choice([0, 1])
        if not kinds:
            kinds = ["BEGIN"]
        for kd in kinds:
            ctx = {"inloop": False, "infunc": False, "pattern": kd == "pat", "loopvars": [], "calls": list(names), "objs": objs}
            pattern = None
            if kd == "pat" and r.random() < 0.4:
                pattern = self.condition(dict(ctx, loopvars=[]))
            rules.append({"kind": kd, "pattern": pattern, "body": self.stmts(r.randint(1, self.maxdepth), ctx)})
        init = [("X", ("set", v, ("n", 0.0))) for v in self.vars + ["gcount"]]
        for ob, al in objs:
            keys = r.sample(["b", "a", "k1", "Z", "é", "new"], r.randint(0, 3))
            init.append(("X", ("set", ob, ("obj", [(kk, ("n", float(i + 1))) for i, kk in enumerate(keys)]))))
            init.append(("X", ("set", al, ("v", ob))))
        rules.insert(0, {"kind": "BEGIN", "pattern": None, "body": init})
        return {"funcs": self.funcs, "rules": rules}


def rand_docs(rng):
    def rec():
        return {"n": float(rng.randint(0, 3)), "flags": [rng.random() < 0.5 for _ in range(rng.randint(0, 4))],
                "items": [rng.choice([1.0, 2.0, "x", None, True, 7.5]) for _ in range(rng.randint(0, 3))],
                "obj": {k: float(i) for i, k in enumerate(rng.sample(["z", "a", "M", "é", "5", "40"], rng.randint(0, 4)))},
                "s": rng.choice(STRS)}
    k = rng.random()
    if k < 0.15:
        return []
    if k < 0.75:
        return [[rec() for _ in range(rng.randint(0, 4))]]
    if k < 0.9:
        return [rec()]
    return [[rec()], [rec(), rec()]]


def count_nest(prog):
    """(max loop nesting, control statement inside a loop?)"""
    best = [0, False]

    def st(s, loops):
        k = s[0]
        if k in ("WH", "FOR", "FIN"):
            best[0] = max(best[0], loops + 1)
            st(s[2] if k == "WH" else s[4], loops + 1)
        elif k == "IF":
            st(s[2], loops)
            if s[3] is not None:
                st(s[3], loops)
        elif k == "B":
            for x in s[1]:
                st(x, loops)
        elif k in ("BRK", "CNT", "RET", "NXT", "EXT") and loops:
            best[1] = True
        elif k == "X" and s[1][0] == "match":
            for _, body in s[1][2]:
                if body[0] == "blk":
                    for x in body[1]:
                        st(x, loops)
    for f in prog["funcs"].values():
        for s in f["body"]:
            st(s, 0)
    for r in prog["rules"]:
        for s in r["body"]:
            st(s, 0)
    return best


# ---------------------------------------------------------------------------- systematic skeletons (thorough tier)
def systematic(rng):
    """every ordered pair of loop kinds x every control statement x every position, with the control statement bare,
    under if, and under else"""
    out = []
    loops = ["WH", "WHpost", "FOR", "FINarr", "FINobj", "FINstr"]
    ctrls = ["BRK", "CNT", "RET", "NXT", "EXT", None]
    positions = ["outer-before", "outer-after", "inner-first", "inner-last"]
    wraps = ["bare", "if", "else", "match"]
    for lo in loops:
        for li in loops:
            for c in ctrls:
                for pos in positions:
                    for wr in wraps:
                        for host in ("BEGIN", "pat", "func"):
                            if c == "RET" and host != "func":
                                continue
                            if c is None and (wr != "bare" or pos != "outer-before"):
                                continue
                            out.append(build_systematic(lo, li, c, pos, wr, host))
    return out


def build_systematic(lo, li, c, pos, wr, host):
    n = [0]

    def P(extra=()):
        n[0] += 1
        return ("P", "L%d" % n[0], list(extra))

    def loop(kind, var, body):
        if kind == "WH":
            return [("X", ("set", var, ("n", 0.0))), ("WH", ("op", "<", ("v", var), ("n", 3.0)), ("B", [("X", ("inc", var, True))] + body))]
        if kind == "WHpost":
            return [("X", ("set", var, ("n", 0.0))), ("WH", ("op", "<", ("inc", var, True), ("n", 3.0)), ("B", body))]
        if kind == "FOR":
            return [("FOR", ("set", var, ("n", 0.0)), ("op", "<", ("v", var), ("n", 3.0)), ("inc", var, True), ("B", body))]
        if kind == "FINarr":
            return [("FIN", var, var + "x", ("arr", [("n", 1.0), ("n", 2.0), ("n", 3.0)]), ("B", body))]
        if kind == "FINobj":
            return [("FIN", var, var + "x", ("obj", [("b", ("n", 1.0)), ("a", ("n", 2.0)), ("c", ("n", 3.0))]), ("B", body))]
        return [("FIN", var, var + "x", ("s", "aéz"), ("B", body))]

    def second(kind, var):
        """the value that identifies the second iteration"""
        return {"WH": ("n", 2.0), "WHpost": ("n", 2.0), "FOR": ("n", 1.0), "FINarr": ("n", 2.0), "FINobj": ("s", "b"), "FINstr": ("s", "é")}[kind]

    ctrl = [] if c is None else [(c,) if c != "RET" else ("RET", ("n", 9.0))]
    which = ("o", lo) if pos.startswith("outer") else ("i", li)
    cond = ("op", "==", ("v", which[0]), second(which[1], which[0]))
    if ctrl:
        if wr == "bare":
            ctrl = [("IF", cond, ctrl[0], None)]
        elif wr == "if":
            ctrl = [("IF", cond, ("B", [P(), ctrl[0]]), P())]
        elif wr == "else":
            ctrl = [("IF", ("not", cond), P(), ctrl[0])]
        else:
            ctrl = [("X", ("match", cond, [([("b", True)], ("blk", [P(), ctrl[0]])), ([("bind",)], ("blk", [P()]))]))]
    inner_body = [P([("v", "o"), ("v", "i")])]
    if pos == "inner-first":
        inner_body = ctrl + inner_body
    elif pos == "inner-last":
        inner_body = inner_body + ctrl + [P()]
    inner = loop(li, "i", inner_body)
    outer_body = [P([("v", "o")])] + (ctrl if pos == "outer-before" else []) + inner + (ctrl if pos == "outer-after" else []) + [P()]
    top = [P()] + loop(lo, "o", outer_body) + [P([("v", "o"), ("v", "i")])]
    init = [("X", ("set", v, ("n", 0.0))) for v in ("o", "i", "ox", "ix")]
    funcs = {}
    if host == "func":
        funcs["f1"] = {"params": [], "body": top}
        rules = [{"kind": "BEGIN", "pattern": None, "body": init},
                 {"kind": "pat", "pattern": None, "body": [P(), ("P", "Lr", [("call", "f1", [])]), P()]},
                 {"kind": "END", "pattern": None, "body": [P()]}]
    else:
        rules = [{"kind": "BEGIN", "pattern": None, "body": init},
                 {"kind": host, "pattern": None, "body": top},
                 {"kind": "pat", "pattern": None, "body": [P()]},
                 {"kind": "END", "pattern": None, "body": [P()]}]
    return {"funcs": funcs, "rules": rules}, [[{"n": 1.0}, {"n": 2.0}]], "systematic %s>%s %s %s %s in %s" % (lo, li, c, pos, wr, host)


# ---------------------------------------------------------------------------- exit in every kind of rule
EXIT_HOSTS = ["BEGIN", "BEGINFILE", "pat", "ENDFILE", "END"]
EXIT_WRAPS = ["bare", "block", "else", "match", "func", "func2", "print-arg", "while", "for", "forin-arr", "forin-obj", "forin-str",
              "func-in-loop", "loop-in-func", "nested-loops", "in-pattern"]


def exit_files(rng, nfiles):
    """[(name, [JSON values])]: 1-3 values per file, mostly arrays of 1-3 scalars; now and then an empty array, a scalar, an object"""
    files, c = [], 0
    for f in range(nfiles):
        vals = []
        for _ in range(rng.choice([1, 2, 2, 3])):
            w = rng.random()
            if w < 0.72:
                v = []
                for _ in range(rng.randint(1, 3)):
                    c += 1
                    v.append(float(c))
            elif w < 0.8:
                v = []
            elif w < 0.9:
                c += 1
                v = float(c)
            else:
                c += 1
                v = {"n": float(c)}
            vals.append(v)
        files.append(("<test%d>" % (f + 1), vals))
    return files


def activations(host, files):
    if host in ("BEGIN", "END"):
        return 1
    if host == "pat":
        return sum(len(v) if isinstance(v, list) else 1 for _, vals in files for v in vals)
    return sum(len(vals) for _, vals in files)


def build_exit(rng, host, wrap, files, k, ctrl=("EXT",)):
    """a program with 1-2 rules of every kind (source order shuffled) whose rule number `which` of kind `host` executes exit
    -- directly or from inside a block / else / match body / function / two call levels / loop / function called in a loop /
    loop in a function / rule pattern -- during its k-th activation; labelled prints before and after everything"""
    n = [0]

    def P(extra=()):
        n[0] += 1
        return ("P", "L%d" % n[0], list(extra))

    funcs = {}
    hit = "hit"
    cond = ("op", "==", ("inc", hit, False), ("n", float(k)))

    def loop(kind, var, body):
        if kind == "while":
            return [("X", ("set", var, ("n", 0.0))), ("WH", ("op", "<", ("v", var), ("n", 3.0)), ("B", [("X", ("inc", var, True))] + body))]
        if kind == "for":
            return [("FOR", ("set", var, ("n", 1.0)), ("op", "<", ("v", var), ("n", 4.0)), ("inc", var, True), ("B", body))]
        if kind == "forin-arr":
            return [("FIN", var, None, ("arr", [("n", 1.0), ("n", 2.0), ("n", 3.0)]), ("B", body))]
        if kind == "forin-obj":
            return [("FIN", var + "k", var, ("obj", [("b", ("n", 2.0)), ("a", ("n", 1.0)), ("c", ("n", 3.0))]), ("B", body))]
        return [("FIN", var + "c", var, ("s", "xyzw"), ("B", body))]       # offsets 0 1 2 3

    second = ("op", "==", ("v", "lv"), ("n", 2.0))
    if wrap == "bare":
        stmts = [("IF", cond, ctrl, None)]
    elif wrap == "block":
        stmts = [("IF", cond, ("B", [P(), ctrl, P()]), P())]
    elif wrap == "else":
        stmts = [("IF", ("not", cond), P(), ctrl)]
    elif wrap == "match":
        stmts = [("X", ("match", cond, [([("b", True)], ("blk", [P(), ctrl, P()])), ([("bind",)], ("blk", [P()]))]))]
    elif wrap == "func":
        funcs["fx"] = {"params": [], "body": [P(), ctrl, P()]}
        stmts = [("IF", cond, ("B", [("X", ("call", "fx", [])), P()]), None)]
    elif wrap == "func2":
        funcs["fy"] = {"params": ["pa"], "body": [P([("v", "pa")]), ("IF", ("op", "==", ("v", "pa"), ("n", 7.0)), ctrl, None), P(), ("RET", ("n", 1.0))]}
        funcs["fx"] = {"params": [], "body": [P(), ("P", "Lr", [("call", "fy", [("n", 7.0)])]), P(), ("RET", ("n", 2.0))]}
        stmts = [("IF", cond, ("B", [("X", ("set", "res", ("call", "fx", []))), P([("v", "res")])]), None)]
    elif wrap == "print-arg":
        funcs["fx"] = {"params": [], "body": [P(), ctrl, ("RET", ("n", 5.0))]}
        stmts = [("IF", cond, ("P", "La", [("n", 1.0), ("call", "fx", [])]), None)]
    elif wrap in ("while", "for", "forin-arr", "forin-obj", "forin-str"):
        stmts = [("IF", cond, ("B", loop(wrap, "lv", [P([("v", "lv")]), ("IF", second, ctrl, None), P()]) + [P()]), None)]
    elif wrap == "func-in-loop":
        funcs["fx"] = {"params": ["pa"], "body": [P([("v", "pa")]), ("IF", ("op", "==", ("v", "pa"), ("n", 2.0)), ctrl, None), P()]}
        lk = rng.choice(["while", "for", "forin-arr", "forin-obj", "forin-str"])
        stmts = [("IF", cond, ("B", loop(lk, "lv", [("X", ("call", "fx", [("v", "lv")])), P()]) + [P()]), None)]
    elif wrap == "loop-in-func":
        lk = rng.choice(["while", "for", "forin-arr", "forin-obj", "forin-str"])
        funcs["fx"] = {"params": [], "body": [P()] + loop(lk, "lv", [P([("v", "lv")]), ("IF", second, ctrl, None), P()]) + [P()]}
        stmts = [("IF", cond, ("B", [("X", ("call", "fx", [])), P()]), None)]
    elif wrap == "nested-loops":
        lo, li = rng.choice(["while", "for", "forin-arr"]), rng.choice(["while", "for", "forin-arr", "forin-obj", "forin-str"])
        inner = loop(li, "lv", [P([("v", "ov"), ("v", "lv")]), ("IF", ("op", "&&", ("op", "==", ("v", "ov"), ("n", 2.0)), second), ctrl, None), P()])
        stmts = [("IF", cond, ("B", loop(lo, "ov", inner + [P()]) + [P()]), None)]
    else:       # in-pattern: the rule's pattern calls a function that executes exit
        funcs["fx"] = {"params": [], "body": [P(), ("IF", cond, ctrl, None), P(), ("RET", ("b", rng.random() < 0.7))]}
        stmts = []
    rules = []
    which = rng.choice([0, 0, 1])
    for kind in EXIT_HOSTS:
        cnt = rng.choice([1, 2, 2]) if kind != host else max(which + 1, rng.choice([1, 2, 3]))
        for j in range(cnt):
            extra = [("file",)] if kind in ("BEGINFILE", "pat", "ENDFILE") else []
            if kind == "pat" and not any(isinstance(v, dict) for _, vals in files for v in vals):
                extra.append(("fld", []))
            body = [P(extra)]
            pattern = None
            if kind == host and j == which:
                if wrap == "in-pattern":
                    pattern = ("call", "fx", [])
                body += stmts + [P()]
            elif rng.random() < 0.4:
                body.append(P())
            rules.append({"kind": kind, "pattern": pattern, "body": body})
    rng.shuffle(rules)
    init = [("X", ("set", v, ("n", 0.0))) for v in (hit, "lv", "ov", "lvk", "lvc", "res")]
    rules.insert(0, {"kind": "BEGIN", "pattern": None, "body": init})
    return {"funcs": funcs, "rules": rules}


def exit_family(rng, thorough):
    """[(prog, files, what, prog without the exit)]"""
    out = []
    for host in EXIT_HOSTS:
        for wrap in EXIT_WRAPS:
            if wrap == "in-pattern" and host != "pat":
                continue
            for nfiles in (1, 2, 3):
                reps = 3 if thorough else 1
                for rep in range(reps):
                    for _ in range(20):
                        files = exit_files(rng, nfiles)
                        acts = activations(host, files)
                        if acts >= 1:
                            break
                    else:
                        continue
                    ks = sorted({1, min(2, acts), acts, rng.randint(1, acts)}) if thorough else [rng.choice(sorted({1, 1, min(2, acts), max(1, acts - 1)}))]
                    for k in ks:
                        st = rng.getstate()
                        prog = build_exit(rng, host, wrap, files, k)
                        rng.setstate(st)
                        noexit = build_exit(rng, host, wrap, files, k, ("P", "Lnoexit", []))
                        out.append((prog, files, "exit in %s (%s), activation %d, %d file(s) holding %s value(s)" % (
                            {"pat": "a pattern rule"}.get(host, host), wrap, k, nfiles, "/".join(str(len(v)) for _, v in files)), noexit))
    return out


# ---------------------------------------------------------------------------- conditions with side effects
# while (C), for (..; C; ..) and if (C): C is evaluated exactly once per iteration / visit, whatever kinds of values it
# compares.  C takes the next job from a queue, advances a counter, reassigns a variable / a member of the document, calls a
# function that prints -- compared with strings, null, booleans as well as numbers, on either side, with every comparison
# operator, or used for its truth value alone.  Everything C changes is printed in the body and after the loop.

def V(n):
    return ("v", n)


def N(x):
    return ("n", float(x))


def S(x):
    return ("s", x)


NULL = ("null",)


def lit_expr(x):
    return ("n", x) if isinstance(x, float) else ("s", x) if isinstance(x, str) else NULL if x is None else ("b", x)


def cond_templates(rng, host):
    """[{init, cond, show, funcs, doc, what}]: every way a condition with a side effect is built; host "pat" may use the document"""
    T = []

    def add(what, cond, init=(), show=(), funcs=None, doc=None):
        T.append({"what": what, "cond": cond, "init": list(init), "show": list(show), "funcs": funcs or {}, "doc": doc})

    def queue(vals, what, mk):
        """the queue in a variable, and (pattern rules) in the document"""
        arr = ("arr", [lit_expr(x) for x in vals])
        for pm in ("popfirst", "pop"):
            add("%s, %s() from a variable" % (what, pm), mk(("meth", V("q"), pm)), [("X", ("set", "q", arr))], [V("job"), ("len", V("q"))])
        if host == "pat":
            pm = rng.choice(["popfirst", "popfirst", "pop"])
            add("%s, %s() from the document" % (what, pm), mk(("meth", ("fld", ["queue"]), pm)), [], [V("job"), ("len", ("fld", ["queue"]))],
                doc={"queue": list(vals)})

    strs = rng.sample(["a", "b", "c", "d", "e", "k", "héy", "w"], rng.randint(2, 5))
    nums = [float(rng.randint(1, 9)) for _ in range(rng.randint(2, 5))]
    take = lambda m: ("set", "job", m)
    # 1. drain a queue until null comes back
    for vals, kind in ((strs, "strings"), (nums, "numbers"), (strs[:2] + nums[:2] + [True], "mixed values")):
        queue(vals, "(job = next) != null over %s" % kind, lambda m: ("op", "!=", take(m), NULL))
        queue(vals, "null != (job = next) over %s" % kind, lambda m: ("op", "!=", NULL, take(m)))
        queue(vals, "!((job = next) == null) over %s" % kind, lambda m: ("not", ("op", "==", take(m), NULL)))
    # a null in the middle of numbers: only that evaluation compares a non-number
    holes = nums[:2] + [None] + nums[2:] + [float(rng.randint(1, 9)), None, 7.0]
    queue(holes, "(job = next) >= 0 over numbers with nulls between them", lambda m: ("op", ">=", take(m), N(0)))
    queue(holes, "0 <= (job = next) over numbers with nulls between them", lambda m: ("op", "<=", N(0), take(m)))
    # until a sentinel
    stop = strs[:]
    stop.insert(rng.randint(1, len(stop)), "stop")
    stop2 = stop + ["x", "stop"]
    queue(stop2, '(job = next) != "stop"', lambda m: ("op", "!=", take(m), S("stop")))
    both = ["stop"] + stop2
    queue(both + ["stop"], '"stop" == (job = next) while it is', lambda m: ("op", "==", S("stop"), take(m)))
    lo = sorted(strs, key=lambda z: z.encode())
    queue(["a", "b", "zz", "c", "a", "zz"], '(job = next) < "m" over strings', lambda m: ("op", "<", take(m), S("m")))
    queue(["zz", "y", "a", "x", "zz", "b"], '(job = next) > "m" over strings', lambda m: ("op", ">", take(m), S("m")))
    queue([True, True, False, True, True, False], "(job = next) == true over booleans", lambda m: ("op", "==", take(m), ("b", True)))
    queue(strs + [""] + strs, "job = next, for its truth value", lambda m: take(m))
    queue(strs + ["stop"] + strs + ["stop"], '(job = next) != null && job != "stop"',
          lambda m: ("op", "&&", ("op", "!=", take(m), NULL), ("op", "!=", V("job"), S("stop"))))
    queue(strs, "the method call itself compared with null", lambda m: ("op", "!=", m, NULL))
    queue(strs + strs[::-1], "two pops compared with each other", lambda m: ("op", "!=", m, m))
    # 2. a counter advanced in the condition, the bound not a number
    b = rng.randint(2, 5)
    for bound, bw in ((S(str(b)), "a string literal"), (V("lim"), "a string in a variable"), (("fld", ["s"]), "a string in the document")):
        if bound[0] == "fld" and host != "pat":
            continue
        doc = {"s": str(b)} if bound[0] == "fld" else None
        ini = [("X", ("set", "lim", S(str(b))))] if bound[0] == "v" else []
        for pre in (True, False):
            sp = "++i" if pre else "i++"
            add("%s < %s" % (sp, bw), ("op", "<", ("inc", "i", not pre), bound), ini, [V("i")], doc=doc)
        add("i++ <= %s" % bw, ("op", "<=", ("inc", "i", True), bound), ini, [V("i")], doc=doc)
        add("%s > i++" % bw, ("op", ">", bound, ("inc", "i", True)), ini, [V("i")], doc=doc)
        add("i++ != %s" % bw, ("op", "!=", ("inc", "i", True), bound), ini, [V("i")], doc=doc)
        add("!(++i == %s)" % bw, ("not", ("op", "==", ("inc", "i", False), bound)), ini, [V("i")], doc=doc)
        add("d-- > \"0\" (next to %s)" % bw, ("op", ">", ("dec", "d", True), S("0")), ini + [("X", ("set", "d", N(b)))], [V("d")], doc=doc)
    add("i++ < j-- (numbers on both sides)", ("op", "<", ("inc", "i", True), ("dec", "j", True)), [("X", ("set", "j", N(b + 3)))], [V("i"), V("j")])
    add("i++ < n (numbers)", ("op", "<", ("inc", "i", True), N(b)), [], [V("i")])
    add("i++ < true", ("op", "<", ("inc", "i", True), ("b", True)), [], [V("i")])
    add("d--, for its truth value", ("dec", "d", True), [("X", ("set", "d", N(b)))], [V("d")])
    # 3. an assignment in the condition
    add("(n = n - 1) > 0", ("op", ">", ("set", "n", ("op", "-", V("n"), N(1))), N(0)), [("X", ("set", "n", N(b + 1)))], [V("n")])
    add('(n = n - 1) > "0"', ("op", ">", ("set", "n", ("op", "-", V("n"), N(1))), S("0")), [("X", ("set", "n", N(b + 1)))], [V("n")])
    add('"0" < (n = n - 1)', ("op", "<", S("0"), ("set", "n", ("op", "-", V("n"), N(1)))), [("X", ("set", "n", N(b + 1)))], [V("n")])
    add("(n = n - 1) >= true", ("op", ">=", ("set", "n", ("op", "-", V("n"), N(1))), ("b", True)), [("X", ("set", "n", N(b + 1)))], [V("n")])
    piece = rng.choice(["a", "ab", "é"])
    add('(s = s + "%s") != "%s"' % (piece, piece * b), ("op", "!=", ("set", "s", ("op", "+", V("s"), S(piece))), S(piece * b)),
        [("X", ("set", "s", S("")))], [V("s")])
    add('(s = s + "%s") < "%s"' % (piece, piece * b), ("op", "<", ("set", "s", ("op", "+", V("s"), S(piece))), S(piece * b)),
        [("X", ("set", "s", S("")))], [V("s")])
    add("(f = !f) == true", ("op", "==", ("set", "f", ("not", V("f"))), ("b", True)), [("X", ("set", "f", ("b", False)))], [V("f")])
    if host == "pat":
        add('($.n = $.n - 1) >= "1"', ("op", ">=", ("setfld", ["n"], ("op", "-", ("fld", ["n"]), N(1))), S("1")), [], [("fld", ["n"])], doc={"n": float(b + 1)})
        add("($.n = $.n - 1) > 0", ("op", ">", ("setfld", ["n"], ("op", "-", ("fld", ["n"]), N(1))), N(0)), [], [("fld", ["n"])], doc={"n": float(b + 1)})
        add('($.s = $.s + "x") != "%s"' % ("x" * b), ("op", "!=", ("setfld", ["s"], ("op", "+", ("fld", ["s"]), S("x"))), S("x" * b)), [], [("fld", ["s"])],
            doc={"s": ""})
    # 4. a call that prints and counts
    for go, halt, op, other, w in (("go", None, "!=", NULL, 'tick() != null'), ("go", "halt", "==", S("go"), 'tick() == "go"'),
                                   (True, False, "==", ("b", True), "tick() == true"), (True, None, "!=", NULL, "tick() != null (true / null)"),
                                   ("a", "z", "<", S("m"), 'tick() < "m"'), (1.0, None, ">", NULL, "tick() > null"),
                                   (1.0, 0.0, ">", N(0), "tick() > 0 (numbers)"), ("go", "", None, None, "tick(), for its truth value")):
        fb = [("P", "Ltick", [V("c")]), ("X", ("inc", "c", True)), ("IF", ("op", ">", V("c"), N(b)), ("RET", lit_expr(halt)), None), ("RET", lit_expr(go))]
        call = ("call", "tick", [])
        for swapped in ((False, True) if op in ("!=", "==") else (False,)):
            cond = call if op is None else ("op", op, other, call) if swapped else ("op", op, call, other)
            add(w + (" (operands swapped)" if swapped else ""), cond, [("X", ("set", "c", N(0)))], [V("c")], {"tick": {"params": [], "body": fb}})
    fb = [("P", "Lnext", [V("pa"), V("c")]), ("X", ("inc", "c", True)), ("IF", ("op", ">=", V("c"), V("pa")), ("RET", NULL), None), ("RET", ("op", "+", S("k"), V("c")))]
    add('(m = more(n)) != null', ("op", "!=", ("set", "m", ("call", "more", [N(b)])), NULL), [("X", ("set", "c", N(0)))], [V("m"), V("c")],
        {"more": {"params": ["pa"], "body": fb}})
    add('i++ < "%d" && tick()' % (b + 2), ("op", "&&", ("op", "<", ("inc", "i", True), S(str(b + 2))), ("call", "tick", [])), [("X", ("set", "c", N(0)))], [V("i"), V("c")],
        {"tick": {"params": [], "body": [("P", "Ltick", [V("c")]), ("X", ("inc", "c", True)), ("RET", ("op", "<", V("c"), N(b)))]}})
    return T


COND_WRAPS = ["while", "for", "if-in-loop", "while-continue", "for-break", "nested", "while-in-func", "else-if"]


def build_cond(rng, t, wrap, host):
    n = [0]

    def P(extra=()):
        n[0] += 1
        return ("P", "L%d" % n[0], list(extra))

    show = t["show"]
    C = t["cond"]
    funcs = dict(t["funcs"])
    reset = [("X", ("set", "i", N(0))), ("X", ("set", "job", S("none")))] + t["init"]
    odd = ("op", "==", ("op", "%", V("k"), N(2)), N(1))
    if wrap == "while":
        core = reset + [("WH", C, ("B", [P(show), ("X", ("inc", "k", True))])), P(show + [V("k")])]
    elif wrap == "for":
        core = reset + [("FOR", ("set", "k", N(0)), C, ("inc", "k", rng.random() < 0.5), ("B", [P(show + [V("k")])])), P(show + [V("k")])]
    elif wrap == "if-in-loop":
        core = reset + [("FOR", ("set", "k", N(0)), ("op", "<", V("k"), N(rng.randint(3, 8))), ("inc", "k", True),
                         ("IF", C, P(show + [V("k")]), P(show) if rng.random() < 0.7 else None)), P(show + [V("k")])]
    elif wrap == "while-continue":
        core = reset + [("WH", C, ("B", [("X", ("inc", "k", True)), ("IF", odd, ("CNT",), None), P(show + [V("k")])])), P(show + [V("k")])]
    elif wrap == "for-break":
        core = reset + [("FOR", ("set", "k", N(0)), C, ("inc", "k", True),
                         ("B", [("IF", odd, ("CNT",), None), P(show + [V("k")]), ("IF", ("op", ">", V("k"), N(rng.randint(2, 6))), ("BRK",), None)])),
                        P(show + [V("k")])]
    elif wrap == "nested":
        inner = reset + [("WH", C, P(show + [V("o")])), P(show)]
        core = [("FOR", ("set", "o", N(0)), ("op", "<", V("o"), N(2)), ("inc", "o", True), ("B", inner)), P(show + [V("o")])]
    elif wrap == "while-in-func":
        funcs["drain"] = {"params": [], "body": reset + [("WH", C, ("B", [P(show), ("IF", ("op", ">", ("inc", "k", False), N(rng.randint(3, 9))), ("RET", V("k")), None)])),
                                                          ("RET", S("done"))]}
        core = [("P", "Lr", [("call", "drain", [])]), P(show + [V("k")])]
    else:       # else-if
        core = reset + [("FOR", ("set", "k", N(0)), ("op", "<", V("k"), N(rng.randint(3, 7))), ("inc", "k", True),
                         ("IF", ("op", "==", V("k"), N(1)), P(show), ("IF", C, P(show + [V("k")]), P(show)))), P(show + [V("k")])]
    init = [("X", ("set", v, N(0))) for v in ("i", "j", "k", "o", "c", "n", "d", "q", "s", "f", "m", "lim")] + [("X", ("set", "job", S("none")))]
    rules = [{"kind": "BEGIN", "pattern": None, "body": init}]
    if host == "BEGIN":
        rules.append({"kind": "BEGIN", "pattern": None, "body": [P()] + core})
        rules.append({"kind": "END", "pattern": None, "body": [P(show)]})
    else:
        rules.append({"kind": "pat", "pattern": None, "body": [P()] + core})
        rules.append({"kind": "pat", "pattern": None, "body": [P([("fld", [])])]})
        rules.append({"kind": "END", "pattern": None, "body": [P([V("k")])]})
    return {"funcs": funcs, "rules": rules}


def cond_family(rng, thorough):
    """[(prog, docs, what)]"""
    out = []
    for host in ("BEGIN", "pat"):
        for rep in range(3 if thorough else 1):
            for t in cond_templates(rng, host):
                wraps = COND_WRAPS if thorough else ["while", "for"] + rng.sample(COND_WRAPS[2:], 1)
                for wrap in wraps:
                    prog = build_cond(rng, t, wrap, host)
                    base = t["doc"] if t["doc"] is not None else {"n": 3.0, "s": "x"}
                    docs = [[dict(copy.deepcopy(base), id=float(j)) for j in range(rng.choice([1, 2]))]] if host == "pat" else []
                    out.append((prog, docs, "condition with a side effect: %s; as %s in %s" % (t["what"], wrap, "BEGIN" if host == "BEGIN" else "a pattern rule")))
    return out



DANGLING = [
    ('if (a) if (b) print "X" else print "Y"', lambda a, b, c: ["X"] if a and b else ["Y"] if a else []),
    ('if (a) if (b) print "X"\n else print "Y"', lambda a, b, c: ["X"] if a and b else ["Y"] if a else []),
    ('if (a)\n if (b)\n print "X"\n else\n print "Y"', lambda a, b, c: ["X"] if a and b else ["Y"] if a else []),
    ('if (a) { if (b) print "X" } else print "Y"', lambda a, b, c: (["X"] if b else []) if a else ["Y"]),
    ('if (a) if (b) print "X" else print "Y" else print "Z"', lambda a, b, c: (["X"] if b else ["Y"]) if a else ["Z"]),
    ('if (a) if (b) if (c) print "X" else print "Y" else print "Z"', lambda a, b, c: ((["X"] if c else ["Y"]) if b else ["Z"]) if a else []),
    ('if (a) print "X" else if (b) print "Y" else print "Z"', lambda a, b, c: ["X"] if a else ["Y"] if b else ["Z"]),
    ('if (a) while (w++ < 1) if (b) print "X" else print "Y"', lambda a, b, c: (["X"] if b else ["Y"]) if a else []),
    ('if (a) for (k in [1]) if (b) print "X" else print "Y"', lambda a, b, c: (["X"] if b else ["Y"]) if a else []),
    ('if (a) if (b) print "X"; else_ = 1', lambda a, b, c: ["X"] if a and b else []),
]


class C07(Check):
    pid = "C07"
    props = ["C07_control.v"]
    rule = ("structured tracing programs generated as skeletons: random nesting (depth <= 5) of if/else/while/for/for-in/blocks/"
            "match bodies/function calls with a uniquely labelled print around every statement, loop bounds driven by counters or "
            "the input document, break/continue/return/next/exit at arbitrary positions, for-in over arrays/objects (key order)/"
            "strings (multi-byte, empty) with and without the second variable, rendered with random braces/separators; expected "
            "trace from an independent interpreter of the skeleton. thorough adds every ordered pair of loop kinds x control "
            "statement x position x wrapper x host, and all dangling-else truth combinations; exit executed in every kind of rule "
            "(BEGIN, BEGINFILE, pattern rule, its pattern, ENDFILE, END; 1-3 rules of each kind in shuffled source order) x 16 ways of "
            "reaching it (bare, block, else, match body, function, two call levels, argument of print, the five loop kinds, function in "
            "a loop, loop in a function, nested loops) x 1-3 input files holding 1-3 values each x the activation at which it fires: "
            "nothing runs afterwards; for-in loops (arrays, objects, strings; "
            "held in a variable, a member, the document, a parameter) whose body changes the iterated collection (push / pop / "
            "popfirst / element stores / auto-fill / reassignment under guards, nested loops over the same array, `for (x in x)`): "
            "the elements present at loop start are visited once each, in order; conditions WITH SIDE EFFECTS -- (job = q.popfirst()) != null "
            "over strings / numbers / mixed values / numbers with nulls between them (queue in a variable or in the document), i++ < \"3\" and ++i, "
            "i-- with the bound a string literal / variable / document member, (n = n - 1) > \"0\", (s = s + \"a\") != \"aaa\", ($.n = $.n - 1) >= \"1\", "
            "(f = !f) == true, calls that print and count compared with null / strings / booleans, bare pop() calls, every comparison operator, either "
            "operand order, under !, && and alone for their truth value -- as the condition of while, of the three-clause for, of an if visited in "
            "a loop, with continue / break in the body, in a nested loop, in a function, in an else-if chain, in BEGIN and in pattern rules: "
            "everything the condition changes is printed in the body and after the loop (the condition is evaluated exactly once per "
            "iteration); non-trivial = a loop inside a loop "
            "or a control statement inside a loop, or >= 2 visits of a collection changed by the body")

    def generate(self, rng, tier):
        cases = []
        n = 0
        thorough = tier == "thorough"

        def add(prog, docs, what, nontrivial, renderings=1, files=None, strip_all=False):
            nonlocal n
            try:
                want = Interp(prog, copy.deepcopy(docs), files).run()      # the interpreter changes the documents in place
            except (TooLong, AssertionError):
                return False
            if len(want[1]) > 20000 or (what == "random" and want[1].count("\n") < 4 and rng.random() < 0.9):
                return False
            for _ in range(renderings):
                rd = Render(rng)
                rd.strip_all = strip_all
                text = rd.program(prog)
                cid = "t%d" % n
                n += 1
                if files is not None:
                    inputs = ["\n".join(json.dumps(v, ensure_ascii=False) for v in vals) for _, vals in files]
                else:
                    inputs = [json.dumps(d, ensure_ascii=False) for d in docs]
                cases.append(Case(cid, simple_run(cid, text, inputs), {"prog": text, "input": "\n".join(inputs) if files is None else inputs, "what": what,
                                                                        "want_outcome": want[0], "want_stdout": want[1]}, nontrivial))
            return True

        # dangling else, all truth combinations
        for text, fn in DANGLING:
            for a in (0, 1):
                for b in (0, 1):
                    for c in (0, 1):
                        prog = 'BEGIN { a = %d; b = %d; c = %d; w = 0\n print "S"\n %s\n print "E" }' % (a, b, c, text)
                        cid = "d%d" % n
                        n += 1
                        want = "".join(x + "\n" for x in ["S"] + fn(a, b, c) + ["E"])
                        cases.append(Case(cid, simple_run(cid, prog), {"prog": prog, "what": "dangling else", "want_outcome": "ok",
                                                                       "want_stdout": want}, True))
        # loops whose condition is a constant: the only way out is a break, placed in a then-branch, an else-branch, an else-if
        # chain, a nested block or behind an inner loop; whatever follows the loop in the same block runs (in a rule, in an if, in
        # a function before its return)
        its = "it 0\nit 1\nit 2\n"
        for cond in ["true", "1", "2.5", '"x"', "!false", "(true)", "1 == 1"]:
            for kind in ("while", "for"):
                for body in ['if (i >= 3) break\n print "it", i', 'if (i < 3) { print "it", i } else break',
                             'if (i < 2) { print "it", i } else if (i < 3) print "it", i else break',
                             'if (i < 3) print "it", i else { if (true) { break } }',
                             'if (i < 3) print "it", i else { while (true) { break }\n break }',
                             'if (i >= 3) { if (i < 0) print "neg" else break }\n print "it", i']:
                    loop = ("while (%s) { %s\n i++ }" % (cond, body)) if kind == "while" else ("for (j = 0; %s; i++) { %s }" % (cond, body))
                    prog = ('function fn() { i = 0\n %s\n print "after-fn", i\n return "r" }\nBEGIN { i = 0\n %s\n print "after", i\n'
                            ' if (true) { i = 0\n %s\n print "in-if", i }\n print fn()\n print "E" }' % (loop, loop, loop))
                    cid = "k%d" % n
                    n += 1
                    cases.append(Case(cid, simple_run(cid, prog), {"prog": prog, "what": "constant-condition loop, break placement", "want_outcome": "ok",
                                                                   "want_stdout": its + "after 3\n" + its + "in-if 3\n" + its + "after-fn 3\nr\nE\n"}, True))
        sysl = systematic(rng)
        if not thorough:
            sysl = rng.sample(sysl, 250)
        for prog, docs, what in sysl:
            add(prog, docs, what, True, 1)
        nrand = 12000 if thorough else 700
        made = 0
        while made < nrand:
            g = Gen(rng, rng.choice([2, 3, 4, 5, 5]))
            prog = g.program()
            docs = rand_docs(rng)
            nest = count_nest(prog)
            if add(prog, docs, "random", nest[0] >= 2 or nest[1], 2 if rng.random() < 0.3 else 1):
                made += 1
        # for-in whose body changes the collection being iterated
        def add_text(prog, inp, want, what, nontrivial=True):
            nonlocal n
            cid = "u%d" % n
            n += 1
            meta = {"prog": prog, "input": inp or "", "what": what}
            if want is not None:
                meta["want_outcome"], meta["want_stdout"] = want
            else:
                meta["note"] = "no documented expectation (slice reuse after pop / growing an iterated object): model agreement only"
            cases.append(Case(cid, simple_run(cid, prog, [inp] if inp is not None else []), meta, nontrivial))

        for rep in range(40 if thorough else 4):
            for prog, out in forinmut.self_loops(rng):
                add_text(prog, None, ("ok", out), "for-in whose loop variable is the iterated variable")
            for q in forinmut.queues(rng):
                add_text(q[0], q[2] if len(q) > 2 else None, ("ok", q[1]), "for-in over a work queue that the body changes")
        made = 0
        nmut = 6000 if thorough else 450
        while made < nmut:
            b = forinmut.build(rng)
            if b is None or (b["visits"] < 2 and rng.random() < 0.8):
                continue
            add_text(b["prog"], b["input"], b["want"], b["what"], b["visits"] >= 2)
            made += 1
        # exit executed in every kind of rule (and from functions / loops / matches / patterns reached from it), 1-3 files holding
        # several values each: nothing at all runs afterwards.  non-trivial = the same program without the exit prints more
        for prog, files, what, noexit in exit_family(rng, thorough):
            try:
                longer = len(Interp(noexit, None, files).run()[1]) > len(Interp(prog, None, files).run()[1])
            except (TooLong, AssertionError):
                longer = False
            add(prog, None, what, longer, 1, files)
        # conditions with side effects (while / for / if), compared with strings, null, booleans as well as numbers: evaluated
        # exactly once per iteration.  non-trivial = the body ran at least twice
        for prog, docs, what in cond_family(rng, thorough):
            try:
                want = Interp(prog, copy.deepcopy(docs)).run()
            except (TooLong, AssertionError):
                continue
            add(prog, copy.deepcopy(docs), what, want[1].count("\n") >= 5, 1, None, True)
        return cases

    def oracle(self, case, impl):
        m = case.meta
        if "want_outcome" not in m:
            return None
        if impl.outcome in ("timeout", "noresult"):
            return None
        want = (m["want_outcome"], m["want_stdout"].encode())
        got = (impl.outcome, impl.stdout)
        if got != want:
            w, g = want[1].decode("utf-8", "replace").splitlines(), got[1].decode("utf-8", "replace").splitlines()
            k = 0
            while k < min(len(w), len(g)) and w[k] == g[k]:
                k += 1
            return "%s: trace differs at line %d: documented %r (%s), implementation %r (%s)" % (
                m.get("what"), k + 1, w[k] if k < len(w) else "<end>", want[0], g[k] if k < len(g) else "<end>", got[0])
        return None


CHECK = C07()
