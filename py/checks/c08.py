"""C08: calls bind by position and value; completed calls and matches leave no residue."""
import os, re, json, random, copy
from framework import Check, Case
from jqlib import simple_run, RunRes, VERIF, run_impl, unhx
import pyref, callref, treeref


def call_depth_limit():
    """the limit the code under test has now (the translator writes it into Generated.v at every build)"""
    try:
        src = open(os.path.join(VERIF, "coq", "theories", "Gen", "Generated.v")).read()
        return int(re.search(r"Definition call_depth_limit : Z := (\d+)", src).group(1))
    except Exception:
        return 4096


# programs whose expectation is written down by hand: (program, input or None, outcome, stdout)
U = "<unknown>"
FIXED = [
    ("function f(a, b) { print a, b }\nBEGIN { f(1)\n f(1, 2, 3)\n f()\n f('x', [1]) }", None, "ok", "1 null\n1 2\nnull null\nx [1]\n"),
    ("function g() { print 'side'\n return 1 }\nfunction f(a) { return a }\nBEGIN { print f(7, g()) }", None, "ok", "side\n7\n"),
    ("function f(a) { a = a + 1\n loc = 5\n return a }\nfunction pr() { print a, loc }\nBEGIN { x = 1\n y = f(x)\n print x, y\n pr() }\nEND { print a, loc }",
     None, "ok", "1 2\n%s %s\n%s %s\n" % (U, U, U, U)),
    ("function f() { }\nfunction g() { return }\nfunction h() { if (false) return 1 }\nBEGIN { print f(), g(), h() }", None, "ok", "null null null\n"),
    ("function f(a) { g1 = a\n g2 = a }\nBEGIN { g1 = 0\n f(5)\n print g1\n}\nEND { print g2 }", None, "ok", "5\n%s\n" % U),
    ("BEGIN { x = match (1) { _ => 1 }\n print x }\nEND { print _ }", None, "ok", "1\n%s\n" % U),
    ("BEGIN { q = 1\n match ([1, 2]) { [p, q] => { print p, q } }\n print q }\nEND { print p }", None, "ok", "1 2\n1\n%s\n" % U),
    ("function f(a) { match (a) { 1 => { return 'one' },\n n => { return n * 2 } }\n return 'no' }\nBEGIN { print f(1), f(4)\n print f(1) }\nEND { print n }",
     None, "ok", "one 8\none\n%s\n" % U),
    ("function f(a) { for (i = 0; i < 9; i++) { if (i == a) { return i } }\n return 'end' }\nBEGIN { print f(3), f(20), f(0) }", None, "ok", "3 end 0\n"),
    ("function f(a) { for (e in [5, 6, 7]) { match (e) { 6 => { return e + a } } } }\nBEGIN { print f(1)\n print f(2) }", None, "ok", "7\n8\n"),
    ("function f(a) { if (a > 1) next\n return a }\n{ print 'a', f($) }\n{ print 'b', $ }\nEND { print 'end', a }", "[1, 2, 1, 3]",
     "ok", "a 1\nb 1\na 1\nb 1\nend %s\n" % U),
    ("function f(a) { if (a == 2) exit\n return a }\n{ print f($) }\nEND { print 'never' }", "[1, 2, 3]", "ok", "1\n"),
    ("function f(a) { return match (a) { 0 => 'z',\n m => f(m - 1) } }\n{ print f($) }\nEND { print m }", "[3, 0, 5]", "ok", "z\nz\nz\n%s\n" % U),
    ("{ y = match ($) { 2 => { next },\n v => v * 10 }\n print y }\nEND { print v }", "[1, 2, 3]", "ok", "10\n30\n%s\n" % U),
    ("function fact(n) { if (n <= 1) return 1\n return n * fact(n - 1) }\nBEGIN { print fact(5), fact(1), fact(10) }", None, "ok", "120 1 3628800\n"),
    ("function ev(n) { if (n == 0) return 'even'\n return od(n - 1) }\nfunction od(n) { if (n == 0) return 'odd'\n return ev(n - 1) }\nBEGIN { print ev(4), ev(7), od(2) }",
     None, "ok", "even odd odd\n"),
    ("function f(p, s) { p[0] = 9\n s = 9 }\nBEGIN { a = [1, 2]\n t = 1\n f(a, t)\n print a, t }", None, "ok", "[9, 2] 1\n"),
    ("function f(a) { return a + 1 }\nBEGIN { print f(f(f(1))), [f(1), f(2)][1], f(1) + f(2) * f(3), -f(1), !f(0 - 1) }", None, "ok", "4 3 14 -2 true\n"),
    ("function f(a) { return a > 1 }\nf($) { print $ }", "[1, 2, 3]", "ok", "2\n3\n"),
    ("function f() { return 5 }\nfunction g() { }\nfunction h(a) { if (a) return }\nBEGIN { f()\n print g()\n f()\n print h(1), f(), g() }", None, "ok", "null\nnull 5 null\n"),
    ("function f(a) { while (true) { if (a > 3) { return a }\n a++ } }\nBEGIN { x = 0\n print f(x), x }", None, "ok", "4 0\n"),
]


# ---------------------------------------------------------------- residue across SEQUENTIAL calls of one function
# Functions whose locals are READ BEFORE they are (conditionally) written: a local that survived an earlier call of the
# same function would be seen by a later one, although it stays invisible from the caller.

def _v(n):
    return ("var", n)


def _n(x):
    return ("num", x)


def residue_function(rng, k, made):
    """(name, params, body, local names, recursive?) of one function of the family; made: earlier functions (name, arity, recursive)"""
    name = "R%d" % k
    a, b, t, u, x = "a%d" % k, "b%d" % k, "t%d" % k, "u%d" % k, "x%d" % k
    thr = rng.randint(1, 5)
    kind = rng.choice(["condset", "condset", "accum", "count", "loopvar", "early", "rec", "rec2", "caller", "param", "matchname", "forvar", "arrlocal"])
    if kind == "caller" and not made:
        kind = "condset"
    val = rng.choice([("str", "big"), ("bin", "*", _v(a), _n(10)), _n(77), ("arr", [_v(a), _n(1)])])
    if kind == "condset":
        body = [("if", ("bin", rng.choice([">", "<", "=="]), _v(a), _n(thr)), [("assign", t, val)], None), ("return", _v(t))]
        return name, [a], body, [t], False
    if kind == "accum":
        body = [("assign", t, ("bin", "+", _v(t), _v(a))), ("return", _v(t))]
        if rng.random() < 0.5:
            body.insert(0, ("if", ("bin", "==", _v(a), _n(thr)), [("return", _n(-1))], None))
        return name, [a], body, [t], False
    if kind == "count":
        body = [("forin", x, ("arr", [_v(a), _n(1), _n(2)][:rng.randint(1, 3)]), [("incr", t)]), ("return", _v(t))]
        return name, [a], body, [t, x], False
    if kind == "loopvar":
        body = [("assign", u, _v(x)), ("forin", x, ("arr", [_v(a), _n(5)]), [("assign", "g0", ("bin", "+", _v("g0"), _n(1)))]), ("return", _v(u))]
        return name, [a], body, [u, x], False
    if kind == "forvar":
        body = [("assign", u, _v(x)), ("for", x, rng.randint(1, 3), [("assign", "g1", ("bin", "+", _v("g1"), _v(x)))]), ("return", _v(u))]
        return name, [a], body, [u, x], False
    if kind == "early":
        body = [("if", ("bin", "==", _v(a), _n(thr)), [("assign", t, _n(5)), ("return", _n(0))], None), ("return", _v(t))]
        return name, [a], body, [t], False
    if kind == "rec":
        # the local is created after the recursive call returned: every level makes (and loses) its own
        body = [("if", ("bin", ">", _v(a), _n(0)), [("expr", ("call", name, [("bin", "-", _v(a), _n(1))]))], None),
                ("assign", t, ("bin", "+", _v(t), _n(1))), ("return", _v(t))]
        return name, [a], body, [t], True
    if kind == "rec2":
        # an early return at the bottom of the recursion; the outermost level conditionally sets the local
        body = [("if", ("bin", "<=", _v(a), _n(0)), [("return", _v(t))], None),
                ("assign", u, ("call", name, [("bin", "-", _v(a), _n(1))])),
                ("if", ("bin", ">", _v(a), _n(thr)), [("assign", t, ("str", "deep"))], None),
                ("return", _v(u))]
        return name, [a], body, [t, u], True
    if kind == "caller":
        f, ar, rec = rng.choice(made)
        c1 = ("call", f, [_v(a)][:ar])
        c2 = ("call", f, [_n(rng.randint(0, 2))][:ar])
        body = [("print", [("str", name), c1, c2]), ("if", ("bin", ">", _v(a), _n(thr)), [("assign", t, _n(1))], None), ("return", _v(t))]
        return name, [a], body, [t], rec
    if kind == "param":
        # a missing argument is null in every call, whatever an earlier call stored in the parameter
        body = [("if", ("bin", ">", _v(a), _n(thr)), [("assign", b, _n(7)), ("assign", t, _v(b))], None), ("return", ("arr", [_v(b), _v(t)]))]
        return name, [a, b], body, [t], False
    if kind == "arrlocal":
        body = [("if", ("bin", ">", _v(a), _n(thr)), [("assign", t, ("arr", [_v(a), _n(2)]))], None),
                ("if", ("bin", "==", _v(t), ("null",)), [("return", ("str", "none"))], None), ("return", _v(t))]
        return name, [a], body, [t], False
    # matchname: a name bound by a pattern inside the call, read at the start of the next call
    m = "m%d" % k
    body = [("assign", u, _v(m)), ("expr", ("match", _v(a), [([("plit", float(thr))], "block", [("return", ("str", "lit"))]),
                                                             ([("pname", m)], "block", [("assign", "g2", _v(m))])])), ("return", _v(u))]
    return name, [a], body, [u, m], False


def residue_program(rng):
    funcs, made, names = [], [], []
    for k in range(rng.randint(1, 3)):
        name, params, body, locs, rec = residue_function(rng, k, made)
        funcs.append((name, params, body))
        made.append((name, 1, rec))
        names += params + locs

    def call(arg):
        f, ar, rec = rng.choice(made)
        if rec and arg[0] == "num":
            arg = _n(min(arg[1], 6))
        return ("call", f, [arg])

    def calls(mk):
        out = []
        for _ in range(rng.randint(2, 6)):
            c = call(mk())
            out.append(("print", [("str", c[1]), c]) if rng.random() < 0.8 else ("assign", "g3", c))
            if rng.random() < 0.2:
                out.append(("expr", ("call", "pr_", [])))      # a probe from the top level would CREATE the names there as globals
        return out
    begin = [("assign", g, _n(i + 1)) for i, g in enumerate(callref.GLOBALS)]
    begin += calls(lambda: _n(rng.randint(0, 8)))
    rules = []
    if rng.random() < 0.7:
        body = calls(lambda: rng.choice([("dollar",), ("dollar",), _n(rng.randint(0, 8))]))
        rules.append((None if rng.random() < 0.7 else ("bin", "<", ("dollar",), _n(6)), body))
    end = calls(lambda: _n(rng.randint(0, 8)))
    names = sorted(set(names))
    funcs.append(("pr_", [], [("print", [("str", "P")] + [_v(x) for x in names])]))
    end.append(("expr", ("call", "pr_", [])))
    end.append(("print", [("str", "D")] + [_v(x) for x in names] + [_v(g) for g in callref.GLOBALS]))
    if rng.random() < 0.5:
        rng.shuffle(funcs)
    return {"funcs": funcs, "begin": begin, "rules": rules, "end": end}


# ---------------------------------------------------------------- a MISSING location passed as an argument
# f(o.b), f(arr[3]), f(o.no.such.path), f($.missing): the parameter is the callee's own variable holding null.  Whatever the
# callee does with it (assign, ++, op=, use it as a container) the caller's object / array / the input document stay as they were.

MA_OBJ = {"a": 1.0, "s": "x", "sub": {"k": 2.0}, "l": [1.0, 2.0]}
MA_ARR = [1.0, [2.0], {"k": 3.0}]
MA_MISSING_OBJ = [["b"], ["zz"], ["sub", "none"], ["sub", "k2", "deep"], ["no", "such", "path"], ["l", 2.0], ["l", 5.0], ["l", 3.0, "x"],
                  ["q", 0.0], ["q", 1.0, "z"], ["x y"], ["sub", "l", 2.0]]
MA_EXISTING_OBJ = [["a"], ["l", 0.0], ["sub", "k"], ["l", -1.0]]
MA_MISSING_ARR = [[3.0], [7.0], [1.0, 4.0], [2.0, "z"], [7.0, "a"], [1.0, 1.0, 0.0], [2.0, "k2", 1.0], [3.0, 0.0]]
MA_EXISTING_ARR = [[0.0], [1.0, 0.0], [2.0, "k"], [-3.0]]
# what the callee does with the parameter P: [(kind, keys, value)]
MA_ACTIONS = [
    [("set", [], 7.0)], [("set", [], "str")], [("inc", [], 1.0)], [("dec", [], 1.0)], [("preinc", [], 1.0)], [("op", [], ("+", 2.0))],
    [("op", [], ("*", 3.0))], [("ifnull", [], 0.0)], [("ifnull", [], "dflt")], [("set", [], [1.0]), ("set", [1.0], 2.0)],
    [("set", [], {"k": 1.0}), ("set", ["j"], 2.0)], [("set", [], 7.0), ("inc", [], 1.0)],
    # the parameter used as a container
    [("set", ["k"], 1.0)], [("set", [0.0], 1.0)], [("set", [2.0], 5.0)], [("set", ["x", "y"], 1.0)], [("inc", ["k"], 1.0)], [("inc", [1.0], 1.0)],
    [("op", ["k"], ("+", 2.0))], [("set", ["k", 0.0], "v")],
]


def ma_action_src(actions, P, rng):
    out = []
    for kind, keys, val in actions:
        t = treeref.src_path(P, keys, rng)
        if kind == "set":
            out.append("%s = %s" % (t, pyref.literal(val)))
        elif kind == "inc":
            out.append("%s++" % t)
        elif kind == "dec":
            out.append("%s--" % t)
        elif kind == "preinc":
            out.append("pre_ = ++%s" % t)      # a line starting with ++ would continue the previous statement
        elif kind == "op":
            out.append("%s %s= %s" % (t, val[0], pyref.literal(val[1])))
        else:
            out.append("if (%s == null) { %s = %s }" % (t, t, pyref.literal(val)))
    return out


def ma_apply(actions, v):
    """value of the parameter after the callee's statements; raises treeref.RErr where a runtime error is documented"""
    env = {"P": copy.deepcopy(v)}
    for kind, keys, val in actions:
        if kind == "set":
            treeref.store(env, "P", keys, copy.deepcopy(val))
        elif kind in ("inc", "dec", "preinc"):
            old = pyref.num(treeref.read(env, "P", keys))
            treeref.store(env, "P", keys, old + (-1.0 if kind == "dec" else 1.0))
        elif kind == "op":
            treeref.store(env, "P", keys, pyref.binop(val[0], treeref.read(env, "P", keys), val[1]))
        elif treeref.read(env, "P", keys) is None:
            treeref.store(env, "P", keys, val)
    return env["P"]


def missing_arg_case(rng):
    """(program, input or None, outcome, stdout, final document or None, description) or None when outside the reference"""
    host = rng.choice(["begin-obj", "begin-arr", "rule", "beginfile-arr", "local"])
    if host in ("begin-obj", "rule", "local"):
        data, missing, existing = MA_OBJ, MA_MISSING_OBJ, MA_EXISTING_OBJ
    else:
        data, missing, existing = MA_ARR, MA_MISSING_ARR, MA_EXISTING_ARR
    base = "$" if host in ("rule", "beginfile-arr") else "o"
    arity = rng.randint(1, 3)
    j = rng.randrange(arity)
    control = rng.random() < 0.12
    actions = rng.choice(MA_ACTIONS[:12] if control else MA_ACTIONS)
    args, vals = [], []
    for i in range(arity):
        if i == j:
            keys = rng.choice(existing if control else missing)
        elif rng.random() < 0.5:
            keys = rng.choice(missing)
        else:
            keys = None
        if keys is None:
            c = float(100 * (i + 1))
            args.append(pyref.literal(c))
            vals.append(c)
        else:
            args.append(treeref.src_path(base, keys, rng))
            try:
                vals.append(copy.deepcopy(treeref.read({base: copy.deepcopy(data)}, base, keys)))
            except (treeref.RErr, treeref.Unspecified):
                return None
    # a second parameter is overwritten as well, now and then
    other = rng.choice([i for i in range(arity) if i != j]) if arity > 1 and rng.random() < 0.4 else None
    levels = rng.choice(["direct", "direct", "through", "permuted", "both", "both"])
    params = ["p%d" % (i + 1) for i in range(arity)]
    qs = ["q%d" % (i + 1) for i in range(arity)]
    body = ma_action_src(actions, params[j], rng)
    if other is not None:
        body.append("%s = 9" % params[other])
    funcs = "function f(%s) {\n %s\n return %s\n}\n" % (", ".join(params), "\n ".join(body), params[j])
    err = False
    try:
        inner = ma_apply(actions, vals[j])
    except (treeref.RErr, pyref.RuntimeErr):
        err = True
        inner = None
    except treeref.Unspecified:
        return None
    result = inner
    callee = "f"
    if levels == "through":
        funcs += "function g(%s) {\n return f(%s)\n}\n" % (", ".join(qs), ", ".join(qs))
        callee = "g"
    elif levels == "permuted":
        # the outer function hands its parameters on in rotated order; f still changes its own j-th parameter
        rot = rng.randrange(arity)
        order = [(i + rot) % arity for i in range(arity)]
        funcs += "function g(%s) {\n return f(%s)\n}\n" % (", ".join(qs), ", ".join(qs[i] for i in order))
        callee = "g"
        src_j = order[j]
        try:
            result = ma_apply(actions, vals[src_j])
            err = False
        except (treeref.RErr, pyref.RuntimeErr):
            err = True
        except treeref.Unspecified:
            return None
        # which caller expression ends up in f's j-th parameter: make sure it is one of the probed kind
        if isinstance(vals[src_j], float) and vals[src_j] >= 100 and rng.random() < 0.8:
            return None
    elif levels == "both":
        # both levels change their own copy: the outer one after the inner call returned
        act2 = rng.choice(MA_ACTIONS[:12])
        b2 = ma_action_src(act2, qs[j], rng)
        funcs += "function g(%s) {\n r_ = f(%s)\n %s\n return [r_, %s]\n}\n" % (", ".join(qs), ", ".join(qs), "\n ".join(b2), qs[j])
        callee = "g"
        if not err:
            try:
                result = [inner, ma_apply(act2, vals[j])]
            except (treeref.RErr, pyref.RuntimeErr):
                err = True
            except treeref.Unspecified:
                return None
    call = "%s(%s)" % (callee, ", ".join(args))
    lit = pyref.literal(data)
    pd = pyref.pretty(data)
    use = rng.choice(["print 'r', %s" % call, "res = %s\n print 'r', res" % call, "print 'r', [%s][0]" % call])
    stmts = "print 'o', %s\n %s\n print 'o', %s" % (base, use, base)
    if host in ("begin-obj", "begin-arr"):
        prog, inp = funcs + "BEGIN {\n o = %s\n %s\n}\nEND { print 'e', o }" % (lit, stmts), None
        tail = "e %s\n" % pd
    elif host == "local":
        # the container is a local of the calling function
        prog, inp = funcs + "function h(o) {\n o = %s\n %s\n return o\n}\nBEGIN { print 'e', h() }" % (lit, stmts), None
        tail = "e %s\n" % pd
    elif host == "rule":
        prog, inp = funcs + "{\n %s\n}\nEND { print 'e' }" % stmts, json.dumps(data)
        tail = "e\n"
    else:
        prog, inp = funcs + "BEGINFILE {\n %s\n}\nENDFILE { print 'e', $ }" % stmts, json.dumps(data)
        tail = "e %s\n" % pd
    unchanged = "o %s\n" % pd
    if err:
        outcome, out = "runtime", unchanged
    else:
        outcome, out = "ok", unchanged + "r %s\n" % pyref.pretty(result) + unchanged + tail
    what = "%s passed as argument %d of %d (%s), callee: %s" % ("an existing scalar member" if control else "a missing location", j + 1, arity, levels,
                                                            "; ".join(body))
    return prog, inp, outcome, out, (data if inp is not None else None), what, unchanged


# ---------------------------------------------------------------- names bound by an alternative that then FAILS
# match (s) { [count, "set"], [n, "add"] => ... }: with s = [7, "add"] the first alternative binds count before its second
# position fails.  Only the alternative that matched binds names: count in the body is the global, and an assignment to it persists.

MB_NAMES = ["count", "n", "x", "y", "t"]


def mb_kinds(rng):
    """the kind of value at each position (the same in every subject of a program: literals are only compared with their own kind)"""
    ks = [rng.choice(["num", "num", "str", "str", ["num", "str"], ["str", "num", "num"]]) for _ in range(3)]
    return ks


def mb_subject(rng, kinds, n=None):
    out = []
    for kd in kinds[:n or rng.randint(1, 3)]:
        if kd == "num":
            out.append(float(rng.randint(1, 9)))
        elif kd == "str":
            out.append(rng.choice(["add", "set", "del"]))
        else:
            out.append(mb_subject(rng, kd, len(kd)))
    return out


def mb_never(rng, v):
    return rng.choice([77.0, 555.0]) if isinstance(v, float) else rng.choice(["zzz", "never"])


def mb_pattern(rng, subj, names, fail):
    """an array pattern shaped like subj; names taken (without repetition) from `names`; with fail, one position holds a literal
    that never matches, placed so that names are bound before it whenever possible (also inside a nested pattern)"""
    names = list(names)
    rng.shuffle(names)
    n = len(subj)
    bad = None
    if fail:
        bad = rng.choice([i for i in range(n) if i > 0] or [0]) if rng.random() < 0.8 else rng.randrange(n)

    def one(i, v):
        if isinstance(v, list):
            if i == bad:
                # the failure sits inside the nested pattern: a name is bound there first, when one is left
                inner = [("plit", mb_never(rng, x)) for x in v]
                if names and len(v) > 1 and rng.random() < 0.7:
                    inner[0] = ("pname", names.pop())
                return ("parr", inner)
            if names and rng.random() < 0.4:
                return ("pname", names.pop())
            return ("parr", [one(None, x) for x in v])
        if i == bad:
            return ("plit", mb_never(rng, v))
        if names and rng.random() < (0.75 if fail else 0.5):
            return ("pname", names.pop())
        return ("plit", v)
    return ("parr", [one(i, v) for i, v in enumerate(subj)])


def pat_names(p):
    if p[0] == "pname":
        return [p[1]]
    if p[0] == "parr":
        return [x for q in p[1] for x in pat_names(q)]
    return []


def match_residue_program(rng):
    """a callref program: globals count/n/x/y/t; G = globals the bodies assign to (bound only by alternatives that always fail),
    B = names bound by alternatives that can match (never assigned)"""
    names = list(MB_NAMES)
    rng.shuffle(names)
    k = rng.randint(1, 3)
    G, B = names[:k], names[k:]
    kinds = mb_kinds(rng)
    subjects = [mb_subject(rng, kinds) for _ in range(rng.randint(1, 4))]
    leak = [0]

    def body(kind):
        show = [("var", x) for x in MB_NAMES]
        if kind == "expr":
            g = rng.choice(G)
            return "expr", ("arr", [("var", g), ("bin", "+", ("var", g), ("num", 1.0))] + show)
        st = [("print", [("str", "B")] + show)]
        for g in rng.sample(G, rng.randint(1, len(G))):
            w = rng.random()
            if w < 0.35:
                st.append(("incr", g))
            elif w < 0.7:
                st.append(("assign", g, ("bin", "+", ("var", g), ("num", float(rng.randint(1, 9))))))
            else:
                st.append(("assign", g, ("bin", "+", ("var", g), ("var", rng.choice(G)))))
        st.append(("print", [("str", "b")] + show))
        return "block", st

    def cases():
        out = []
        for ci in range(rng.randint(1, 3)):
            # every case is built around one subject: alternatives that bind names and then fail on it, then one that matches it
            s_ = subjects[(ci + rng.randrange(2)) % len(subjects)]
            alts = []
            for _ in range(rng.choice([0, 1, 1, 2])):
                alts.append(mb_pattern(rng, s_, rng.sample(G, rng.randint(1, len(G))) + rng.sample(B, rng.randint(0, min(1, len(B)))), True))
                if set(pat_names(alts[-1])) & set(G):
                    leak[0] += 1
            if rng.random() < 0.25:
                # a pattern of a length no subject has
                alts.insert(rng.randint(0, len(alts)), ("parr", [("pname", x) for x in rng.sample(G + B, min(len(G + B), 4))] + [("plit", 1.0)]))
            if rng.random() < 0.9 or not alts:
                alts.append(mb_pattern(rng, s_, rng.sample(B, rng.randint(0, min(2, len(B)))), False))
            if rng.random() < 0.3:
                alts.append(mb_pattern(rng, rng.choice(subjects), rng.sample(G + B, rng.randint(1, 3)), rng.random() < 0.5))
            if rng.random() < 0.1 and B:
                alts.append(("pname", rng.choice(B)))
            kind, b = body(rng.choice(["block", "block", "expr"]))
            out.append((alts, kind, b))
        return out

    show = [("var", x) for x in MB_NAMES]
    begin = [("assign", x, ("num", float(100 * (i + 1)))) for i, x in enumerate(MB_NAMES)] + [("assign", g, ("num", 0.0)) for g in callref.GLOBALS]
    funcs = []
    host = rng.choice(["rule", "rule", "func", "begin"])
    m = ("match", ("dollar",) if host != "func" else ("var", "subj"), cases())
    use = [("assign", "g3", m), ("print", [("str", "A"), ("var", "g3")] + show)]
    if host == "func":
        funcs.append(("mf", ["subj"], [("assign", "g3", m), ("return", ("var", rng.choice(G)))]))
        use = [("print", [("str", "A"), ("call", "mf", [("dollar",)])] + show)]
    if host == "begin":
        for s_ in subjects:
            mm = ("match", pylit(s_), cases())
            begin += [("assign", "g3", mm), ("print", [("str", "A"), ("var", "g3")] + show)]
        rules = []
    else:
        rules = [(None, use)]
    return {"funcs": funcs, "begin": begin, "rules": rules, "end": [("print", [("str", "E")] + show)]}, subjects, leak[0]


def pylit(v):
    if isinstance(v, list):
        return ("arr", [pylit(x) for x in v])
    return ("num", v) if isinstance(v, float) else ("str", v)


# ---------------------------------------------------------------- names FIRST assigned inside a match case
# A case is a scope of its own: a name its body creates -- by an assignment used as the (expression) body, inside a larger
# expression, in a nested match, in a call argument, or by the statements of a block body -- is gone when the case is finished,
# with and without names bound by the pattern; nothing accumulates from one record to the next.  Existing globals keep what a
# body assigns to them.  Names are probed from inside a function (a read at the top level would create them there).

ML_NAMES = ["t", "u", "seen", "acc"]
ML_FORMS = ["asg", "asg", "asg-paren", "accum", "accum", "sum", "arr", "nested", "nested-bind", "chain", "arg", "global", "read",
            "blk-assign", "blk-incr", "blk-asg", "blk-forin", "blk-if", "blk-nested", "blk-global"]


def ml_body(rng, bound, host, form=None):
    """(kind, body) of one case; bound: names its pattern binds"""
    t, u = rng.sample(ML_NAMES, 2)
    g = rng.choice(callref.GLOBALS[:3])
    vals = [_n(rng.randint(1, 9)), ("str", rng.choice(["x", "yes"]))] + [_v(b) for b in bound] * 2
    if host != "begin":
        vals.append(("dollar",))
    val, val2 = rng.choice(vals), rng.choice(vals)
    num = _n(float(rng.randint(1, 9)))
    B = ("str", "B")
    form = form or rng.choice(ML_FORMS)
    if form == "asg":
        return "expr", ("asg", t, val)
    if form == "asg-paren":
        return "expr", ("asg", t, val, True)
    if form == "accum":
        return "expr", ("asg", t, ("bin", "+", _v(t), num))
    if form == "sum":
        return "expr", ("bin", "+", ("asg", t, num, True), _v(t))
    if form == "arr":
        return "expr", ("arr", [("asg", t, val), _v(t), ("asg", u, val2)])
    if form == "nested":
        return "expr", ("match", num, [([("plit", num[1])], "expr", ("asg", t, val))])
    if form == "nested-bind":
        return "expr", ("match", val, [([("pname", "mm")], "expr", ("asg", t, _v("mm")))])
    if form == "chain":
        return "expr", ("asg", t, ("asg", u, val, True))
    if form == "arg":
        return "expr", ("call", "id_", [("asg", t, val)])
    if form == "global":
        return "expr", ("asg", g, ("bin", "+", _v(g), num))
    if form == "read":
        return "expr", ("bin", "+", _v(t), num)
    if form == "blk-assign":
        return "block", [("assign", t, val), ("print", [B, _v(t)])]
    if form == "blk-incr":
        return "block", [("incr", t), ("incr", t), ("print", [B, _v(t)])]
    if form == "blk-asg":
        return "block", [("expr", ("asg", t, val)), ("assign", u, _v(t)), ("print", [B, _v(u)])]
    if form == "blk-forin":
        return "block", [("forin", t, ("arr", [num, val]), [("assign", g, ("bin", "+", _v(g), _n(1)))]), ("print", [B, _v(t)])]
    if form == "blk-if":
        return "block", [("if", ("bin", ">", num, _n(4)), [("assign", t, val)], [("assign", u, val2)]), ("print", [B, _v(t), _v(u)])]
    if form == "blk-nested":
        return "block", [("assign", g, ("match", num, [([("plit", num[1])], "expr", ("asg", t, val))])), ("print", [B, _v(g)])]
    return "block", [("assign", g, ("bin", "+", _v(g), num))]


def ml_probe_funcs():
    return [("id_", ["x_"], [("return", _v("x_"))]),
            ("pr_", [], [("print", [("str", "P")] + [_v(x) for x in ML_NAMES])])]


def match_local_program(rng, form=None):
    """(program, input values): matches whose bodies create names, in BEGIN / a rule over several records / a function"""
    host = rng.choice(["begin", "rule", "rule", "func"])
    pool = rng.choice([[1.0, 2.0, 3.0], ["a", "b", "c"]])
    docs = [rng.choice(pool) for _ in range(rng.randint(2, 7))]
    probe = ("expr", ("call", "pr_", []))
    first = [True]

    def one_match(subj):
        pair = rng.random() < 0.25         # the subject wrapped into an array, array patterns with and without names
        cases = []
        nc = rng.randint(1, 3)
        for ci in range(nc):
            bind = rng.random() < 0.3
            f = form if first[0] else None
            first[0] = False
            if bind:
                kd, body = ml_body(rng, ["m"], host, f)
                pats = [("parr", [("pname", "m"), ("plit", 7.0)])] if pair else [("pname", "m")]
            else:
                kd, body = ml_body(rng, [], host, f)
                vs = rng.sample(pool, rng.randint(1, 2)) if ci < nc - 1 or rng.random() < 0.5 else list(pool)
                pats = [("parr", [("plit", v), ("plit", 7.0)]) if pair else ("plit", v) for v in vs]
            cases.append((pats, kd, body))
        return ("match", ("arr", [subj, _n(7.0)]) if pair else subj, cases)

    def use(subj):
        m = one_match(subj)
        w = rng.random()
        if w < 0.4:
            st = [("expr", m)]
        elif w < 0.75:
            st = [("print", [("str", "M"), m])]
        else:
            st = [("assign", "g3", m), ("print", [("str", "A"), _v("g3")])]
        if rng.random() < 0.75:
            st.append(probe)
        return st

    funcs = ml_probe_funcs()
    begin = [("assign", g, _n(i + 1)) for i, g in enumerate(callref.GLOBALS)]
    rules = []
    if host == "begin":
        for v in docs:
            begin += use(pylit(v))
    elif host == "rule":
        body = use(("dollar",))
        if rng.random() < 0.4:
            body += use(("dollar",))
        rules.append((None, body))
    else:
        body = use(_v("subj"))
        if rng.random() < 0.4:
            body += use(_v("subj"))
        funcs.append(("mf", ["subj"], body + [("return", _v(rng.choice(ML_NAMES)))]))
        rules.append((None, [("print", [("str", "R"), ("call", "mf", [("dollar",)])]), probe]))
    end = [probe, ("print", [("str", "D")] + [_v(x) for x in ML_NAMES] + [_v(g) for g in callref.GLOBALS])]
    if rng.random() < 0.5:
        rng.shuffle(funcs)
    return {"funcs": funcs, "begin": begin, "rules": rules, "end": end}, docs


# ---------------------------------------------------------------- names FIRST assigned inside a call ARGUMENT
# f(t = 5): the argument expressions are the caller's, so t is the caller's variable -- there after the call when the caller is
# BEGIN or a rule, gone with the calling function or the match case when the caller is one -- and never the callee's, also when
# a parameter of the callee has the same name, when the argument is surplus, or when the call is itself an argument.

AA_FORMS = ["plain", "plain", "same-name", "two", "surplus0", "surplus1", "nested", "repeat", "cond", "printed", "paren"]


def aa_stmts(rng, val, form=None):
    t, u = rng.sample(ML_NAMES, 2)
    if rng.random() < 0.5:
        t = "t"
    v2 = _n(rng.randint(1, 9))
    T = ("str", "T")
    form = form or rng.choice(AA_FORMS)
    if form == "plain":
        return [("expr", ("call", "f1", [("asg", t, val)])), ("print", [T, _v(t)])]
    if form == "paren":
        return [("assign", "g3", ("call", "f1", [("asg", t, val, True)])), ("print", [T, _v(t), _v("g3")])]
    if form == "same-name":
        return [("print", [("str", "C"), ("call", "ft", [("asg", "t", val)])]), ("print", [T, _v("t")])]
    if form == "two":
        return [("print", [("str", "C"), ("call", "f2", [("asg", t, val), ("asg", u, v2)])]), ("print", [T, _v(t), _v(u)])]
    if form == "surplus0":
        return [("expr", ("call", "f0", [("asg", t, val)])), ("print", [T, _v(t)])]
    if form == "surplus1":
        return [("expr", ("call", "f1", [v2, ("asg", t, val), ("asg", u, v2)])), ("print", [T, _v(t), _v(u)])]
    if form == "nested":
        return [("print", [("str", "C"), ("call", "id_", [("call", rng.choice(["f1", "ft", "id_"]), [("asg", t, val)])])]), ("print", [T, _v(t)])]
    if form == "repeat":
        return [("expr", ("call", "f1", [("asg", t, ("bin", "+", _v(t), v2))]))] * rng.randint(2, 3) + [("print", [T, _v(t)])]
    if form == "cond":
        return [("if", ("bin", ">", ("call", "f1", [("asg", t, v2)]), _n(0)), [("print", [("str", "Y"), _v(t)])], [("print", [("str", "N")])]),
                ("print", [T, _v(t)])]
    return [("print", [("str", "C"), ("call", "f1", [("asg", t, val)]), ("call", "id_", [("asg", u, v2)])]), ("print", [T, _v(t), _v(u)])]


def arg_assign_program(rng, form=None):
    host = rng.choice(["begin", "rule", "func", "func", "match", "match-expr"])
    probe = ("expr", ("call", "pr_", []))
    funcs = ml_probe_funcs() + [
        ("f1", ["a"], [("assign", "a", ("bin", "+", _v("a"), _n(1))), ("return", _v("a"))]),
        ("f2", ["a", "b"], [("assign", "g0", ("bin", "+", _v("g0"), _n(1))), ("return", ("arr", [_v("a"), _v("b")]))]),
        ("ft", ["t"], [("assign", "t", ("bin", "+", _v("t"), _n(1))), ("return", _v("t"))]),
        ("f0", [], [("return", _n(0))])]
    begin = [("assign", g, _n(i + 1)) for i, g in enumerate(callref.GLOBALS)]
    docs = [float(rng.randint(1, 9)) for _ in range(rng.randint(1, 4))]
    rules = []
    lit = _n(rng.randint(1, 9))
    if host == "begin":
        begin += aa_stmts(rng, lit, form) + [probe]
        if rng.random() < 0.4:
            begin += aa_stmts(rng, lit) + [probe]
    elif host == "rule":
        rules.append((None, aa_stmts(rng, rng.choice([("dollar",), lit]), form) + [probe]))
    elif host == "func":
        # the caller is a function: the name lives as long as that call
        funcs.append(("cf", ["x"], aa_stmts(rng, rng.choice([_v("x"), lit]), form) + [probe, ("return", _v("t"))]))
        rules.append((None, [("print", [("str", "R"), ("call", "cf", [("dollar",)])]), probe]))
    elif host == "match":
        rules.append((None, [("expr", ("match", ("dollar",), [([("pname", "m")], "block", aa_stmts(rng, rng.choice([_v("m"), lit]), form) + [probe])])), probe]))
    else:
        t = rng.choice(ML_NAMES)
        arg = ("asg", t, rng.choice([("dollar",), lit]))
        case = rng.choice([([("pname", "m")], "expr", ("call", "f1", [arg])),
                           ([("plit", d) for d in sorted(set(docs))], "expr", ("call", rng.choice(["f1", "ft", "f0"]), [arg]))])
        rules.append((None, [("print", [("str", "M"), ("match", ("dollar",), [case])]), probe]))
    end = [probe, ("print", [("str", "D")] + [_v(x) for x in ML_NAMES] + [_v(g) for g in callref.GLOBALS])]
    if rng.random() < 0.5:
        rng.shuffle(funcs)
    return {"funcs": funcs, "begin": begin, "rules": rules, "end": end}, docs


# ---------------------------------------------------------------- recursion through calls written as ARGUMENTS
# add(1, S(n - 1)): the arguments are evaluated before add is entered, so the recursion is as deep as S nests, whatever else
# the argument list holds.  (name, source, frames per level, frames at the bottom)
ARG_DEPTH_SHAPES = [
    ("S", "function add(a, b) { return a + b }\nfunction S(n) { if (n <= 0) return 0\n return add(1, S(n - 1)) }", 1, 1),
    ("T", "function id(x) { return x }\nfunction T(n) { if (n <= 0) return 0\n return id(id(T(n - 1))) + 1 }", 1, 1),
    ("U", "function add(a, b) { return a + b }\nfunction U(n) { if (n <= 0) return 0\n return add(add(0, 1), add(U(n - 1), 0)) }", 1, 1),
    ("W", "function pick(a, b, c) { return b }\nfunction W(n) { if (n <= 0) return 0\n return pick(t_ = n, W(n - 1) + 1, 7) }", 1, 1),
    ("X", "function add(a, b) { return a + b }\nfunction X(n) { if (n <= 0) return 0\n return add(1, match (n) { m => X(m - 1) }) }", 2, 1),
]


class C08(Check):
    pid = "C08"
    props = ["C08_frames.v"]
    rule = ("programs of a restricted family (1-4 user functions of arity 0-3: pure, recursive, mutually recursive, with effects "
            "on globals, with next/exit at some nesting, returning from inside loops / conditionals / match blocks, storing "
            "through an array parameter; calls in operand, argument, index, condition, pattern and match-subject positions; too "
            "few / too many arguments; matches with expression and block bodies) printing globals before and after calls and "
            "probing parameter, local and pattern-bound names afterwards; functions whose locals are read before they are "
            "(conditionally) written -- set under a condition, accumulated, counted in a loop, loop variables, after recursion, "
            "after an early return -- called several times in a row from BEGIN, rules, END and other functions; expectation by "
            "an independent interpreter of the family; long histories: the same rule over n and n+5000 elements with n above the generated call depth limit; "
            "recursion well inside and far beyond the limit after thousands of completed calls; a missing member / out-of-range element / "
            "missing nested path of an object, array, local or the input document passed as an argument (every position of arity 1-3, "
            "directly, through a second function, in permuted order, changed at both levels) and then assigned, incremented, op='d "
            "or used as a container by the callee: the caller's container and the document are printed unchanged; matches with 1-3 "
            "cases x 1-3 alternatives where alternatives bind names (also in nested patterns) and then fail on a later literal, the "
            "bodies reading every name and assigning to / incrementing globals of the leaked names, globals printed after the match; names FIRST "
            "assigned inside a case -- an assignment as the expression body (bare, parenthesised, chained, accumulating, inside a sum / array / "
            "nested match / call argument) or the statements of a block body (assignment, ++, for-in variable, under if, nested match), under "
            "literal, alternative, array and name-binding patterns, in BEGIN, over several records, inside a function -- probed from a function "
            "after every match and at the end: gone, nothing accumulates, globals keep their stores; names first assigned inside a call ARGUMENT "
            "(f(t = 5), parameter of the same name, several / surplus arguments, nested and repeated calls, in a condition) with BEGIN, a rule, "
            "a function or a match case as the caller: the caller's variable, for as long as the caller lives; recursion whose recursive call is "
            "written as an argument of another call (add(1, S(n - 1)), id(id(T(n - 1))), next to an assignment argument, through a match) at depths "
            "3 .. limit - 40 (must work, also after thousands of completed calls) and limit + 40 .. 2 x limit (refused), the two depths at the limit "
            "itself by model agreement. non-trivial = at least one "
            "call or match completes before another begins")

    def generate(self, rng, tier):
        L = call_depth_limit()
        cases = []
        for i, (prog, inp, outcome, out) in enumerate(FIXED):
            cid = "h%d" % i
            cases.append(Case(cid, simple_run(cid, prog, [inp] if inp is not None else []),
                              {"prog": prog, "input": inp, "outcome": outcome, "stdout": out}, True, ("fixed",)))
        # ---- random programs of the family
        n = 450 if tier == "quick" else 9000
        k = 0
        tries = 0
        while k < n and tries < 3 * n:
            tries += 1
            g = callref.Gen(rng)
            p = g.program(rng.randint(1, 4), rng.randint(1, 3))
            w = rng.random()
            if w < 0.8:
                doc = [float(rng.randint(0, 8)) for _ in range(rng.randint(0, 7))]
            elif w < 0.9:
                doc = float(rng.randint(0, 8))
            else:
                doc = [float(rng.randint(0, 8))] * rng.randint(8, 40)
            it = callref.Interp(p, L, max_steps=60000)
            try:
                outcome, out = it.run(doc)
            except (callref.TooDeep, RecursionError):
                continue
            cid = "r%d" % k
            k += 1
            prog = callref.src_program(p)
            inp = json.dumps(doc)
            cases.append(Case(cid, simple_run(cid, prog, [inp]), {"prog": prog, "input": inp, "outcome": outcome, "stdout": out},
                              it.history))
        # ---- residue across sequential calls of the same function
        n = 300 if tier == "quick" else 6000
        k = 0
        while k < n:
            p = residue_program(rng)
            doc = [float(rng.randint(0, 8)) for _ in range(rng.randint(0, 6))]
            it = callref.Interp(p, L, max_steps=60000)
            try:
                outcome, out = it.run(doc)
            except (callref.TooDeep, RecursionError):
                continue
            cid = "q%d" % k
            k += 1
            prog = callref.src_program(p)
            inp = json.dumps(doc)
            cases.append(Case(cid, simple_run(cid, prog, [inp]), {"prog": prog, "input": inp, "outcome": outcome, "stdout": out,
                                                                  "what": "locals read before they are written, sequential calls"}, True))
        # ---- long histories: n and n + 5000 elements, n above the limit
        npairs = 3 if tier == "quick" else 60
        k = 0
        tries = 0
        while k < npairs and tries < 40 * npairs:
            tries += 1
            g = callref.Gen(rng, quiet=True)
            p = g.program(rng.randint(1, 3), rng.randint(1, 2))
            period = [float(rng.randint(0, 8)) for _ in range(rng.choice([1, 1, 2]))]
            n1 = L + rng.randint(40, 1900)
            exp = []
            good = viable(p, period, L)
            for nn in ((n1, n1 + 5000) if good else ()):
                doc = (period * nn)[:nn]
                it = callref.Interp(p, L, max_steps=100 * nn)       # small programs: the model needs seconds per 1000 elements
                try:
                    outcome, out = it.run(doc)
                except (callref.TooDeep, RecursionError):
                    good = False
                    break
                # every element must leave a call or a match behind, else the history is not long
                if outcome != "ok" or it.completed < nn:
                    good = False
                    break
                exp.append((nn, outcome, out))
            if not good:
                continue
            prog = callref.src_program(p)
            for nn, outcome, out in exp:
                cid = "l%d_%d" % (k, nn)
                inp = json.dumps((period * nn)[:nn])
                cases.append(Case(cid, simple_run(cid, prog, [inp]),
                                  {"prog": prog, "input_period": period, "input_len": nn, "outcome": outcome, "stdout": out, "pair": k},
                                  True, ("long",)))
            k += 1
        # ---- long histories with per-element output: implementation only (run in extra)
        self.verbose_long = []
        nv = 12 if tier == "quick" else 60
        k = 0
        tries = 0
        while k < nv and tries < 40 * nv:
            tries += 1
            g = callref.Gen(rng, quiet=(k % 3 == 2))
            p = g.program(rng.randint(1, 3), rng.randint(1, 2))
            v = float(rng.randint(0, 8))
            n1 = L + rng.randint(40, 1900)
            exp = []
            for nn in ((n1, n1 + 5000) if viable(p, [v], L) else ()):
                it = callref.Interp(p, L, max_steps=300 * nn)
                try:
                    outcome, out = it.run([v] * nn)
                except (callref.TooDeep, RecursionError):
                    break
                if outcome != "ok" or it.completed < nn or len(out) > 3000000:
                    break
                exp.append((nn, out))
            if len(exp) < 2:
                continue
            prog = callref.src_program(p)
            for nn, out in exp:
                cid = "v%d_%d" % (k, nn)
                self.verbose_long.append((cid, prog, v, nn, out))
                cases.append(Case(cid, None, {"prog": prog, "input": "[%s] * %d" % (pyref.fmt_f(v), nn), "stdout_len": len(out)}, True, ("long", "verbose")))
            k += 1
        # ---- recursion depth: only genuinely nested calls count
        shapes = [
            ("R", "function R(a) { if (a <= 0) return 0\n return R(a - 1) + 1 }", 1, 1),
            ("M", "function M(a) { return match (a) { 0 => 0,\n m => M(m - 1) + 1 } }", 2, 2),
            ("P", "function P(a) { if (a <= 0) return 0\n return Q(a - 1) + 1 }\nfunction Q(a) { if (a <= 0) return 0\n return P(a - 1) + 1 }", 1, 1),
            ("B", "function B(a) { if (a <= 0) return 0\n match (a) { m => { return B(m - 1) + 1 } } }", 2, 1),
        ]
        for si, (fn, src, per_level, base) in enumerate(shapes):
            for d in sorted({3, 50, L // 4, (L - 64) // per_level - 2, 2 * L, 3 * L + 7}):
                for hist in ((0, rng.randint(L + 10, 2 * L)) if si < 2 or tier != "quick" else (0,)):
                    depth = per_level * d + base        # frames live at the deepest point
                    if depth > L - 32 and depth < 2 * L:
                        continue
                    cid = "d%s%d_%d" % (fn, d, hist)
                    pre = ""
                    if hist:
                        pre = ("for (i = 0; i < %d; i++) { s = s + %s(1) + match (i) { 0 => 0,\n k => 1 } }\n print s\n" % (hist, fn))
                    prog = "%s\nBEGIN { %sprint 'A'\n print %s(%d)\n print 'Z' }" % (src, pre, fn, d)
                    pre_out = "%s\n" % pyref.fmt_f(float(2 * hist - 1)) if hist else ""
                    if depth <= L - 32:
                        exp = ("ok", pre_out + "A\n%d\nZ\n" % d)
                    else:
                        exp = ("runtime", pre_out + "A\n")
                    cases.append(Case(cid, simple_run(cid, prog, [], fuzz=False), {"prog": prog, "input": None, "outcome": exp[0], "stdout": exp[1],
                                                                                  "nested_frames": depth, "limit": L}, hist > 0, ("depth",)))
        # ---- a missing location passed as an argument and then assigned / incremented / used as a container by the callee
        n = 320 if tier == "quick" else 6000
        k = 0
        while k < n:
            mc = missing_arg_case(rng)
            if mc is None:
                continue
            prog, inp, outcome, out, final, what, unchanged = mc
            cid = "a%d" % k
            k += 1
            meta = {"prog": prog, "input": inp, "outcome": outcome, "stdout": out, "what": what, "fam": "missing-arg"}
            if outcome == "runtime":
                # the property says the caller's data stays as it is, not that a null parameter cannot be used as a container
                meta["ok_if_lines"] = [unchanged, unchanged]
            if final is not None and outcome == "ok":
                meta["final_doc"] = final
            cases.append(Case(cid, simple_run(cid, prog, [inp] if inp is not None else []), meta, True))
        # ---- names bound by a match alternative that then fails
        n = 300 if tier == "quick" else 6000
        k = 0
        while k < n:
            p, subjects, leak = match_residue_program(rng)
            it = callref.Interp(p, L, max_steps=60000)
            try:
                outcome, out = it.run(subjects)
            except (callref.TooDeep, RecursionError):
                continue
            if (leak == 0 or it.completed == 0) and rng.random() < 0.85:
                continue
            cid = "m%d" % k
            k += 1
            prog = callref.src_program(p)
            inp = json.dumps(subjects)
            cases.append(Case(cid, simple_run(cid, prog, [inp]), {"prog": prog, "input": inp, "outcome": outcome, "stdout": out, "fam": "match-residue",
                                                                  "what": "multi-alternative cases; alternatives that bind names and then fail; the bodies assign to globals of those names"},
                              leak > 0))
        # ---- names first assigned inside a match case (expression and block bodies, nested, with and without bindings)
        n = 300 if tier == "quick" else 6000
        k = 0
        while k < n:
            p, docs = match_local_program(rng, ML_FORMS[k % len(ML_FORMS)] if k < 3 * len(ML_FORMS) else None)
            it = callref.Interp(p, L, max_steps=60000)
            try:
                outcome, out = it.run(docs)
            except (callref.TooDeep, RecursionError):
                continue
            cid = "n%d" % k
            k += 1
            prog = callref.src_program(p)
            inp = json.dumps(docs)
            cases.append(Case(cid, simple_run(cid, prog, [inp]), {"prog": prog, "input": inp, "outcome": outcome, "stdout": out, "fam": "match-local",
                                                                  "what": "names first assigned inside match case bodies, probed after the match and at the end"},
                              it.completed >= 2))
        # ---- names first assigned inside a call argument
        n = 220 if tier == "quick" else 5000
        k = 0
        while k < n:
            p, docs = arg_assign_program(rng, AA_FORMS[k % len(AA_FORMS)] if k < 4 * len(AA_FORMS) else None)
            it = callref.Interp(p, L, max_steps=60000)
            try:
                outcome, out = it.run(docs)
            except (callref.TooDeep, RecursionError):
                continue
            cid = "g%d" % k
            k += 1
            prog = callref.src_program(p)
            inp = json.dumps(docs)
            cases.append(Case(cid, simple_run(cid, prog, [inp]), {"prog": prog, "input": inp, "outcome": outcome, "stdout": out, "fam": "arg-assign",
                                                                  "what": "names first assigned inside call arguments belong to the caller"}, True))
        # ---- recursion through calls written as arguments of other calls: as deep as the calls really nest
        for si, (fn, src, per_level, base) in enumerate(ARG_DEPTH_SHAPES):
            near = (L - 40 - base) // per_level
            for d in sorted({3, 50, L // 2, near, (L - base) // per_level, (L - base) // per_level + 1, (L + 40) // per_level + 1, 2 * L}):
                for hist in ((0, rng.randint(L + 10, 2 * L)) if (si < 2 and d == near) or tier != "quick" else (0,)):
                    depth = per_level * d + base        # frames live at the deepest point
                    cid = "e%s%d_%d" % (fn, d, hist)
                    pre = ""
                    if hist:
                        pre = "for (i = 0; i < %d; i++) { s = s + %s(1) }\n print s\n" % (hist, fn)
                    prog = "%s\nBEGIN { %sprint 'A'\n print %s(%d)\n print 'Z' }" % (src, pre, fn, d)
                    pre_out = "%d\n" % hist if hist else ""
                    meta = {"prog": prog, "input": None, "nested_frames": depth, "limit": L, "fam": "arg-depth"}
                    if depth <= L - 32:
                        meta["outcome"], meta["stdout"] = "ok", pre_out + "A\n%d\nZ\n" % d
                    elif depth >= L + 32:
                        meta["outcome"], meta["stdout"] = "runtime", pre_out + "A\n"
                    else:
                        meta["note"] = "within 32 frames of the limit: model agreement only"
                    cases.append(Case(cid, simple_run(cid, prog, [], fuzz=False), meta, hist > 0 or depth > 64, ("depth",)))
        return cases

    def oracle(self, case, impl):
        m = case.meta
        if "outcome" not in m:
            return None
        if impl.outcome in ("timeout",):
            return None
        got = (impl.outcome, impl.stdout.decode("utf-8", "replace"))
        want = (m["outcome"], m["stdout"])
        if got != want and "ok_if_lines" in m and got[0] == "ok":
            # the callee got away with using its null parameter as a container: the caller's data must still be untouched
            lines = [l + "\n" for l in got[1].split("\n") if l.startswith("o ")]
            if lines == m["ok_if_lines"]:
                return None
            return "%s: the caller's container changed: %s" % (m.get("what"), clip(got[1]))
        if got == want and "final_doc" in m:
            try:
                doc = treeref.loads(unhx(impl.json)) if impl.json not in ("!", "P", "~", "?") else None
            except treeref.BadJson:
                doc = None
            if doc is None or not treeref.samenum(doc, m["final_doc"]):
                return "%s: the input document changed: %s" % (m.get("what"), clip(unhx(impl.json).decode("utf-8", "replace") if doc is not None else impl.json))
        if got != want:
            return "expected %s %s, implementation %s %s%s" % (want[0], clip(want[1]), got[0], clip(got[1]),
                                                             " (first difference at byte %d)" % first_diff(want[1], got[1]))
        if impl.outcome == "ok" and impl.depth != "0":
            return "frame depth %s at the end of a successful run (a finished call or match left a frame behind)" % impl.depth
        return None

    def extra(self, ctx):
        viol = []
        lines, want = [], {}
        for cid, prog, v, nn, out in getattr(self, "verbose_long", []):
            lines.append(simple_run(cid, prog, ["[" + ",".join([pyref.fmt_f(v)] * nn) + "]"]))
            want[cid] = (prog, v, nn, out)
        if not lines:
            return [], {}
        res = run_impl(lines)
        for cid, (prog, v, nn, out) in want.items():
            r = RunRes(res.get(cid, []))
            if r.outcome == "timeout":
                continue
            got = r.stdout.decode("utf-8", "replace")
            why = None
            if r.outcome != "ok" or got != out:
                why = "long history (%d equal elements): expected ok with %d bytes of output, implementation %s with %d bytes; first difference at byte %d: %s" % (
                    nn, len(out), r.outcome, len(got), first_diff(out, got), clip(got[max(0, first_diff(out, got) - 40):]))
            elif r.depth != "0":
                why = "frame depth %s at the end of a successful run" % r.depth
            if why:
                viol.append((Case(cid, None, {"prog": prog, "input": "[%s] * %d" % (pyref.fmt_f(v), nn)}, True, ("long", "verbose")), why))
        return viol, {"verbose_long_runs": len(lines)}


def viable(p, period, L):
    """cheap filter for long-history programs: 60 elements run to the end and leave calls / matches behind"""
    it = callref.Interp(p, L, max_steps=60 * 300)
    try:
        outcome, out = it.run((period * 60)[:60])
    except (callref.TooDeep, RecursionError):
        return False
    return outcome == "ok" and it.completed >= 60


def first_diff(a, b):
    n = min(len(a), len(b))
    for i in range(n):
        if a[i] != b[i]:
            return i
    return n


def clip(s, n=160):
    s = repr(s)
    return s if len(s) <= n else s[:n - 20] + "..." + s[-17:]


CHECK = C08()
