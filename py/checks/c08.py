"""C08: calls bind by position and value; completed calls and matches leave no residue."""
import os, re, json, random
from framework import Check, Case
from jqlib import simple_run, RunRes, VERIF, run_impl
import pyref, callref


def call_depth_limit():
    """the limit the code under test has now (the translator writes it into Generated.v at every build)"""
    try:
        src = open(os.path.join(VERIF, "coq", "theories", "Gen", "Generated.v")).read()
        return int(re.search(r"Definition call_depth_limit : Z := (\d+)", src).group(1))
    except Exception:
        return 4096


# programs whose expectation is written down by hand: (program, input or None, outcome, stdout)
U = "<unknown>"
FIXED = [
    ("function f(a, b) { print a, b }\nBEGIN { f(1)\n f(1, 2, 3)\n f()\n f('x', [1]) }", None, "ok", "1 null\n1 2\nnull null\nx [1]\n"),
    ("function g() { print 'side'\n return 1 }\nfunction f(a) { return a }\nBEGIN { print f(7, g()) }", None, "ok", "side\n7\n"),
    ("function f(a) { a = a + 1\n loc = 5\n return a }\nfunction pr() { print a, loc }\nBEGIN { x = 1\n y = f(x)\n print x, y\n pr() }\nEND { print a, loc }",
     None, "ok", "1 2\n%s %s\n%s %s\n" % (U, U, U, U)),
    ("function f() { }\nfunction g() { return }\nfunction h() { if (false) return 1 }\nBEGIN { print f(), g(), h() }", None, "ok", "null null null\n"),
    ("function f(a) { g1 = a\n g2 = a }\nBEGIN { g1 = 0\n f(5)\n print g1\n}\nEND { print g2 }", None, "ok", "5\n%s\n" % U),
    ("BEGIN { x = match (1) { _ => 1 }\n print x }\nEND { print _ }", None, "ok", "1\n%s\n" % U),
    ("BEGIN { q = 1\n match ([1, 2]) { [p, q] => { print p, q } }\n print q }\nEND { print p }", None, "ok", "1 2\n1\n%s\n" % U),
    ("function f(a) { match (a) { 1 => { return 'one' },\n n => { return n * 2 } }\n return 'no' }\nBEGIN { print f(1), f(4)\n print f(1) }\nEND { print n }",
     None, "ok", "one 8\none\n%s\n" % U),
    ("function f(a) { for (i = 0; i < 9; i++) { if (i == a) { return i } }\n return 'end' }\nBEGIN { print f(3), f(20), f(0) }", None, "ok", "3 end 0\n"),
    ("function f(a) { for (e in [5, 6, 7]) { match (e) { 6 => { return e + a } } } }\nBEGIN { print f(1)\n print f(2) }", None, "ok", "7\n8\n"),
    ("function f(a) { if (a > 1) next\n return a }\n{ print 'a', f($) }\n{ print 'b', $ }\nEND { print 'end', a }", "[1, 2, 1, 3]",
     "ok", "a 1\nb 1\na 1\nb 1\nend %s\n" % U),
    ("function f(a) { if (a == 2) exit\n return a }\n{ print f($) }\nEND { print 'never' }", "[1, 2, 3]", "ok", "1\n"),
    ("function f(a) { return match (a) { 0 => 'z',\n m => f(m - 1) } }\n{ print f($) }\nEND { print m }", "[3, 0, 5]", "ok", "z\nz\nz\n%s\n" % U),
    ("{ y = match ($) { 2 => { next },\n v => v * 10 }\n print y }\nEND { print v }", "[1, 2, 3]", "ok", "10\n30\n%s\n" % U),
    ("function fact(n) { if (n <= 1) return 1\n return n * fact(n - 1) }\nBEGIN { print fact(5), fact(1), fact(10) }", None, "ok", "120 1 3628800\n"),
    ("function ev(n) { if (n == 0) return 'even'\n return od(n - 1) }\nfunction od(n) { if (n == 0) return 'odd'\n return ev(n - 1) }\nBEGIN { print ev(4), ev(7), od(2) }",
     None, "ok", "even odd odd\n"),
    ("function f(p, s) { p[0] = 9\n s = 9 }\nBEGIN { a = [1, 2]\n t = 1\n f(a, t)\n print a, t }", None, "ok", "[9, 2] 1\n"),
    ("function f(a) { return a + 1 }\nBEGIN { print f(f(f(1))), [f(1), f(2)][1], f(1) + f(2) * f(3), -f(1), !f(0 - 1) }", None, "ok", "4 3 14 -2 true\n"),
    ("function f(a) { return a > 1 }\nf($) { print $ }", "[1, 2, 3]", "ok", "2\n3\n"),
    ("function f() { return 5 }\nfunction g() { }\nfunction h(a) { if (a) return }\nBEGIN { f()\n print g()\n f()\n print h(1), f(), g() }", None, "ok", "null\nnull 5 null\n"),
    ("function f(a) { while (true) { if (a > 3) { return a }\n a++ } }\nBEGIN { x = 0\n print f(x), x }", None, "ok", "4 0\n"),
]


# ---------------------------------------------------------------- residue across SEQUENTIAL calls of one function
# Functions whose locals are READ BEFORE they are (conditionally) written: a local that survived an earlier call of the
# same function would be seen by a later one, although it stays invisible from the caller.

def _v(n):
    return ("var", n)


def _n(x):
    return ("num", x)


def residue_function(rng, k, made):
    """(name, params, body, local names, recursive?) of one function of the family; made: earlier functions (name, arity, recursive)"""
    name = "R%d" % k
    a, b, t, u, x = "a%d" % k, "b%d" % k, "t%d" % k, "u%d" % k, "x%d" % k
    thr = rng.randint(1, 5)
    kind = rng.choice(["condset", "condset", "accum", "count", "loopvar", "early", "rec", "rec2", "caller", "param", "matchname", "forvar", "arrlocal"])
    if kind == "caller" and not made:
        kind = "condset"
    val = rng.choice([("str", "big"), ("bin", "*", _v(a), _n(10)), _n(77), ("arr", [_v(a), _n(1)])])
    if kind == "condset":
        body = [("if", ("bin", rng.choice([">", "<", "=="]), _v(a), _n(thr)), [("assign", t, val)], None), ("return", _v(t))]
        return name, [a], body, [t], False
    if kind == "accum":
        body = [("assign", t, ("bin", "+", _v(t), _v(a))), ("return", _v(t))]
        if rng.random() < 0.5:
            body.insert(0, ("if", ("bin", "==", _v(a), _n(thr)), [("return", _n(-1))], None))
        return name, [a], body, [t], False
    if kind == "count":
        body = [("forin", x, ("arr", [_v(a), _n(1), _n(2)][:rng.randint(1, 3)]), [("incr", t)]), ("return", _v(t))]
        return name, [a], body, [t, x], False
    if kind == "loopvar":
        body = [("assign", u, _v(x)), ("forin", x, ("arr", [_v(a), _n(5)]), [("assign", "g0", ("bin", "+", _v("g0"), _n(1)))]), ("return", _v(u))]
        return name, [a], body, [u, x], False
    if kind == "forvar":
        body = [("assign", u, _v(x)), ("for", x, rng.randint(1, 3), [("assign", "g1", ("bin", "+", _v("g1"), _v(x)))]), ("return", _v(u))]
        return name, [a], body, [u, x], False
    if kind == "early":
        body = [("if", ("bin", "==", _v(a), _n(thr)), [("assign", t, _n(5)), ("return", _n(0))], None), ("return", _v(t))]
        return name, [a], body, [t], False
    if kind == "rec":
        # the local is created after the recursive call returned: every level makes (and loses) its own
        body = [("if", ("bin", ">", _v(a), _n(0)), [("expr", ("call", name, [("bin", "-", _v(a), _n(1))]))], None),
                ("assign", t, ("bin", "+", _v(t), _n(1))), ("return", _v(t))]
        return name, [a], body, [t], True
    if kind == "rec2":
        # an early return at the bottom of the recursion; the outermost level conditionally sets the local
        body = [("if", ("bin", "<=", _v(a), _n(0)), [("return", _v(t))], None),
                ("assign", u, ("call", name, [("bin", "-", _v(a), _n(1))])),
                ("if", ("bin", ">", _v(a), _n(thr)), [("assign", t, ("str", "deep"))], None),
                ("return", _v(u))]
        return name, [a], body, [t, u], True
    if kind == "caller":
        f, ar, rec = rng.choice(made)
        c1 = ("call", f, [_v(a)][:ar])
        c2 = ("call", f, [_n(rng.randint(0, 2))][:ar])
        body = [("print", [("str", name), c1, c2]), ("if", ("bin", ">", _v(a), _n(thr)), [("assign", t, _n(1))], None), ("return", _v(t))]
        return name, [a], body, [t], rec
    if kind == "param":
        # a missing argument is null in every call, whatever an earlier call stored in the parameter
        body = [("if", ("bin", ">", _v(a), _n(thr)), [("assign", b, _n(7)), ("assign", t, _v(b))], None), ("return", ("arr", [_v(b), _v(t)]))]
        return name, [a, b], body, [t], False
    if kind == "arrlocal":
        body = [("if", ("bin", ">", _v(a), _n(thr)), [("assign", t, ("arr", [_v(a), _n(2)]))], None),
                ("if", ("bin", "==", _v(t), ("null",)), [("return", ("str", "none"))], None), ("return", _v(t))]
        return name, [a], body, [t], False
    # matchname: a name bound by a pattern inside the call, read at the start of the next call
    m = "m%d" % k
    body = [("assign", u, _v(m)), ("expr", ("match", _v(a), [([("plit", float(thr))], "block", [("return", ("str", "lit"))]),
                                                             ([("pname", m)], "block", [("assign", "g2", _v(m))])])), ("return", _v(u))]
    return name, [a], body, [u, m], False


def residue_program(rng):
    funcs, made, names = [], [], []
    for k in range(rng.randint(1, 3)):
        name, params, body, locs, rec = residue_function(rng, k, made)
        funcs.append((name, params, body))
        made.append((name, 1, rec))
        names += params + locs

    def call(arg):
        f, ar, rec = rng.choice(made)
        if rec and arg[0] == "num":
            arg = _n(min(arg[1], 6))
        return ("call", f, [arg])

    def calls(mk):
        out = []
        for _ in range(rng.randint(2, 6)):
            c = call(mk())
            out.append(("print", [("str", c[1]), c]) if rng.random() < 0.8 else ("assign", "g3", c))
            if rng.random() < 0.2:
                out.append(("expr", ("call", "pr_", [])))      # a probe from the top level would CREATE the names there as globals
        return out
    begin = [("assign", g, _n(i + 1)) for i, g in enumerate(callref.GLOBALS)]
    begin += calls(lambda: _n(rng.randint(0, 8)))
    rules = []
    if rng.random() < 0.7:
        body = calls(lambda: rng.choice([("dollar",), ("dollar",), _n(rng.randint(0, 8))]))
        rules.append((None if rng.random() < 0.7 else ("bin", "<", ("dollar",), _n(6)), body))
    end = calls(lambda: _n(rng.randint(0, 8)))
    names = sorted(set(names))
    funcs.append(("pr_", [], [("print", [("str", "P")] + [_v(x) for x in names])]))
    end.append(("expr", ("call", "pr_", [])))
    end.append(("print", [("str", "D")] + [_v(x) for x in names] + [_v(g) for g in callref.GLOBALS]))
    if rng.random() < 0.5:
        rng.shuffle(funcs)
    return {"funcs": funcs, "begin": begin, "rules": rules, "end": end}


class C08(Check):
    pid = "C08"
    props = ["C08_frames.v"]
    rule = ("programs of a restricted family (1-4 user functions of arity 0-3: pure, recursive, mutually recursive, with effects "
            "on globals, with next/exit at some nesting, returning from inside loops / conditionals / match blocks, storing "
            "through an array parameter; calls in operand, argument, index, condition, pattern and match-subject positions; too "
            "few / too many arguments; matches with expression and block bodies) printing globals before and after calls and "
            "probing parameter, local and pattern-bound names afterwards; functions whose locals are read before they are "
            "(conditionally) written -- set under a condition, accumulated, counted in a loop, loop variables, after recursion, "
            "after an early return -- called several times in a row from BEGIN, rules, END and other functions; expectation by "
            "an independent interpreter of the family; long histories: the same rule over n and n+5000 elements with n above the generated call depth limit; "
            "recursion well inside and far beyond the limit after thousands of completed calls.  non-trivial = at least one "
            "call or match completes before another begins")

    def generate(self, rng, tier):
        L = call_depth_limit()
        cases = []
        for i, (prog, inp, outcome, out) in enumerate(FIXED):
            cid = "h%d" % i
            cases.append(Case(cid, simple_run(cid, prog, [inp] if inp is not None else []),
                              {"prog": prog, "input": inp, "outcome": outcome, "stdout": out}, True, ("fixed",)))
        # ---- random programs of the family
        n = 450 if tier == "quick" else 9000
        k = 0
        tries = 0
        while k < n and tries < 3 * n:
            tries += 1
            g = callref.Gen(rng)
            p = g.program(rng.randint(1, 4), rng.randint(1, 3))
            w = rng.random()
            if w < 0.8:
                doc = [float(rng.randint(0, 8)) for _ in range(rng.randint(0, 7))]
            elif w < 0.9:
                doc = float(rng.randint(0, 8))
            else:
                doc = [float(rng.randint(0, 8))] * rng.randint(8, 40)
            it = callref.Interp(p, L, max_steps=60000)
            try:
                outcome, out = it.run(doc)
            except (callref.TooDeep, RecursionError):
                continue
            cid = "r%d" % k
            k += 1
            prog = callref.src_program(p)
            inp = json.dumps(doc)
            cases.append(Case(cid, simple_run(cid, prog, [inp]), {"prog": prog, "input": inp, "outcome": outcome, "stdout": out},
                              it.history))
        # ---- residue across sequential calls of the same function
        n = 300 if tier == "quick" else 6000
        k = 0
        while k < n:
            p = residue_program(rng)
            doc = [float(rng.randint(0, 8)) for _ in range(rng.randint(0, 6))]
            it = callref.Interp(p, L, max_steps=60000)
            try:
                outcome, out = it.run(doc)
            except (callref.TooDeep, RecursionError):
                continue
            cid = "q%d" % k
            k += 1
            prog = callref.src_program(p)
            inp = json.dumps(doc)
            cases.append(Case(cid, simple_run(cid, prog, [inp]), {"prog": prog, "input": inp, "outcome": outcome, "stdout": out,
                                                                  "what": "locals read before they are written, sequential calls"}, True))
        # ---- long histories: n and n + 5000 elements, n above the limit
        npairs = 3 if tier == "quick" else 60
        k = 0
        tries = 0
        while k < npairs and tries < 40 * npairs:
            tries += 1
            g = callref.Gen(rng, quiet=True)
            p = g.program(rng.randint(1, 3), rng.randint(1, 2))
            period = [float(rng.randint(0, 8)) for _ in range(rng.choice([1, 1, 2]))]
            n1 = L + rng.randint(40, 1900)
            exp = []
            good = viable(p, period, L)
            for nn in ((n1, n1 + 5000) if good else ()):
                doc = (period * nn)[:nn]
                it = callref.Interp(p, L, max_steps=100 * nn)       # small programs: the model needs seconds per 1000 elements
                try:
                    outcome, out = it.run(doc)
                except (callref.TooDeep, RecursionError):
                    good = False
                    break
                # every element must leave a call or a match behind, else the history is not long
                if outcome != "ok" or it.completed < nn:
                    good = False
                    break
                exp.append((nn, outcome, out))
            if not good:
                continue
            prog = callref.src_program(p)
            for nn, outcome, out in exp:
                cid = "l%d_%d" % (k, nn)
                inp = json.dumps((period * nn)[:nn])
                cases.append(Case(cid, simple_run(cid, prog, [inp]),
                                  {"prog": prog, "input_period": period, "input_len": nn, "outcome": outcome, "stdout": out, "pair": k},
                                  True, ("long",)))
            k += 1
        # ---- long histories with per-element output: implementation only (run in extra)
        self.verbose_long = []
        nv = 12 if tier == "quick" else 60
        k = 0
        tries = 0
        while k < nv and tries < 40 * nv:
            tries += 1
            g = callref.Gen(rng, quiet=(k % 3 == 2))
            p = g.program(rng.randint(1, 3), rng.randint(1, 2))
            v = float(rng.randint(0, 8))
            n1 = L + rng.randint(40, 1900)
            exp = []
            for nn in ((n1, n1 + 5000) if viable(p, [v], L) else ()):
                it = callref.Interp(p, L, max_steps=300 * nn)
                try:
                    outcome, out = it.run([v] * nn)
                except (callref.TooDeep, RecursionError):
                    break
                if outcome != "ok" or it.completed < nn or len(out) > 3000000:
                    break
                exp.append((nn, out))
            if len(exp) < 2:
                continue
            prog = callref.src_program(p)
            for nn, out in exp:
                cid = "v%d_%d" % (k, nn)
                self.verbose_long.append((cid, prog, v, nn, out))
                cases.append(Case(cid, None, {"prog": prog, "input": "[%s] * %d" % (pyref.fmt_f(v), nn), "stdout_len": len(out)}, True, ("long", "verbose")))
            k += 1
        # ---- recursion depth: only genuinely nested calls count
        shapes = [
            ("R", "function R(a) { if (a <= 0) return 0\n return R(a - 1) + 1 }", 1, 1),
            ("M", "function M(a) { return match (a) { 0 => 0,\n m => M(m - 1) + 1 } }", 2, 2),
            ("P", "function P(a) { if (a <= 0) return 0\n return Q(a - 1) + 1 }\nfunction Q(a) { if (a <= 0) return 0\n return P(a - 1) + 1 }", 1, 1),
            ("B", "function B(a) { if (a <= 0) return 0\n match (a) { m => { return B(m - 1) + 1 } } }", 2, 1),
        ]
        for si, (fn, src, per_level, base) in enumerate(shapes):
            for d in sorted({3, 50, L // 4, (L - 64) // per_level - 2, 2 * L, 3 * L + 7}):
                for hist in ((0, rng.randint(L + 10, 2 * L)) if si < 2 or tier != "quick" else (0,)):
                    depth = per_level * d + base        # frames live at the deepest point
                    if depth > L - 32 and depth < 2 * L:
                        continue
                    cid = "d%s%d_%d" % (fn, d, hist)
                    pre = ""
                    if hist:
                        pre = ("for (i = 0; i < %d; i++) { s = s + %s(1) + match (i) { 0 => 0,\n k => 1 } }\n print s\n" % (hist, fn))
                    prog = "%s\nBEGIN { %sprint 'A'\n print %s(%d)\n print 'Z' }" % (src, pre, fn, d)
                    pre_out = "%s\n" % pyref.fmt_f(float(2 * hist - 1)) if hist else ""
                    if depth <= L - 32:
                        exp = ("ok", pre_out + "A\n%d\nZ\n" % d)
                    else:
                        exp = ("runtime", pre_out + "A\n")
                    cases.append(Case(cid, simple_run(cid, prog, [], fuzz=False), {"prog": prog, "input": None, "outcome": exp[0], "stdout": exp[1],
                                                                                  "nested_frames": depth, "limit": L}, hist > 0, ("depth",)))
        return cases

    def oracle(self, case, impl):
        m = case.meta
        if "outcome" not in m:
            return None
        if impl.outcome in ("timeout",):
            return None
        got = (impl.outcome, impl.stdout.decode("utf-8", "replace"))
        want = (m["outcome"], m["stdout"])
        if got != want:
            return "expected %s %s, implementation %s %s%s" % (want[0], clip(want[1]), got[0], clip(got[1]),
                                                             " (first difference at byte %d)" % first_diff(want[1], got[1]))
        if impl.outcome == "ok" and impl.depth != "0":
            return "frame depth %s at the end of a successful run (a finished call or match left a frame behind)" % impl.depth
        return None

    def extra(self, ctx):
        viol = []
        lines, want = [], {}
        for cid, prog, v, nn, out in getattr(self, "verbose_long", []):
            lines.append(simple_run(cid, prog, ["[" + ",".join([pyref.fmt_f(v)] * nn) + "]"]))
            want[cid] = (prog, v, nn, out)
        if not lines:
            return [], {}
        res = run_impl(lines)
        for cid, (prog, v, nn, out) in want.items():
            r = RunRes(res.get(cid, []))
            if r.outcome == "timeout":
                continue
            got = r.stdout.decode("utf-8", "replace")
            why = None
            if r.outcome != "ok" or got != out:
                why = "long history (%d equal elements): expected ok with %d bytes of output, implementation %s with %d bytes; first difference at byte %d: %s" % (
                    nn, len(out), r.outcome, len(got), first_diff(out, got), clip(got[max(0, first_diff(out, got) - 40):]))
            elif r.depth != "0":
                why = "frame depth %s at the end of a successful run" % r.depth
            if why:
                viol.append((Case(cid, None, {"prog": prog, "input": "[%s] * %d" % (pyref.fmt_f(v), nn)}, True, ("long", "verbose")), why))
        return viol, {"verbose_long_runs": len(lines)}


def viable(p, period, L):
    """cheap filter for long-history programs: 60 elements run to the end and leave calls / matches behind"""
    it = callref.Interp(p, L, max_steps=60 * 300)
    try:
        outcome, out = it.run((period * 60)[:60])
    except (callref.TooDeep, RecursionError):
        return False
    return outcome == "ok" and it.completed >= 60


def first_diff(a, b):
    n = min(len(a), len(b))
    for i in range(n):
        if a[i] != b[i]:
            return i
    return n


def clip(s, n=160):
    s = repr(s)
    return s if len(s) <= n else s[:n - 20] + "..." + s[-17:]


CHECK = C08()
